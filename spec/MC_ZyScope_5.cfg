SPECIFICATION Spec
CONSTANTS
  MaxLen = 5
  Vocab = "full"
  CheckAlpha = FALSE
INVARIANTS BoundaryHygiene Report
CHECK_DEADLOCK FALSE
