SPECIFICATION Spec
CONSTANTS
  MaxLen = 5
  CheckAlpha = FALSE
INVARIANTS BoundaryHygiene Report
CHECK_DEADLOCK FALSE
