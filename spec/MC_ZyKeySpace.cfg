SPECIFICATION Spec
CONSTANTS
  Threads = {t1, t2, t3}
  PerThread = 3
  Atomic = TRUE
INVARIANTS UniqueKeySpaces NonZero
CHECK_DEADLOCK FALSE
