-------------------------- MODULE ZyCoverageTrace --------------------------
(***************************************************************************)
(* Trace validation (code -> spec) for C04: each record is one `match`     *)
(* analysed by the real checker: its type, its rows, whether it was        *)
(* accepted and the missing patterns the checker reported.  A record is    *)
(* accepted by the specification iff                                       *)
(*   - accepted <=> the rows are exhaustive (brute force over Values),     *)
(*   - every reported pattern matches at least one value that no row       *)
(*     matches (witnesses are judged semantically, so their choice and     *)
(*     order are free),                                                    *)
(*   - a rejected match reports at least one witness, at most MAXW, and    *)
(*     `truncated` only when MAXW witnesses are shown.                     *)
(***************************************************************************)
EXTENDS ZyCoverage, IOUtils

Rec == ndJsonDeserialize(IOEnv.TRACE)
VARIABLE l

UncovOf(ty, rs) == {v \in Values(ty) : \A i \in 1..Len(rs) : ~Matches(rs[i], v)}
RecordOk(r) ==
  LET ty == TypeOf(r.ty) unc == UncovOf(ty, r.rows) IN
  /\ r.accepted <=> (unc = {})
  /\ \A i \in 1..Len(r.reported) : \E v \in unc : Matches(r.reported[i], v)
  /\ ~r.accepted => (Len(r.reported) >= 1 /\ Len(r.reported) <= MAXW)
  /\ r.truncated => Len(r.reported) = MAXW

TInit == l = 1 /\ tyname = "Unit" /\ rows = << >>
TNext == /\ l <= Len(Rec)
         /\ RecordOk(Rec[l])
         /\ l' = l + 1
         /\ UNCHANGED <<tyname, rows>>
TSpec == TInit /\ [][TNext]_<<l, tyname, rows>>

TraceAccepted ==
  \/ TLCGet("stats").diameter - 1 = Len(Rec)
  \/ Print(<<"TRACE-REJECTED-AT", TLCGet("stats").diameter>>, FALSE)
=============================================================================
