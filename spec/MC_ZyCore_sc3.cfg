\* scenario configuration: a destructor clause with three value parameters (copattern elaboration order)
SPECIFICATION Spec
CONSTANTS
  MaxLen = 22
  Fuel = 200
  Prods = {"sc-copat3", "arith"}
  Faults = {}
  Root = "os"
  BindTys = {"int"}
  IntLits = {1, 2, 4}
INVARIANTS GenSound TypeSafety Report
CHECK_DEADLOCK FALSE
