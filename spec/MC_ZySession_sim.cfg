\* long random histories (simulation mode)
SPECIFICATION Spec
CONSTANTS
  MaxOps = 25
  Starts = {"lib-absent", "all-present", "companion-mismatch", "nothing"}
INVARIANTS TypeOK ExeDefined Report
CHECK_DEADLOCK FALSE
