\* long random histories (simulation mode)
SPECIFICATION Spec
CONSTANTS
  MaxOps = 25
  Starts = {"lib-absent", "all-present", "companion-mismatch"}
INVARIANTS TypeOK ExeDefined Report
CHECK_DEADLOCK FALSE
