CONSTANTS Depth = 1
          RootPats = "all"
          Mode = "check"
SPECIFICATION Spec
INVARIANT TableMatchesGrammar
INVARIANT AnchoringLaws
CHECK_DEADLOCK FALSE
