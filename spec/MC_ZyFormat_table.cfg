CONSTANTS Depth = 1
          Mode = "check"
SPECIFICATION Spec
INVARIANT TableMatchesGrammar
INVARIANT AnchoringLaws
CHECK_DEADLOCK FALSE
