SPECIFICATION Spec
CONSTANTS
  Part = "handles"
  MaxStr = 3
  MaxOps = 5
INVARIANTS TextLaws ClosedStaysClosed NoResurrection StdHandlesPermanent Report
CHECK_DEADLOCK FALSE
