CONSTANT Family = "mon"
CONSTANT MaxArity = 7
SPECIFICATION Spec
INVARIANTS MonCovers Report
CHECK_DEADLOCK FALSE
