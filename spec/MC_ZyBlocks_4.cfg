SPECIFICATION Spec
CONSTANT N = 4
INVARIANT Report
CHECK_DEADLOCK FALSE
