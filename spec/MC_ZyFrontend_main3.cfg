\* 75 lexemes (harness/src/frontend.rs VOCAB), all sequences of length <= 3
SPECIFICATION Spec
CONSTANTS
  V = 75
  MaxLen = 3
  OpenIx = {63}
  CloseIx = {64}
  LineIx = {61, 62}
  UnknownIx = {35, 38, 65, 66}
INVARIANT Report
CHECK_DEADLOCK FALSE
