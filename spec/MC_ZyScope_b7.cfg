SPECIFICATION Spec
CONSTANTS
  MaxLen = 7
  Vocab = "blocks"
  CheckAlpha = FALSE
INVARIANTS BoundaryHygiene Report
CHECK_DEADLOCK FALSE
