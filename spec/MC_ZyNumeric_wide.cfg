SPECIFICATION Spec
CONSTANT Task = "wide"
INVARIANTS LawsHold Report
CHECK_DEADLOCK FALSE
