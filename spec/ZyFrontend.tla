------------------------------ MODULE ZyFrontend ------------------------------
(***************************************************************************)
(* The front end as a total function (C10): for every input the pipeline   *)
(*   lex -> parse -> directives -> assemble -> desugar -> resolve -> check  *)
(*   -> render diagnostics                                                 *)
(* ends in Success or in Diagnostic(phase); a panic or a time-out at any   *)
(* phase leads to the sink Broken.  Every location a diagnostic mentions   *)
(* lies inside the file it names.                                          *)
(*                                                                         *)
(* This module (a) GENERATES inputs: every sequence of up to MaxLen items  *)
(* over a vocabulary of V representative lexemes (the harness holds the    *)
(* lexeme table; item i has lexical class Class(i) in the sense of         *)
(* ZyLexer) and (b) states the lexical must-reject predicate: an input     *)
(* with an unknown character, a stray `-/` or an unterminated `/-` outside *)
(* comments can never be a Success.  The monitor itself is                 *)
(* ZyFrontendTrace.tla.                                                    *)
(***************************************************************************)
EXTENDS Naturals, Sequences, TLC, Json
CONSTANTS V,            \* vocabulary size
          MaxLen,
          OpenIx, CloseIx, LineIx, UnknownIx     \* sets of vocabulary indices with those lexical classes

VARIABLE input
Init == input \in UNION {[1..n -> 1..V] : n \in 0..MaxLen}
Next == UNCHANGED input
Spec == Init /\ [][Next]_input

Class(i) == IF i \in OpenIx THEN "Open" ELSE IF i \in CloseIx THEN "Close" ELSE IF i \in LineIx THEN "Line"
            ELSE IF i \in UnknownIx THEN "Unknown" ELSE "Code"
RECURSIVE DepthBefore(_)
DepthBefore(i) ==
  IF i = 1 THEN 0
  ELSE LET d == DepthBefore(i - 1) t == Class(input[i - 1]) IN
       IF t = "Open" THEN d + 1 ELSE IF t = "Close" /\ d > 0 THEN d - 1 ELSE d
Outside(i) == DepthBefore(i) = 0
MustReject == \/ \E i \in 1..Len(input) : Class(input[i]) = "Close" /\ Outside(i)
              \/ DepthBefore(Len(input) + 1) > 0
              \/ \E i \in 1..Len(input) : Class(input[i]) = "Unknown" /\ Outside(i)
              \/ \A i \in 1..Len(input) : ~Outside(i) \/ Class(input[i]) \in {"Open", "Line"}     \* no code at all
Report == PrintT(<<"REPLAY", ToJson([input |-> input, mustreject |-> MustReject])>>)
=============================================================================
