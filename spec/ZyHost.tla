-------------------------------- MODULE ZyHost --------------------------------
(***************************************************************************)
(* Contracts of the host operations supplied through the Builtin package   *)
(* (C06).                                                                  *)
(*                                                                         *)
(* Part "text": a string is a sequence of Unicode scalar values, here      *)
(* RANKS 1..6 into an alphabet that spans the 1-, 2-, 3- and 4-byte UTF-8  *)
(* classes (harness: a b e-acute lambda euro-sign smiley).  Operations     *)
(* measure and index in scalars and take their `none` branch - never fail  *)
(* - on out-of-range positions.                                            *)
(* Part "parse": str_parse_int (optional sign, at least one ASCII digit,   *)
(* nothing else, value within Int64) on strings over a small vocabulary.   *)
(* Part "codepoint": char_from_codepoint is defined exactly on Unicode     *)
(* scalar values; the encoded length follows the code point range.         *)
(* Part "utf8": bytes_to_str accepts exactly well-formed UTF-8 (the        *)
(* standard automaton: no overlongs, no surrogates, nothing above          *)
(* U+10FFFF, no truncated sequence).                                       *)
(* Part "handles": the handle table of lang/dynamics/src/host.rs as a      *)
(* state machine: handle numbers grow monotonically, a closed handle stays *)
(* closed (every later operation on it takes the error continuation with   *)
(* kind Closed), the standard handles are permanent, a missing path is     *)
(* reported as NotFound through the error continuation.                    *)
(* Every row / behaviour is printed as a REPLAY record.                    *)
(***************************************************************************)
EXTENDS Integers, Sequences, TLC, FiniteSets, Json
CONSTANTS Part, MaxStr, MaxOps

Alphabet == 1..6
ByteLenOf(c) == CASE c \in {1, 2} -> 1 [] c \in {3, 4} -> 2 [] c = 5 -> 3 [] c = 6 -> 4
Strings(n) == UNION {[1..k -> Alphabet] : k \in 0..n}

RECURSIVE SumBytes(_)
SumBytes(s) == IF s = << >> THEN 0 ELSE ByteLenOf(Head(s)) + SumBytes(Tail(s))
ScalarLen(s) == Len(s)
ByteLen(s) == SumBytes(s)
NoneR == [some |-> FALSE]
SplitAt(s, i) == IF i >= 0 /\ i <= Len(s)
                 THEN [some |-> TRUE, pre |-> SubSeq(s, 1, i), suf |-> SubSeq(s, i + 1, Len(s))] ELSE NoneR
Get(s, i) == IF i >= 0 /\ i < Len(s) THEN [some |-> TRUE, ch |-> s[i + 1]] ELSE NoneR
SplitOnce(s, c) == LET P == {i \in 1..Len(s) : s[i] = c} IN
                   IF P = {} THEN NoneR
                   ELSE LET i == CHOOSE i \in P : \A j \in P : i <= j IN
                        [some |-> TRUE, pre |-> SubSeq(s, 1, i - 1), suf |-> SubSeq(s, i + 1, Len(s))]
Indices(s) == {-1, 0, 1, 2, Len(s) - 1, Len(s), Len(s) + 1, 1000000}

----------------------------------------------------------------------------
(* parse_int over the vocabulary: 1 = "0", 2 = "7", 3 = "-", 4 = "+", 5 = "x", 6 = " " *)
IsDigit(t) == t \in {1, 2}
DigitVal(t) == IF t = 1 THEN 0 ELSE 7
RECURSIVE NumVal(_, _)
NumVal(ds, acc) == IF ds = << >> THEN acc ELSE NumVal(Tail(ds), acc * 10 + DigitVal(Head(ds)))
ParseInt(s) ==
  LET signed == s # << >> /\ Head(s) \in {3, 4}
      ds == IF signed THEN Tail(s) ELSE s IN
  IF ds # << >> /\ \A i \in 1..Len(ds) : IsDigit(ds[i])
  THEN [some |-> TRUE, val |-> IF signed /\ Head(s) = 3 THEN -NumVal(ds, 0) ELSE NumVal(ds, 0)]
  ELSE NoneR

----------------------------------------------------------------------------
(* char_from_codepoint *)
CodePoints == {-1, 0, 65, 127, 128, 2047, 2048, 55295, 55296, 56000, 57343, 57344, 65535, 65536, 1114111, 1114112, 2000000000}
IsScalar(n) == n >= 0 /\ n <= 1114111 /\ ~(n >= 55296 /\ n <= 57343)
Utf8Len(n) == IF n < 128 THEN 1 ELSE IF n < 2048 THEN 2 ELSE IF n < 65536 THEN 3 ELSE 4
(* The argument is an Int64; TLC's integers are 32-bit, so values beyond that are written in base 2^16 with a sign: *)
(* v = sign * (a * 2^48 + b * 2^32 + c * 2^16 + d).  A scalar value has a = b = 0 - in particular an argument     *)
(* whose LOW 32 bits happen to be a scalar value (2^32 + 65, -(2^32 - 65)) is NOT a code point.                    *)
WideCodePoints == {[neg |-> g, a |-> a, b |-> b, c |-> cd[1], d |-> cd[2]] :
                     g \in BOOLEAN, a \in {0, 1, 256, 32767}, b \in {0, 1, 65535},
                     cd \in {<<0, 0>>, <<0, 65>>, <<1, 63042>>, <<16, 65535>>, <<17, 0>>, <<0, 55296>>, <<65535, 65535>>, <<65535, 65471>>}}
WideIsScalar(w) == (~w.neg \/ (w.a = 0 /\ w.b = 0 /\ w.c = 0 /\ w.d = 0)) /\ w.a = 0 /\ w.b = 0 /\ w.c <= 16 /\ IsScalar(w.c * 65536 + w.d)
WideLen(w) == Utf8Len(w.c * 65536 + w.d)

----------------------------------------------------------------------------
(* UTF-8 well-formedness (Unicode table 3-7) as an automaton over bytes.   *)
Bytes == {0, 65, 127, 128, 143, 144, 159, 160, 191, 192, 193, 194, 223, 224, 236, 237, 238, 239, 240, 241, 243, 244, 245, 255}
In(b, lo, hi) == b >= lo /\ b <= hi
Utf8Step(st, b) ==
  CASE st = "start" ->
         IF In(b, 0, 127) THEN "start"
         ELSE IF In(b, 194, 223) THEN "t1"
         ELSE IF b = 224 THEN "e0"
         ELSE IF In(b, 225, 236) \/ In(b, 238, 239) THEN "t2"
         ELSE IF b = 237 THEN "ed"
         ELSE IF b = 240 THEN "f0"
         ELSE IF In(b, 241, 243) THEN "t3"
         ELSE IF b = 244 THEN "f4"
         ELSE "bad"
    [] st = "t1" -> IF In(b, 128, 191) THEN "start" ELSE "bad"
    [] st = "t2" -> IF In(b, 128, 191) THEN "t1" ELSE "bad"
    [] st = "t3" -> IF In(b, 128, 191) THEN "t2" ELSE "bad"
    [] st = "e0" -> IF In(b, 160, 191) THEN "t1" ELSE "bad"
    [] st = "ed" -> IF In(b, 128, 159) THEN "t1" ELSE "bad"
    [] st = "f0" -> IF In(b, 144, 191) THEN "t2" ELSE "bad"
    [] st = "f4" -> IF In(b, 128, 143) THEN "t2" ELSE "bad"
    [] st = "bad" -> "bad"
RECURSIVE Utf8Run(_, _)
Utf8Run(st, bs) == IF bs = << >> THEN st ELSE Utf8Run(Utf8Step(st, Head(bs)), Tail(bs))
Utf8Valid(bs) == Utf8Run("start", bs) = "start"
RECURSIVE CountScalars(_)
CountScalars(bs) == IF bs = << >> THEN 0 ELSE (IF In(Head(bs), 128, 191) THEN 0 ELSE 1) + CountScalars(Tail(bs))

----------------------------------------------------------------------------
(* Handle table.                                                           *)
Paths == {"p1", "p2"}             \* p1 exists with content <<1, 2>> ("ab"), p2 does not exist
StdR == 0                         \* stdin;  stdout = writer 0, stderr = writer 1
VARIABLES grp, row,
          files, readers, writers, nextR, nextW, knownR, knownW, trace
vars == <<grp, row, files, readers, writers, nextR, nextW, knownR, knownW, trace>>
hvars == <<files, readers, writers, nextR, nextW, knownR, knownW, trace>>
NoRow == [k |-> "none"]
ABSENT == <<-1>>

Groups ==
  CASE Part = "text" -> {[k |-> "text", s |-> s] : s \in Strings(MaxStr)}
    [] Part = "parse" -> {[k |-> "parse", s |-> s] : s \in Strings(MaxStr)}
    [] Part = "codepoint" -> {[k |-> "cp"], [k |-> "cpw"]}
    [] Part = "utf8" -> {[k |-> "utf8", b |-> b] : b \in Bytes}
    [] Part = "handles" -> {[k |-> "handles"]}

Init == /\ grp \in Groups /\ row = NoRow
        /\ files = [p \in Paths |-> IF p = "p1" THEN <<1, 2>> ELSE ABSENT]
        /\ readers = << >> /\ writers = << >> /\ nextR = 1 /\ nextW = 2
        /\ knownR = {StdR} /\ knownW = {0, 1} /\ trace = << >>

Short == Strings(IF MaxStr < 2 THEN MaxStr ELSE 2)
TextRows(s) ==
  {[k |-> "len", s |-> s, n |-> ScalarLen(s)], [k |-> "bytelen", s |-> s, n |-> ByteLen(s)]}
  \cup {[k |-> "split_at", s |-> s, i |-> i, r |-> SplitAt(s, i)] : i \in Indices(s)}
  \cup {[k |-> "get", s |-> s, i |-> i, r |-> Get(s, i)] : i \in Indices(s)}
  \cup {[k |-> "split_once", s |-> s, c |-> c, r |-> SplitOnce(s, c)] : c \in {1, 2}}
  \cup (IF s \in Short THEN {[k |-> "append", s |-> s, t |-> t, r |-> s \o t] : t \in Short}
                            \cup {[k |-> "eq", s |-> s, t |-> t, r |-> (s = t)] : t \in Short} ELSE {})

RowStep ==
  /\ grp.k # "handles" /\ row = NoRow /\ UNCHANGED grp /\ UNCHANGED hvars
  /\ CASE grp.k = "text" -> \E r \in TextRows(grp.s) : row' = r
       [] grp.k = "parse" -> row' = [k |-> "parse_int", s |-> grp.s, r |-> ParseInt(grp.s)]
       [] grp.k = "cp" -> \E n \in CodePoints :
            row' = [k |-> "from_codepoint", n |-> n, some |-> IsScalar(n), bytes |-> IF IsScalar(n) THEN Utf8Len(n) ELSE 0]
       [] grp.k = "cpw" -> \E w \in WideCodePoints :
            row' = [k |-> "from_codepoint_wide", w |-> w, some |-> WideIsScalar(w), bytes |-> IF WideIsScalar(w) THEN WideLen(w) ELSE 0]
       [] grp.k = "utf8" -> \E bs \in {<<grp.b>>} \cup {<<grp.b, c>> : c \in Bytes} \cup {<<grp.b, c, d>> : c, d \in {128, 143, 144, 159, 160, 191, 65}}
                                      \cup {<<grp.b, c, d, e>> : c \in {128, 143, 144, 191}, d, e \in {128, 191, 65}} :
            row' = [k |-> "bytes_to_str", bytes |-> bs, valid |-> Utf8Valid(bs), scalars |-> CountScalars(bs)]

(* one host operation = one action; `out` is what the program observes: ok / error kind (+ payload) *)
Log(op, out) == trace' = Append(trace, [op |-> op, out |-> out])
Busy == grp.k = "handles" /\ Len(trace) < MaxOps /\ UNCHANGED <<grp, row>>
OpenReader(p) ==
  /\ Busy
  /\ IF files[p] = ABSENT
     THEN Log([o |-> "open_reader", p |-> p], [ok |-> FALSE, kind |-> 0]) /\ UNCHANGED <<files, readers, writers, nextR, nextW, knownR, knownW>>
     ELSE /\ readers' = [h \in DOMAIN readers \cup {nextR} |-> IF h = nextR THEN [p |-> p, pos |-> 0] ELSE readers[h]]
          /\ nextR' = nextR + 1 /\ knownR' = knownR \cup {nextR}
          /\ Log([o |-> "open_reader", p |-> p], [ok |-> TRUE, h |-> nextR]) /\ UNCHANGED <<files, writers, nextW, knownW>>
OpenWriter(p, append) ==
  /\ Busy
  /\ files' = [files EXCEPT ![p] = IF append /\ files[p] # ABSENT THEN files[p] ELSE << >>]
  /\ writers' = [h \in DOMAIN writers \cup {nextW} |->
                   IF h = nextW THEN [p |-> p, app |-> append, pos |-> 0] ELSE writers[h]]
  /\ nextW' = nextW + 1 /\ knownW' = knownW \cup {nextW}
  /\ Log([o |-> IF append THEN "append_writer" ELSE "create_writer", p |-> p], [ok |-> TRUE, h |-> nextW])
  /\ UNCHANGED <<readers, nextR, knownR>>
ReadAll(h) ==
  /\ Busy /\ h \in knownR /\ h # StdR
  /\ IF h \in DOMAIN readers
     THEN LET r == readers[h] c == files[r.p] IN
          /\ Log([o |-> "read_all", h |-> h], [ok |-> TRUE, data |-> IF r.pos >= Len(c) THEN << >> ELSE SubSeq(c, r.pos + 1, Len(c))])
          /\ readers' = [readers EXCEPT ![h].pos = IF r.pos >= Len(c) THEN r.pos ELSE Len(c)]
          /\ UNCHANGED <<files, writers, nextR, nextW, knownR, knownW>>
     ELSE Log([o |-> "read_all", h |-> h], [ok |-> FALSE, kind |-> 6]) /\ UNCHANGED <<files, readers, writers, nextR, nextW, knownR, knownW>>
WriteAll(h, b) ==
  /\ Busy /\ h \in knownW /\ h \notin {0, 1}
  /\ IF h \in DOMAIN writers
     THEN LET w == writers[h] c == files[w.p]
              at == IF w.app THEN Len(c) ELSE w.pos
              padded == IF at > Len(c) THEN c \o [i \in 1..(at - Len(c)) |-> 0] ELSE c
              new == SubSeq(padded, 1, at) \o <<b>> \o (IF at + 1 < Len(padded) + 1 THEN SubSeq(padded, at + 2, Len(padded)) ELSE << >>) IN
          /\ files' = [files EXCEPT ![w.p] = new]
          /\ writers' = [writers EXCEPT ![h].pos = at + 1]
          /\ Log([o |-> "write_all", h |-> h, b |-> b], [ok |-> TRUE])
          /\ UNCHANGED <<readers, nextR, nextW, knownR, knownW>>
     ELSE Log([o |-> "write_all", h |-> h, b |-> b], [ok |-> FALSE, kind |-> 6]) /\ UNCHANGED <<files, readers, writers, nextR, nextW, knownR, knownW>>
CloseReader(h) ==
  /\ Busy /\ h \in knownR
  /\ IF h = StdR \/ h \in DOMAIN readers
     THEN /\ Log([o |-> "close_reader", h |-> h], [ok |-> TRUE])
          /\ readers' = [k \in DOMAIN readers \ {h} |-> readers[k]]
     ELSE Log([o |-> "close_reader", h |-> h], [ok |-> FALSE, kind |-> 6]) /\ UNCHANGED readers
  /\ UNCHANGED <<files, writers, nextR, nextW, knownR, knownW>>
CloseWriter(h) ==
  /\ Busy /\ h \in knownW
  /\ IF h \in {0, 1} \/ h \in DOMAIN writers
     THEN /\ Log([o |-> "close_writer", h |-> h], [ok |-> TRUE])
          /\ writers' = [k \in DOMAIN writers \ {h} |-> writers[k]]
     ELSE Log([o |-> "close_writer", h |-> h], [ok |-> FALSE, kind |-> 6]) /\ UNCHANGED writers
  /\ UNCHANGED <<files, readers, nextR, nextW, knownR, knownW>>
Flush(h) ==
  /\ Busy /\ h \in knownW /\ h \notin {0, 1}
  /\ Log([o |-> "flush", h |-> h], IF h \in DOMAIN writers THEN [ok |-> TRUE] ELSE [ok |-> FALSE, kind |-> 6])
  /\ UNCHANGED <<files, readers, writers, nextR, nextW, knownR, knownW>>

HandleStep == \/ \E p \in Paths : OpenReader(p) \/ OpenWriter(p, FALSE) \/ OpenWriter(p, TRUE)
              \/ \E h \in knownR : ReadAll(h) \/ CloseReader(h)
              \/ \E h \in knownW : CloseWriter(h) \/ Flush(h) \/ \E b \in {3} : WriteAll(h, b)
Next == RowStep \/ HandleStep
Spec == Init /\ [][Next]_vars

----------------------------------------------------------------------------
(* text laws *)
TextLaws == (Part = "text" /\ grp.k = "text") =>
  LET s == grp.s IN
  /\ ByteLen(s) >= ScalarLen(s)
  /\ \A i \in 0..Len(s) : SplitAt(s, i).pre \o SplitAt(s, i).suf = s /\ Len(SplitAt(s, i).pre) = i
  /\ \A i \in Indices(s) : Get(s, i).some <=> (i >= 0 /\ i < ScalarLen(s))
  /\ \A c \in {1, 2} : SplitOnce(s, c).some => (SplitOnce(s, c).pre \o <<c>> \o SplitOnce(s, c).suf = s
                                                 /\ \A j \in 1..Len(SplitOnce(s, c).pre) : SplitOnce(s, c).pre[j] # c)
(* handle invariants *)
ClosedStaysClosed ==
  /\ \A h \in DOMAIN readers : h < nextR /\ h \in knownR
  /\ \A h \in DOMAIN writers : h < nextW /\ h \in knownW
  /\ knownR \subseteq 0..(nextR - 1) /\ knownW \subseteq 0..(nextW - 1)      \* numbers are never reused
  /\ \A i \in 1..Len(trace) : (~trace[i].out.ok /\ trace[i].op.o # "open_reader") => trace[i].out.kind = 6
(* once an operation on a handle reported Closed, no later operation on it succeeds *)
NoResurrection ==
  \A i, j \in 1..Len(trace) :
    (i < j /\ "h" \in DOMAIN trace[i].op /\ "h" \in DOMAIN trace[j].op /\ trace[i].op.h = trace[j].op.h
       /\ trace[i].op.o \in {"read_all", "close_reader"} /\ trace[j].op.o \in {"read_all", "close_reader"}
       /\ ~trace[i].out.ok) => ~trace[j].out.ok
StdHandlesPermanent == \A i \in 1..Len(trace) :
    (trace[i].op.o \in {"close_reader", "close_writer"} /\ trace[i].op.h \in {0, 1} /\
       (trace[i].op.o = "close_writer" \/ trace[i].op.h = 0)) => trace[i].out.ok

Report ==
  /\ (row # NoRow) => PrintT(<<"REPLAY", ToJson(row)>>)
  /\ (grp.k = "handles" /\ Len(trace) = MaxOps) =>
        PrintT(<<"REPLAY", ToJson([k |-> "handles", trace |-> trace, files |-> files])>>)
=============================================================================
