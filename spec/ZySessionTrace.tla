--------------------------- MODULE ZySessionTrace ---------------------------
(***************************************************************************)
(* Trace validation (code -> spec) for C15.  The harness drives one        *)
(* long-lived CompilerSession with a seeded random history (biased to      *)
(* query after every edit, with unlogged queries on a second root in       *)
(* between so that the lru = 1 check memo is evicted) and logs, per event, *)
(* the operation with its arguments and the abstracted answers.  Each      *)
(* event is consumed by the model action of the same name (reusing         *)
(* ZySession's actions) followed by an observation step that requires the  *)
(* logged answers to equal the from-scratch Answer of the model state.     *)
(* A `reset` event starts a new history (several traces per JVM start).    *)
(***************************************************************************)
EXTENDS ZySession, IOUtils

Rec == ndJsonDeserialize(IOEnv.TRACE)
VARIABLE l
tvars == <<start, disk, overlay, hist, pend, l>>

Ev == Rec[l]
TInit == /\ l = 1 /\ start = "trace" /\ hist = << >> /\ pend = NoOp
         /\ disk = [f \in Files |-> ABSENT] /\ overlay = [f \in Files |-> NONE]

Reset == /\ pend.o = "none" /\ l <= Len(Rec) /\ Ev.op = "reset"
         /\ disk' = [f \in Files |-> Ev.disk[f]] /\ overlay' = [f \in Files |-> NONE]
         /\ l' = l + 1 /\ UNCHANGED <<start, hist, pend>>
Apply == /\ pend.o = "none" /\ l <= Len(Rec) /\ Ev.op # "reset"
         /\ \/ Ev.op = "set_overlay" /\ SetOverlay(Ev.f, Ev.v)
            \/ Ev.op = "clear_overlay" /\ ClearOverlay(Ev.f)
            \/ Ev.op = "write_refresh" /\ WriteRefresh(Ev.f, Ev.v)
            \/ Ev.op = "delete_refresh" /\ DeleteRefresh(Ev.f)
         /\ UNCHANGED l
(* the logged answers must be the from-scratch answers of the state just reached *)
AnswerMatches(a) ==
  LET m == Answer IN
  /\ a.graph = m.graph.k
  /\ (m.graph.k \in {"missing", "parse"} => a.at = m.graph.at)
  /\ (m.graph.k = "ok" => {a.files[i] : i \in 1..Len(a.files)} = m.graph.files)
  /\ a.analyze = m.analyze
  /\ a.exe = m.exe
ObserveT == /\ pend.o # "none"
            /\ AnswerMatches(Ev.answer)
            /\ pend' = NoOp /\ l' = l + 1
            /\ UNCHANGED <<start, disk, overlay, hist>>
TNext == Reset \/ Apply \/ ObserveT
TSpec == TInit /\ [][TNext]_tvars

(* reset events take one step, the others two *)
Consumed == l - 1
TraceAccepted ==
  LET resets == Cardinality({i \in 1..Len(Rec) : Rec[i].op = "reset"})
      want == resets + 2 * (Len(Rec) - resets) IN
  \/ TLCGet("stats").diameter - 1 = want
  \/ Print(<<"TRACE-REJECTED-AFTER-STATES", TLCGet("stats").diameter - 1, "OF", want>>, FALSE)
=============================================================================
