-------------------------------- MODULE ZyFormat --------------------------------
(* C12, C13, C14 — the three places where the formatter takes *semantic* decisions, as a model:      *)
(*                                                                                                    *)
(*  part 1  the precedence algebra.  Every term former has a class; every child position has a        *)
(*          requirement.  Written twice: from the grammar (parser.lalrpop: precedence levels,         *)
(*          associativity substitution of LALRPOP, the TermAnn layer) and from the printer's own      *)
(*          table (pretty/context.rs GrammarContext + the requirement each render function passes).   *)
(*          TLC checks the two agree on every (parent, slot, child): TableMatchesGrammar.             *)
(*  part 2  spellings.  A tree is rendered fully parenthesised; every pair carries the model's        *)
(*          verdict `need`.  minimal = pairs with need, bare = no pairs.  The replay asks the REAL     *)
(*          parser whether minimal denotes the same term as full (sufficiency) and whether bare does   *)
(*          exactly when no pair is needed (necessity), and the REAL printer whether its output has    *)
(*          exactly the needed pairs, for all spellings the same text (canonicity).                    *)
(*  part 3  comment anchoring (trivia/comment.rs CommentCapture): a comment in a token gap leads the   *)
(*          entity with the smallest start at or after it, comments before an arm marker stay before   *)
(*          the marker, a comment after which no entity starts trails the root.  Pred(toks)[g] is the  *)
(*          gap in which the comment is re-emitted.  SameSideStrict (a comment only crosses            *)
(*          separators) is REFUTED by TLC on this design (closers, postfix names): finding F6.         *)
(*                                                                                                    *)
(*  The layout search (which alternative fits a width) is deliberately not modelled.                   *)
EXTENDS Naturals, Sequences, FiniteSets, TLC, Json

CONSTANTS Depth,        \* 1: one former over leaves; 2: a spine of two formers; 3: a spine of three
          Mode,         \* "emit" prints one REPLAY record per tree; "check" only evaluates invariants
          RootPats      \* "all": the root's binder position ranges over every pattern spelling; "var": `x` only

(* ------------------------------------------------------------------------------------------------ *)
(* part 1: classes and requirements                                                                   *)

\* precedence levels of the `Term` nonterminal, tightest first; 7 = only derivable from TermAnn
Atom == 0  Projection == 1  Application == 2  Product == 3  Arrow == 4  Quantifier == 5  Binder == 6
AnnOnly == 7

\* requirement = the loosest level a child position derives; 7 = TermAnn (anything)
AnyT == 6
Annotated == 7

tk(s, k) == [t |-> "tok", s |-> s, k |-> k]
\* the opening parenthesis of an annotated PATTERN `(x : T)`: printed by the annotation itself (see SelfParenPats)
tkp == [t |-> "tok", s |-> "(", k |-> "ent", sp |-> "elide"]
\* the delimiter of an ANNOTATED or MANIFEST existential parameter: the binder prints the pair itself and its
\* presentation starts at the delimiter (existential_prefix), so a comment directly after it always leads the
\* parameter and is emitted before the delimiter.  A plain binder (`exists (x)`, `exists ((x))`) is printed inside a
\* separate delimited group, and a comment before the delimiter moves inside to the binder: there it is a plain word.
tke == [t |-> "tok", s |-> "(", k |-> "ent", sp |-> "always"]
sl(r) == [t |-> "slot", r |-> r]
pt == [t |-> "pat"]          \* the binder position of a former: filled by the pattern spelling of the node

(* token kinds: ent   first token of a term / pattern / copattern / definition entity                *)
(*              sep   separator or infix keyword; arm: the `|` marker of an arm                       *)
(*              close closing delimiter; post: postfix name that is not an entity; word: other        *)
Formers == [
  var    |-> [c |-> Atom, tpl |-> <<tk("a", "ent")>>],
  hole   |-> [c |-> Atom, tpl |-> <<tk("_", "ent")>>],
  lit    |-> [c |-> Atom, tpl |-> <<tk("1", "ent")>>],
  \* a literal splice: the `--|` block directly above the annotation is its VALUE (rendered as two lines by the harness:
  \* the token `@(literal)` is preceded by a line `--| spliced text`); C13: documentation stays attached
  splice |-> [c |-> Binder, tpl |-> <<tk("--| spliced text\n@(literal)", "ent")>>],
  thunk  |-> [c |-> Atom, tpl |-> <<tk("{", "ent"), sl(AnyT), tk("}", "close")>>],
  force  |-> [c |-> Atom, tpl |-> <<tk("!", "ent"), sl(Atom)>>],
  ret    |-> [c |-> Atom, tpl |-> <<tk("ret", "ent"), sl(Atom)>>],
  block  |-> [c |-> Atom, tpl |-> <<tk("begin", "ent"), sl(Annotated), tk("end", "close")>>],
  cabs   |-> [c |-> Atom, tpl |-> <<tk("comatch", "ent"), pt, tk("=>", "sep"), sl(AnyT), tk("end", "close")>>],
  ctor   |-> [c |-> Atom, tpl |-> <<tk("+C", "ent"), tk("(", "ent"), sl(Annotated), tk(")", "close")>>],
  ctorb  |-> [c |-> Atom, tpl |-> <<tk("+C", "ent"), sl(Atom)>>],
  match  |-> [c |-> Atom, tpl |-> <<tk("match", "ent"), sl(AnyT), tk("|", "arm"), tk("+K", "ent"), tk("(", "ent"), tk("y", "ent"), tk(")", "close"), tk("=>", "sep"), sl(AnyT), tk("end", "close")>>],
  comatch |-> [c |-> Atom, tpl |-> <<tk("comatch", "ent"), tk("|", "arm"), tk(".d", "ent"), tk("=>", "sep"), sl(AnyT), tk("end", "close")>>],
  data   |-> [c |-> Atom, tpl |-> <<tk("data", "ent"), tk("|", "arm"), tk("+C", "word"), tk(":", "sep"), sl(AnyT), tk("end", "close")>>],
  codata |-> [c |-> Atom, tpl |-> <<tk("codata", "ent"), tk("|", "arm"), tk(".d", "word"), tk(":", "sep"), sl(AnyT), tk("end", "close")>>],
  \* a destructor with a parameter copattern between its name and the colon (the arm's first entity is then the
  \* parameter, not the result type: comments before the arm marker are stored under it)
  codatap |-> [c |-> Atom, tpl |-> <<tk("codata", "ent"), tk("|", "arm"), tk(".d", "word"), tkp, tk("x", "ent"), tk(":", "sep"), tk("a", "ent"), tk(")", "close"), tk(":", "sep"), sl(AnyT), tk("end", "close")>>],
  \* the same with parameters that do not fit 100 columns: the printer wraps the telescope by itself at the default width
  codatapw |-> [c |-> Atom, tpl |-> <<tk("codata", "ent"), tk("|", "arm"), tk(".d", "word"),
                 tkp, tk("first_parameter_with_a_long_name", "ent"), tk(":", "sep"), tk("First_long_type_name", "ent"), tk(")", "close"),
                 tkp, tk("second_parameter_with_a_long_name", "ent"), tk(":", "sep"), tk("Second_long_type_name", "ent"), tk(")", "close"),
                 tk(":", "sep"), sl(AnyT), tk("end", "close")>>],
  tuple  |-> [c |-> Atom, tpl |-> <<tk("(", "ent"), sl(Annotated), tk(",", "sep"), sl(Annotated), tk(")", "close")>>],
  proj   |-> [c |-> Projection, tpl |-> <<sl(Projection), tk("/", "post"), tk("f", "post")>>],
  app    |-> [c |-> Application, tpl |-> <<sl(Application), sl(Projection)>>],
  dtor   |-> [c |-> Application, tpl |-> <<sl(Application), tk(".d", "post")>>],
  prod   |-> [c |-> Product, tpl |-> <<sl(Application), tk("*", "sep"), sl(Product)>>],
  arrow  |-> [c |-> Arrow, tpl |-> <<sl(Product), tk("->", "sep"), sl(Arrow)>>],
  pi     |-> [c |-> Quantifier, tpl |-> <<tk("pi", "ent"), pt, tk(".", "sep"), sl(Quantifier)>>],
  forall |-> [c |-> Quantifier, tpl |-> <<tk("forall", "ent"), pt, tk(".", "sep"), sl(Quantifier)>>],
  sigma  |-> [c |-> Quantifier, tpl |-> <<tk("sigma", "ent"), pt, tk(".", "sep"), sl(Quantifier)>>],
  exists |-> [c |-> Quantifier, tpl |-> <<tk("exists", "ent"), tk("(", "word"), tk("x", "ent"), tk(")", "close"), tk(".", "sep"), sl(AnyT)>>],
  \* existential parameters in their other spellings: annotated, manifest (`as`) with two nested labels, and with a
  \* redundant pair inside the parameter's own delimiters
  existsa |-> [c |-> Quantifier, tpl |-> <<tk("exists", "ent"), tke, tk("x", "ent"), tk(":", "sep"), tk("a", "ent"), tk(")", "close"), tk(".", "sep"), sl(AnyT)>>],
  existsm |-> [c |-> Quantifier, tpl |-> <<tk("exists", "ent"), tke, tk("f", "ent"), tk("=", "sep"), tk("g", "ent"), tk("=", "sep"), tk("x", "ent"), tk("as", "sep"), tk("a", "ent"), tk(":", "sep"), tk("b", "ent"), tk(")", "close"), tk(".", "sep"), sl(AnyT)>>],
  existsd |-> [c |-> Quantifier, tpl |-> <<tk("exists", "ent"), tk("(", "word"), tk("(", "ent"), tk("x", "ent"), tk(")", "close"), tk(")", "close"), tk(".", "sep"), sl(AnyT)>>],
  fn     |-> [c |-> Binder, tpl |-> <<tk("fn", "ent"), pt, tk("=>", "sep"), sl(Binder)>>],
  fix    |-> [c |-> Binder, tpl |-> <<tk("fix", "ent"), pt, tk("=>", "sep"), sl(Binder)>>],
  do     |-> [c |-> Binder, tpl |-> <<tk("do", "ent"), pt, tk("<-", "sep"), sl(Binder), tk(";", "sep"), sl(Binder)>>],
  param  |-> [c |-> Binder, tpl |-> <<tk("param", "ent"), pt, tk("in", "sep"), sl(Binder)>>],
  let    |-> [c |-> Binder, tpl |-> <<tk("let", "ent"), pt, tk("=", "sep"), sl(AnyT), tk("in", "sep"), sl(Binder)>>],
  lett   |-> [c |-> Binder, tpl |-> <<tk("let", "ent"), pt, tk(":", "sep"), sl(AnyT), tk("=", "sep"), sl(AnyT), tk("in", "sep"), sl(Binder)>>],
  define |-> [c |-> Binder, tpl |-> <<tk("define", "ent"), pt, tk("=", "sep"), sl(AnyT), tk("in", "sep"), sl(Binder)>>],
  letfn  |-> [c |-> Binder, tpl |-> <<tk("let", "ent"), tk("f", "ent"), pt, tk(":", "sep"), sl(AnyT), tk("=", "sep"), sl(AnyT), tk("in", "sep"), sl(Binder)>>],
  letbang |-> [c |-> Binder, tpl |-> <<tk("let", "ent"), tk("!", "word"), tk("f", "ent"), pt, tk("=", "sep"), sl(AnyT), tk("in", "sep"), sl(Binder)>>],
  letfix |-> [c |-> Binder, tpl |-> <<tk("let", "ent"), tk("fix", "word"), tk("f", "ent"), pt, tk(":", "sep"), sl(AnyT), tk("=", "sep"), sl(AnyT), tk("in", "sep"), sl(Binder)>>],
  \* an untyped binding whose parameter telescope does not fit 100 columns
  letwide |-> [c |-> Binder, tpl |-> <<tk("let", "ent"), tk("compose", "ent"),
                 tkp, tk("first_parameter_with_a_long_name", "ent"), tk(":", "sep"), tk("First_long_type_name", "ent"), tk(")", "close"),
                 tkp, tk("second_parameter_with_a_long_name", "ent"), tk(":", "sep"), tk("Second_long_type_name", "ent"), tk(")", "close"),
                 tk("=", "sep"), sl(AnyT), tk("in", "sep"), sl(Binder)>>],
  meta   |-> [c |-> Binder, tpl |-> <<tk("@[inline]", "ent"), sl(Binder)>>],
  ann    |-> [c |-> AnnOnly, tpl |-> <<sl(AnyT), tk(":", "sep"), sl(AnyT)>>],
  named  |-> [c |-> AnnOnly, tpl |-> <<tk("f", "ent"), tk("=", "sep"), sl(Annotated)>>],
  label  |-> [c |-> AnnOnly, tpl |-> <<tk("f", "ent"), tk("::", "sep"), sl(Annotated)>>]
]
FN == DOMAIN Formers

(* spellings the printer replaces by a canonical one (`comatch p => t end` by `fn p => t`, `define` by   *)
(* `def`, a bare constructor argument by a parenthesised one): token-level comparisons skip these trees *)
Rewritten == {"cabs", "define", "ctorb", "existsd"}

(* pattern spellings for the binder position (canonical forms; `ppar` is a redundant pair the printer removes) *)
PatTpl == [
  pvar      |-> <<tk("x", "ent")>>,
  phole     |-> <<tk("_", "ent")>>,
  pctor     |-> <<tk("+K", "ent"), tk("(", "ent"), tk("y", "ent"), tk(")", "close")>>,
  ptuple    |-> <<tk("(", "ent"), tk("x", "ent"), tk(",", "sep"), tk("y", "ent"), tk(")", "close")>>,
  pnamed    |-> <<tk("(", "ent"), tk("f", "ent"), tk("=", "sep"), tk("x", "ent"), tk(")", "close")>>,
  ppun      |-> <<tk("(", "ent"), tk("=", "ent"), tk("g", "ent"), tk(")", "close")>>,
  pproj     |-> <<tk("(", "ent"), tk("/", "ent"), tk("g", "ent"), tk(")", "close")>>,
  pprojn    |-> <<tk("(", "ent"), tk("/", "ent"), tk("g", "word"), tk("=", "sep"), tk("x", "ent"), tk(")", "close")>>,
  palias    |-> <<tk("(", "ent"), tk("x", "ent"), tk(";", "sep"), tk("y", "ent"), tk(")", "close")>>,
  pann      |-> <<tk("(", "ent"), tk("x", "ent"), tk(":", "sep"), tk("a", "ent"), tk(")", "close")>>,
  pmanifest |-> <<tk("(", "ent"), tk("x", "ent"), tk("as", "sep"), tk("a", "ent"), tk(")", "close")>>,
  pannd     |-> <<tk("(", "ent"), tk("x", "ent"), tk(":", "sep"), tk("def", "ent"), tk("y", "ent"), tk("=", "sep"), tk("a", "ent"), tk("in", "sep"), tk("y", "ent"), tk(")", "close")>>,
  ppar      |-> <<tk("(", "ent"), tk("x", "ent"), tk(")", "close")>>
]
PatNames == DOMAIN PatTpl
SelfParenPats == {"pann", "pannd"}      \* an annotated pattern prints its own pair, like an annotated term
HasPat(f) == \E i \in DOMAIN Formers[f].tpl : Formers[f].tpl[i].t = "pat"

Slots(f) == {i \in DOMAIN Formers[f].tpl : Formers[f].tpl[i].t = "slot"}
Leaves == {f \in FN : Slots(f) = {}}
Inner == FN \ Leaves

\* the grammar: a child of class c is derivable at a position that derives level r without parentheses
GrammarAccepts(r, c) == c <= r

(* the printer's table (context.rs): Ann is classified Atom because `annotation()` writes its own      *)
(* parentheses unless the requirement is Annotated; Named/Label are AnnotatedOnly.                     *)
ImplClass == [f \in FN |-> IF f = "ann" THEN Atom ELSE IF f \in {"named", "label"} THEN AnnOnly ELSE Formers[f].c]
SelfParen == {"ann"}
ImplAccepts(r, f) ==
  CASE r = Annotated -> TRUE
    [] ImplClass[f] = AnnOnly -> FALSE
    [] OTHER -> ImplClass[f] <= r          \* AnyT = Through(Binder)
\* does the printed text have a pair around child f at a position of requirement r?
ImplKeeps(r, f) == IF f \in SelfParen THEN r # Annotated ELSE ~ImplAccepts(r, f)
Need(r, f) == ~GrammarAccepts(r, Formers[f].c)

Reqs == 0..7
TableMatchesGrammar == \A r \in Reqs, f \in FN : ImplKeeps(r, f) = Need(r, f)

(* ------------------------------------------------------------------------------------------------ *)
(* part 2: trees and spellings                                                                        *)

\* a tree is a former with one child tree per slot (in template order); leaves have <<>>
RECURSIVE Trees(_)
Trees(d) ==
  IF d = 0 THEN {[f |-> f, kids |-> <<>>, pat |-> "pvar"] : f \in Leaves}
  ELSE LET sub == Trees(d - 1)
           leaf == [f |-> "var", kids |-> <<>>, pat |-> "pvar"]
       IN  sub \cup UNION {
             LET n == Cardinality(Slots(f)) IN
             \* a spine: exactly one slot carries a deeper tree, the others the leaf `a`
             {[f |-> f, kids |-> [i \in 1..n |-> IF i = j THEN s ELSE leaf], pat |-> "pvar"] : j \in 1..n, s \in sub}
             : f \in Inner}

\* sp: the opening parenthesis that a self-parenthesising former (an annotation) prints as part of itself
po(need, self) == [s |-> "(", k |-> "ent", p |-> IF need THEN "need" ELSE "red", sp |-> IF need /\ self THEN "elide" ELSE "no"]
pc(need) == [s |-> ")", k |-> "close", p |-> IF need THEN "need" ELSE "red", sp |-> "no"]

RECURSIVE Render(_, _)
\* fully parenthesised token sequence of tree t at a position of requirement r
Render(t, r) ==
  LET tpl == Formers[t.f].tpl
      RECURSIVE Go(_, _)
      Go(i, k) == IF i > Len(tpl) THEN <<>>
                  ELSE IF tpl[i].t = "tok" THEN <<[s |-> tpl[i].s, k |-> tpl[i].k, p |-> "no", sp |-> IF "sp" \in DOMAIN tpl[i] THEN tpl[i].sp ELSE "no"]>> \o Go(i + 1, k)
                  ELSE IF tpl[i].t = "pat" THEN [j \in DOMAIN PatTpl[t.pat] |-> [s |-> PatTpl[t.pat][j].s, k |-> PatTpl[t.pat][j].k, p |-> "no", sp |-> IF t.pat \in SelfParenPats /\ j = 1 THEN "elide" ELSE "no"]] \o Go(i + 1, k)
                  ELSE Render(t.kids[k], tpl[i].r) \o Go(i + 1, k + 1)
      need == Need(r, t.f)
  IN  <<po(need, t.f \in SelfParen)>> \o Go(1, 1) \o <<pc(need)>>

RECURSIVE Rw(_)
Rw(t) == t.f \in Rewritten \/ t.pat = "ppar" \/ \E i \in DOMAIN t.kids : Rw(t.kids[i])

RECURSIVE DepthOf(_)
DepthOf(t) == IF t.kids = <<>> THEN 0
              ELSE 1 + (LET ds == {DepthOf(t.kids[i]) : i \in DOMAIN t.kids} IN CHOOSE m \in ds : \A x \in ds : x <= m)

Full(t) == Render(t, AnyT)                      \* the root of a source unit is a TermId
Min(t) == SelectSeq(Full(t), LAMBDA x : x.p # "red")
NeedsNone(t) == \A i \in DOMAIN Full(t) : Full(t)[i].p # "need"

(* ------------------------------------------------------------------------------------------------ *)
(* part 3: comment anchoring                                                                          *)

\* gap g (0..n) lies after token g.  The comment leads the first entity starting after it; if an arm
\* marker lies between, it is a before-arm comment of that arm and stays before the marker; without
\* any later entity it trails the root and is emitted after the last token.
NextEnt(toks, g) == LET S == {i \in (g + 1)..Len(toks) : toks[i].k = "ent"} IN
                    IF S = {} THEN 0 ELSE CHOOSE i \in S : \A j \in S : i <= j
\* A comment directly after the parenthesis an annotation prints for itself leads the annotation (it starts
\* at the same token as its first component) and is therefore emitted before that parenthesis: one hop back.
\* This happens when the source's grouping node is elided and the annotation writes the pair itself, i.e.
\* under `parentheses minimal` with a single-line group (a block comment); a line comment makes the group
\* multi-line, and `parentheses preserve` keeps the grouping node: then the comment stays inside (hop = FALSE).
PredGapH(toks, g, hop) ==
  LET e == NextEnt(toks, g) IN
  IF g >= 1 /\ (toks[g].sp = "always" \/ (hop /\ toks[g].sp = "elide")) THEN g - 1
  ELSE IF e = 0 THEN Len(toks)
  ELSE LET arms == {i \in (g + 1)..(e - 1) : toks[i].k = "arm"} IN
       IF arms # {} THEN (CHOOSE i \in arms : \A j \in arms : i >= j) - 1 ELSE e - 1
PredGap(toks, g) == PredGapH(toks, g, TRUE)
Pred(toks) == [g \in 0..Len(toks) |-> PredGap(toks, g)]
Crossed(toks, g) == {toks[i].k : i \in (g + 1)..PredGap(toks, g)}

\* (P is the whole prediction computed once per token sequence: TLC builds the function eagerly)
CrossedP(toks, P, g) == {toks[i].k : i \in (g + 1)..P[g]}
\* what the property asks: a comment stays on the same side of every syntactic element
SameSideStrict(toks) == LET P == Pred(toks) IN \A g \in 0..Len(toks) : CrossedP(toks, P, g) \subseteq {"sep", "arm"}
\* what this design guarantees
NeverBackwards(toks) == LET P == Pred(toks) IN \A g \in 0..Len(toks) : P[g] >= g \/ (g >= 1 /\ toks[g].sp # "no" /\ P[g] = g - 1)
NeverCrossesEntity(toks) == LET P == Pred(toks) IN \A g \in 0..Len(toks) : P[g] >= g => "ent" \notin CrossedP(toks, P, g)
OrderKept(toks) == LET P == Pred(toks) IN \A g \in 0..(Len(toks) - 1) : P[g] <= P[g + 1] \/ (toks[g + 1].sp # "no" /\ P[g + 1] = g)
Stable(toks) == LET P == Pred(toks) IN \A g \in 0..Len(toks) : P[P[g]] = P[g]   \* re-formatting does not move it again

(* ------------------------------------------------------------------------------------------------ *)
VARIABLES tree, stage
\* two steps so that TLC's workers share the printing: the root former is chosen first (initial states are
\* processed by one thread), the rest of the tree in a second, parallel step
\* the trees of depth <= Depth whose root former is f (without building the other roots' trees)
WithRoot(f) ==
  LET leaf == [f |-> "var", kids |-> <<>>, pat |-> "pvar"]
      n == Cardinality(Slots(f))
      base == IF n = 0 THEN {[f |-> f, kids |-> <<>>, pat |-> "pvar"]}
              ELSE IF Depth = 0 THEN {}
              ELSE {[f |-> f, kids |-> [i \in 1..n |-> IF i = j THEN s ELSE leaf], pat |-> "pvar"] : j \in 1..n, s \in Trees(Depth - 1)}
  IN UNION {{[t EXCEPT !.pat = p] : p \in IF HasPat(f) /\ RootPats = "all" THEN PatNames ELSE {"pvar"}} : t \in base}
Init == stage = "root" /\ tree \in {[f |-> f, kids |-> <<>>, pat |-> "pvar"] : f \in FN}
Next == stage = "root" /\ stage' = "done" /\ tree' \in WithRoot(tree.f)
Spec == Init /\ [][Next]_<<tree, stage>>

Strs(toks) == [i \in DOMAIN toks |-> toks[i].s]
Kinds(toks) == [i \in DOMAIN toks |-> toks[i].k]
Pars(toks) == [i \in DOMAIN toks |-> toks[i].p]
PredSeq(toks, hop) == [i \in 1..(Len(toks) + 1) |-> PredGapH(toks, i - 1, hop)]

Emit == (Mode = "emit" /\ stage = "done") =>
  PrintT(<<"REPLAY", ToJson([f |-> tree.f, pat |-> tree.pat, d |-> DepthOf(tree),
                             toks |-> Strs(Full(tree)), kinds |-> Kinds(Full(tree)), pars |-> Pars(Full(tree)),
                             bareOk |-> NeedsNone(tree), rw |-> Rw(tree),
                             predMin |-> PredSeq(Min(tree), FALSE), predMinHop |-> PredSeq(Min(tree), TRUE)])>>)

AnchoringLaws == stage = "done" =>
                 /\ NeverBackwards(Full(tree)) /\ NeverCrossesEntity(Full(tree)) /\ OrderKept(Full(tree))
                 /\ NeverBackwards(Min(tree)) /\ NeverCrossesEntity(Min(tree)) /\ OrderKept(Min(tree))
SameSide == stage = "done" => SameSideStrict(Min(tree))          \* expected to be violated: F6
Settles == stage = "done" => Stable(Min(tree))                   \* expected to be violated from Depth 2 on (annotation inside annotation): F20
================================================================================
