\* the lexer as found on the pinned tree: TLC must REFUTE NoSilentTruncation (self test, not a property check)
SPECIFICATION Spec
CONSTANTS
  MaxLen = 3
  StrayClose = "end"
  AtEof = "silent"
INVARIANTS NoSilentTruncation
CHECK_DEADLOCK FALSE
