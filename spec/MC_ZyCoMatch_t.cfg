SPECIFICATION Spec
CONSTANTS
  MaxDtors = 4
  MaxArms = 5
INVARIANTS OkIsBijection DispatchDefined Report
CHECK_DEADLOCK FALSE
