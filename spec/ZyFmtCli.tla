------------------------------- MODULE ZyFmtCli -------------------------------
(* C12 ("if the source does not parse, the file is left byte-for-byte unchanged and an error is       *)
(* reported"), C13 ("never writes a file that contains less program") and C14 ("`fmt --check` reports  *)
(* a file as unchanged exactly when `fmt` would not modify it") at the level of files: the state       *)
(* machine of cli/src/format.rs + main.rs format_sources.  A file is canonical (fmt(x) = x), not       *)
(* canonical (fmt(x) # x, fmt(x) canonical) or bad (does not parse / cannot be read).  A command        *)
(* processes its arguments in order and stops at the first bad file.                                   *)
(* TLC checks the invariants on every behaviour of MaxCmds commands and prints each behaviour; every   *)
(* one is replayed on the real binary with real files (tools/p_format.py).                             *)
EXTENDS Naturals, Sequences, FiniteSets, TLC, Json

CONSTANTS MaxCmds
Files == {"a", "b"}
Classes == {"canon", "noncanon", "bad"}
ArgLists == {<<"a">>, <<"b">>, <<"a", "b">>, <<"b", "a">>, <<"a", "a">>}
Ops == {"fmt", "check"}

VARIABLES cls0,     \* the classes at the start (history variable, for the replay)
          cls,      \* file -> class
          written,  \* file -> number of times its bytes were replaced
          hist      \* executed commands with their observable results

vars == <<cls0, cls, written, hist>>

\* index of the first bad argument, 0 if none
FirstBad(args, c) == LET B == {i \in DOMAIN args : c[args[i]] = "bad"} IN
                     IF B = {} THEN 0 ELSE CHOOSE i \in B : \A j \in B : i <= j
Reached(args, c) == IF FirstBad(args, c) = 0 THEN DOMAIN args ELSE 1..(FirstBad(args, c) - 1)

\* `fmt` rewrites every reached non-canonical file (a second occurrence of the same file finds it canonical)
AfterFmt(args, c) == [f \in Files |-> IF c[f] = "noncanon" /\ \E i \in Reached(args, c) : args[i] = f THEN "canon" ELSE c[f]]
Modified(args, c) == {f \in Files : AfterFmt(args, c)[f] # c[f]}
\* `fmt --check` lists every reached non-canonical argument (once per occurrence)
Listed(args, c) == [i \in 1..Cardinality({j \in Reached(args, c) : c[args[j]] = "noncanon"}) |->
                      LET S == {j \in Reached(args, c) : c[args[j]] = "noncanon"}
                          RECURSIVE Nth(_, _)
                          Nth(T, k) == LET m == CHOOSE x \in T : \A y \in T : x <= y IN IF k = 1 THEN m ELSE Nth(T \ {m}, k - 1)
                      IN args[Nth(S, i)]]

Exit(op, args, c) == IF FirstBad(args, c) # 0 THEN "error"
                     ELSE IF op = "check" /\ Len(Listed(args, c)) > 0 THEN "changed" ELSE "ok"

Run(op, args) ==
  /\ Len(hist) < MaxCmds
  /\ UNCHANGED cls0
  /\ cls' = IF op = "fmt" THEN AfterFmt(args, cls) ELSE cls
  /\ written' = [f \in Files |-> written[f] + IF op = "fmt" /\ f \in Modified(args, cls) THEN 1 ELSE 0]
  /\ hist' = Append(hist, [op |-> op, args |-> args, exit |-> Exit(op, args, cls),
                           listed |-> IF op = "check" THEN Listed(args, cls) ELSE <<>>,
                           after |-> IF op = "fmt" THEN AfterFmt(args, cls) ELSE cls])

Init == /\ cls \in [Files -> Classes] /\ cls0 = cls /\ written = [f \in Files |-> 0] /\ hist = <<>>
Next == \E op \in Ops, args \in ArgLists : Run(op, args)
Spec == Init /\ [][Next]_vars

(* ---- the properties --------------------------------------------------------------------------- *)
\* a bad file is never modified; `check` never writes
BadUntouched == [][\A f \in Files : cls[f] = "bad" => cls'[f] = "bad" /\ written'[f] = written[f]]_vars
CheckNeverWrites == \A i \in DOMAIN hist : hist[i].op = "check" => (i = 1 \/ hist[i].after = hist[i - 1].after)
\* `--check` reports nothing exactly when `fmt` from the same state would modify nothing (no bad file in reach)
CheckAgreesWithFmt == \A c \in [Files -> Classes], args \in ArgLists :
                        FirstBad(args, c) = 0 => ((Exit("check", args, c) = "ok") <=> (Modified(args, c) = {}))
\* formatting is a projection at the file level: a second `fmt` of the same arguments writes nothing
FmtTwiceWritesOnce == \A c \in [Files -> Classes], args \in ArgLists : Modified(args, AfterFmt(args, c)) = {}
\* an error is reported exactly when a bad file is reached, and the files after it are not processed
Inv == CheckNeverWrites /\ CheckAgreesWithFmt /\ FmtTwiceWritesOnce

Done == Len(hist) = MaxCmds
Emit == Done => PrintT(<<"REPLAY", ToJson([start |-> cls0, hist |-> hist])>>)
================================================================================
