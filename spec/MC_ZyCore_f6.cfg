\* generated by hand-run script in tools/; constants documented in DESIGN.md §C01-C03
SPECIFICATION Spec
CONSTANTS
  MaxLen = 6
  Fuel = 80
  Prods = {"app", "let", "arith", "div", "str", "br", "data", "pair", "codata", "fix"}
  Faults = {"wrongty", "tyterm", "unkctor", "unkdtor", "missingarm", "missingcoarm"}
  Root = "os"
  BindTys = {"int", "B", "pii", "tS"}
  IntLits = {1, 2}
INVARIANTS GenSound TypeSafety Report
CHECK_DEADLOCK FALSE
