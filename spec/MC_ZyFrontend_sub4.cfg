\* 16 lexemes around binders, destructors and metadata (SUBVOCAB), all sequences of length <= 4
SPECIFICATION Spec
CONSTANTS
  V = 16
  MaxLen = 4
  OpenIx = {}
  CloseIx = {}
  LineIx = {}
  UnknownIx = {}
INVARIANT Report
CHECK_DEADLOCK FALSE
