SPECIFICATION Spec
CONSTANT Task = "literals"
INVARIANTS LawsHold Report
CHECK_DEADLOCK FALSE
INVARIANT FloatConstants
