CONSTANTS MaxCmds = 3
SPECIFICATION Spec
INVARIANT Inv
INVARIANT Emit
PROPERTY BadUntouched
CHECK_DEADLOCK FALSE
