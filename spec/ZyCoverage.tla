----------------------------- MODULE ZyCoverage -----------------------------
(***************************************************************************)
(* Exhaustiveness of `match` and arm completeness of `comatch` (C04).      *)
(*                                                                         *)
(* Two definitions of exhaustiveness over a small algebra of value types:  *)
(*   - declarative: every value of the type is matched by some row         *)
(*     (brute force over Values(T));                                       *)
(*   - a line-by-line transcription of the pattern-matrix recursion of     *)
(*     lang/statics/src/validate/coverage.rs (uncovered / uncovered_finite *)
(*     / uncovered_default, Constructor::{arity, specialize, rebuild},     *)
(*     the take(MAX+1) truncation at every level, the `expected` head      *)
(*     space for the scrutinee).                                           *)
(* TLC checks that they agree for every matrix of up to MaxRows rows of    *)
(* patterns of depth <= Depth, that every witness denotes an uncovered     *)
(* value, and (below the truncation bound) that the witnesses cover all    *)
(* uncovered values.  Every matrix is printed as a REPLAY case with the    *)
(* first matching row of every value (run-time arm selection).             *)
(***************************************************************************)
EXTENDS Integers, Sequences, TLC, FiniteSets, SequencesExt, Json
CONSTANTS MaxRows, Depth, TypeNames,
          Ordered      \* TRUE: rows are added in one fixed order of the patterns (every SUBSET of the patterns once, instead
                       \* of every sequence): the only way to enumerate the matrices of a type with many constructors

MAXW == 8      \* MAX_REPORTED_MISSING_PATTERNS

TUnit == [t |-> "unit"]
TData(n) == [t |-> "data", n |-> n]
TProd(a, b) == [t |-> "prod", a |-> a, b |-> b]
TNamed(f, a) == [t |-> "named", f |-> f, a |-> a]

(* data declarations: name -> sequence of [c, ty] *)
DataDecl(n) ==
  CASE n = "Bool" -> << [c |-> "A", ty |-> TUnit], [c |-> "B", ty |-> TUnit] >>
    [] n = "Tri"  -> << [c |-> "A", ty |-> TUnit], [c |-> "B", ty |-> TData("Bool")],
                        [c |-> "C", ty |-> TProd(TData("Bool"), TData("Bool"))] >>
    [] n = "Opt"  -> << [c |-> "N", ty |-> TUnit], [c |-> "S", ty |-> TNamed("f", TData("Bool"))] >>
    [] n = "Empty" -> << >>
    [] n = "One"  -> << [c |-> "X", ty |-> TData("Bool")] >>
    \* more constructors than the number of missing patterns that is ever reported (MAXW + 1 = 9): a bound on the
    \* REPORT must not become a bound on the constructors that are examined
    [] n = "Wide" -> [i \in 1..11 |-> [c |-> (<<"D0", "D1", "D2", "D3", "D4", "D5", "D6", "D7", "D8", "D9", "D10">>)[i], ty |-> TUnit]]
    [] n = "WideIn" -> << [c |-> "X", ty |-> TData("Wide")] >>

TypeOf(nm) ==
  CASE nm = "Bool" -> TData("Bool")
    [] nm = "Tri" -> TData("Tri")
    [] nm = "Opt" -> TData("Opt")
    [] nm = "Empty" -> TData("Empty")
    [] nm = "One" -> TData("One")
    [] nm = "Wide" -> TData("Wide")
    [] nm = "WideIn" -> TData("WideIn")
    [] nm = "Unit" -> TUnit
    [] nm = "Pair" -> TProd(TData("Bool"), TData("Bool"))
    [] nm = "Triple" -> TProd(TData("Bool"), TProd(TData("Bool"), TData("Bool")))
    [] nm = "Rec" -> TProd(TNamed("f", TData("Bool")), TNamed("g", TData("Bool")))
    [] nm = "PairOpt" -> TProd(TData("Opt"), TData("Bool"))

RECURSIVE Values(_)
Values(ty) ==
  CASE ty.t = "unit" -> {[k |-> "unit"]}
    [] ty.t = "prod" -> {[k |-> "prod", a |-> x, b |-> y] : x \in Values(ty.a), y \in Values(ty.b)}
    [] ty.t = "named" -> {[k |-> "named", f |-> ty.f, a |-> x] : x \in Values(ty.a)}
    [] ty.t = "data" -> UNION {{[k |-> "ctor", c |-> DataDecl(ty.n)[i].c, a |-> x] : x \in Values(DataDecl(ty.n)[i].ty)}
                               : i \in 1..Len(DataDecl(ty.n))}

Wild == [k |-> "wild"]
RECURSIVE Pats(_, _)
Pats(ty, d) ==
  {Wild} \cup
  (IF d = 0 THEN {} ELSE
   CASE ty.t = "unit" -> {[k |-> "unit"]}
     [] ty.t = "prod" -> {[k |-> "prod", a |-> x, b |-> y] : x \in Pats(ty.a, d - 1), y \in Pats(ty.b, d - 1)}
     [] ty.t = "named" -> {[k |-> "named", f |-> ty.f, a |-> x] : x \in Pats(ty.a, d - 1)}
     [] ty.t = "data" -> UNION {{[k |-> "ctor", d |-> ty.n, c |-> DataDecl(ty.n)[i].c, a |-> x] : x \in Pats(DataDecl(ty.n)[i].ty, d - 1)}
                                : i \in 1..Len(DataDecl(ty.n))})

RECURSIVE Matches(_, _)
Matches(p, v) ==
  CASE p.k = "wild" -> TRUE
    [] p.k = "unit" -> v.k = "unit"
    [] p.k = "prod" -> v.k = "prod" /\ Matches(p.a, v.a) /\ Matches(p.b, v.b)
    [] p.k = "named" -> v.k = "named" /\ v.f = p.f /\ Matches(p.a, v.a)
    [] p.k = "ctor" -> v.k = "ctor" /\ v.c = p.c /\ Matches(p.a, v.a)

----------------------------------------------------------------------------
(* Transcription of coverage.rs.                                           *)
None == [s |-> "none"]
HeadSpace(p) ==
  CASE p.k = "wild" -> None
    [] p.k = "ctor" -> [s |-> "data", n |-> p.d]
    [] p.k = "unit" -> [s |-> "unit"]
    [] p.k = "prod" -> [s |-> "prod", n |-> 2]
    [] p.k = "named" -> [s |-> "named", f |-> p.f]
Ctors(space) ==
  CASE space.s = "data" -> [i \in 1..Len(DataDecl(space.n)) |-> [c |-> "data", name |-> DataDecl(space.n)[i].c]]
    [] space.s = "unit" -> << [c |-> "unit"] >>
    [] space.s = "prod" -> << [c |-> "prod", n |-> space.n] >>
    [] space.s = "named" -> << [c |-> "named", f |-> space.f] >>
CArity(c) == CASE c.c \in {"data", "named"} -> 1 [] c.c = "unit" -> 0 [] c.c = "prod" -> c.n
Specialize(c, p) ==   \* <<TRUE, fields>> or <<FALSE, << >> >>
  IF p.k = "wild" THEN <<TRUE, [i \in 1..CArity(c) |-> Wild]>>
  ELSE IF c.c = "data" /\ p.k = "ctor" /\ p.c = c.name THEN <<TRUE, <<p.a>>>>
  ELSE IF c.c = "unit" /\ p.k = "unit" THEN <<TRUE, << >>>>
  ELSE IF c.c = "prod" /\ p.k = "prod" THEN <<TRUE, <<p.a, p.b>>>>
  ELSE IF c.c = "named" /\ p.k = "named" /\ p.f = c.f THEN <<TRUE, <<p.a>>>>
  ELSE <<FALSE, << >>>>
Rebuild(c, row) ==
  LET n == CArity(c) head == SubSeq(row, 1, n) rest == SubSeq(row, n + 1, Len(row)) IN
  <<(CASE c.c = "data" -> [k |-> "ctor", c |-> c.name, a |-> head[1]]
       [] c.c = "unit" -> [k |-> "unit"]
       [] c.c = "named" -> [k |-> "named", f |-> c.f, a |-> head[1]]
       [] c.c = "prod" -> [k |-> "prod", a |-> head[1], b |-> head[2]])>> \o rest
Take(s, n) == SubSeq(s, 1, IF Len(s) < n THEN Len(s) ELSE n)

RECURSIVE Uncovered(_, _, _)
Uncovered(matrix, cols, expected) ==
  IF cols = 0 THEN (IF matrix = << >> THEN << << >> >> ELSE << >>)
  ELSE LET
    heads == SelectSeq([i \in 1..Len(matrix) |-> HeadSpace(matrix[i][1])], LAMBDA h : h # None)
    space == IF expected # None THEN expected ELSE IF heads # << >> THEN heads[1] ELSE None
    Finite(sp) ==
      LET cs == Ctors(sp)
          PerCtor(c) ==
            LET spec == SelectSeq([i \in 1..Len(matrix) |-> Specialize(c, matrix[i][1]) \o <<Tail(matrix[i])>>], LAMBDA r : r[1])
                rows == [i \in 1..Len(spec) |-> spec[i][2] \o spec[i][3]]
                sub == Uncovered(rows, cols - 1 + CArity(c), None)
            IN [i \in 1..Len(sub) |-> Rebuild(c, sub[i])]
      IN Take(FlattenSeq([i \in 1..Len(cs) |-> PerCtor(cs[i])]), MAXW + 1)
    Default ==
      LET ds == SelectSeq(matrix, LAMBDA r : r[1].k = "wild")
          rows == [i \in 1..Len(ds) |-> Tail(ds[i])]
          sub == Uncovered(rows, cols - 1, None)
      IN Take([i \in 1..Len(sub) |-> <<Wild>> \o sub[i]], MAXW + 1)
  IN IF matrix = << >> THEN (IF expected # None THEN Finite(expected) ELSE << [i \in 1..cols |-> Wild] >>)
     ELSE IF space # None THEN Finite(space) ELSE Default

(* data_hints: the scrutinee's data type gives the head space even for an empty match *)
TopSpace(ty) == CASE ty.t = "data" -> [s |-> "data", n |-> ty.n] [] OTHER -> None

----------------------------------------------------------------------------
VARIABLES tyname, rows
vars == <<tyname, rows>>
Ty == TypeOf(tyname)

\* a fixed order of the patterns of the type (only used when Ordered)
PatSeq == SetToSeq(Pats(Ty, Depth))
Rank(p) == CHOOSE i \in 1..Len(PatSeq) : PatSeq[i] = p
Init == tyname \in TypeNames /\ rows = << >>
Next == /\ Len(rows) < MaxRows
        /\ \E p \in Pats(Ty, Depth) : /\ (IF Ordered /\ rows # << >> THEN Rank(p) > Rank(rows[Len(rows)]) ELSE TRUE)
                                       /\ rows' = Append(rows, p)
        /\ UNCHANGED tyname
Spec == Init /\ [][Next]_vars

UncoveredVals == {v \in Values(Ty) : \A i \in 1..Len(rows) : ~Matches(rows[i], v)}
Exhaustive == UncoveredVals = {}
Result == Uncovered([i \in 1..Len(rows) |-> <<rows[i]>>], 1, TopSpace(Ty))

(* the algorithm decides exhaustiveness *)
Agree == (Result = << >>) <=> Exhaustive
(* every witness denotes at least one value no row matches *)
WitnessSound == \A i \in 1..Len(Result) : \E v \in UncoveredVals : Matches(Result[i][1], v)
(* below the truncation bound the witnesses account for every uncovered value *)
WitnessComplete == Len(Result) <= MAXW => \A v \in UncoveredVals : \E i \in 1..Len(Result) : Matches(Result[i][1], v)
(* an exhaustive match always finds an arm at run time *)
FirstMatch(v) == LET S == {i \in 1..Len(rows) : Matches(rows[i], v)} IN
                 IF S = {} THEN 0 ELSE CHOOSE i \in S : \A j \in S : i <= j
ArmAlwaysFound == Exhaustive => \A v \in Values(Ty) : FirstMatch(v) # 0
(* the verdict does not depend on the order of the rows *)
RowOrderIrrelevant ==
  Len(rows) >= 2 =>
    LET sw == [i \in 1..Len(rows) |-> IF i = 1 THEN rows[2] ELSE IF i = 2 THEN rows[1] ELSE rows[i]] IN
    (Uncovered([i \in 1..Len(sw) |-> <<sw[i]>>], 1, TopSpace(Ty)) = << >>) <=> (Result = << >>)

Report == PrintT(<<"REPLAY", ToJson([ty |-> tyname, rows |-> rows, exhaustive |-> Exhaustive,
            nmissing |-> Len(Result),
            vals |-> SetToSeq({[v |-> v, arm |-> FirstMatch(v)] : v \in Values(Ty)})])>>)
=============================================================================
