CONSTANTS Depth = 2
          Mode = "emit"
SPECIFICATION Spec
INVARIANT Emit
INVARIANT AnchoringLaws
CHECK_DEADLOCK FALSE
