\* self test: a writer that does not wait.  TLC must REFUTE Isolation.
SPECIFICATION Spec
CONSTANTS
  Analysers = {a1, a2}
  Files = {f1, f2}
  Vals = {0, 1}
  MaxWrites = 2
  WriterWaits = FALSE
  Callers = {}
  Memoised = FALSE
INVARIANTS Isolation
