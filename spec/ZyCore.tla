------------------------------- MODULE ZyCore -------------------------------
(***************************************************************************)
(* The Zydeco core calculus as one executable specification:               *)
(*                                                                         *)
(*   1. abstract syntax (prefix-token programs, nameless binders),         *)
(*   2. the typing rules, twice: as a DERIVATION MACHINE that emits every  *)
(*      derivable program token by token (state = output + stack of open   *)
(*      obligations), and as a recursive type-synthesis operator TyOf,     *)
(*   3. the reference CBPV semantics as a CK machine with one action arm   *)
(*      per arm of `impl Eval for Computation` (lang/dynamics/src/eval.rs),*)
(*   4. the properties: GenSound (both typing formulations agree),         *)
(*      TypeSafety (C01: an accepted program is never Stuck), and the      *)
(*      REPLAY printer that hands every completed behaviour to the         *)
(*      conformance harness (prediction = verdict, output, result).        *)
(*                                                                         *)
(* Binders are de Bruijn LEVELS: variable i is the i-th entry of the       *)
(* context counted from the outside, the environment is a sequence that    *)
(* grows on the right, a closure captures the whole sequence.              *)
(***************************************************************************)
EXTENDS Integers, Sequences, TLC, FiniteSets, Json

CONSTANTS MaxLen,    \* bound on the number of tokens of a program
          Fuel,      \* bound on machine steps
          Prods,     \* enabled production families (layers)
          Faults,    \* enabled single-fault families
          Root,      \* "os": executable programs; "retint": closed computations of type Ret Int64 (C20)
          BindTys,   \* names of the types a binder may range over (cut types)
          IntLits    \* integer literals the generator may write

----------------------------------------------------------------------------
(* Types.  Always records, so that any two can be compared.                *)
TInt  == [t |-> "int"]
TUnit == [t |-> "unit"]
TStr  == [t |-> "str"]
OS    == [t |-> "os"]
TKind == [t |-> "kind"]                      \* `VType` used where a type is expected
Thk(C)     == [t |-> "thk", c |-> C]
Ret(A)     == [t |-> "ret", a |-> A]
Fn(A, C)   == [t |-> "fn", a |-> A, c |-> C]
Pair(A, B) == [t |-> "pair", a |-> A, b |-> B]
VFn(A, B)  == [t |-> "vfn", a |-> A, b |-> B]     \* pure (value-level) function: fn x => v
Data(n)    == [t |-> "data", n |-> n]
CoData(n)  == [t |-> "codata", n |-> n]

IsV(T) == T.t \in {"int", "unit", "str", "thk", "pair", "data", "vfn"}
IsC(T) == T.t \in {"os", "ret", "fn", "codata"}

(* The scaffold's declared (transparent, structural) data and codata types. *)
(*   B = data | +T : Unit | +F : Int64 end                                  *)
(*   O = data | +N : Unit | +J : Int64 * Int64 | +K : B end                 *)
(*   S = codata | .fst : Ret Int64 | .snd : Int64 -> Ret Int64 end          *)
(*   P = codata | .run : OS | .get : Ret B end                              *)
(*   B1 = data | +T : Unit end        S1 = codata | .fst : Ret Int64 end    *)
(* B1 and S1 are strict sub-signatures of B and S: structural equality     *)
(* must compare the NUMBER of arms, not only the arms of one side.         *)
DataArms(n) ==
  CASE n = "B" -> <<[c |-> "T", a |-> TUnit], [c |-> "F", a |-> TInt]>>
    [] n = "O" -> <<[c |-> "N", a |-> TUnit], [c |-> "J", a |-> Pair(TInt, TInt)],
                    [c |-> "K", a |-> Data("B")]>>
    [] n = "B1" -> <<[c |-> "T", a |-> TUnit]>>                 \* a strict sub-signature of B
    [] OTHER -> << >>
CoArms(n) ==
  CASE n = "S" -> <<[d |-> "fst", c |-> Ret(TInt)], [d |-> "snd", c |-> Fn(TInt, Ret(TInt))]>>
    [] n = "P" -> <<[d |-> "run", c |-> OS], [d |-> "get", c |-> Ret(Data("B"))]>>
    [] n = "S1" -> <<[d |-> "fst", c |-> Ret(TInt)]>>            \* a strict sub-signature of S
    [] n = "S3" -> <<[d |-> "go", c |-> Fn(TInt, Fn(TInt, Fn(TInt, Ret(TInt))))]>>   \* a destructor with three parameters (scenario sc-copat3 only)
    [] OTHER -> << >>
DataNames == {"B", "O", "B1"}
CoNames   == {"S", "P", "S1"}

NamedTy(nm) ==
  CASE nm = "int" -> TInt [] nm = "unit" -> TUnit [] nm = "str" -> TStr
    [] nm = "B" -> Data("B") [] nm = "O" -> Data("O") [] nm = "B1" -> Data("B1")
    [] nm = "tS1" -> Thk(CoData("S1"))
    [] nm = "pii" -> Pair(TInt, TInt)
    [] nm = "pib" -> Pair(TInt, Data("B"))
    [] nm = "tS" -> Thk(CoData("S")) [] nm = "tP" -> Thk(CoData("P"))
    [] nm = "tri" -> Thk(Ret(TInt))
    [] nm = "tfi" -> Thk(Fn(TInt, Ret(TInt)))
    [] nm = "tos" -> Thk(OS)
    [] nm = "gi" -> VFn(TUnit, TInt)
BTys == {NamedTy(nm) : nm \in BindTys}

----------------------------------------------------------------------------
VARIABLES phase,   \* "gen" | "run" | "done"
          out,     \* program emitted so far: sequence of tokens in prefix order
          todo,    \* stack of open obligations [s, ty, ctx]
          faulty,  \* "none" or the name of the one fault applied
          ctl, env, stk, io, steps,   \* CK machine
          res      \* final result record
vars == <<phase, out, todo, faulty, ctl, env, stk, io, steps, res>>

Ob(s, ty, ctx) == [s |-> s, ty |-> ty, ctx |-> ctx]

(* Number of subterms of a token. *)
Arity(tok) ==
  CASE tok.k \in {"var", "int", "unit", "str", "tyterm"} -> 0
    [] tok.k \in {"thunk", "ret", "lam", "force", "exit", "ctor", "dtor", "fix", "i2s", "vlam"} -> 1
    [] tok.k \in {"do", "app", "let", "arith", "pair", "matchP", "wl", "sapp", "vapp", "vlet"} -> 2
    [] tok.k = "br" -> 4
    [] tok.k = "match" -> 1 + Len(DataArms(tok.d)) - (IF tok.skip = 0 THEN 0 ELSE 1)
    [] tok.k = "comatch" -> Len(CoArms(tok.d)) - (IF tok.skip = 0 THEN 0 ELSE 1)

(* Prefix tokens -> tree.  A node is its token extended with xs = children. *)
RECURSIVE ParseN(_, _, _)
ParseN(toks, i, n) ==   \* parse n consecutive subterms starting at i: <<seq of trees, next index>>
  IF n = 0 THEN << << >>, i >>
  ELSE LET tok  == toks[i]
           kids == ParseN(toks, i + 1, Arity(tok))
           node == tok @@ [xs |-> kids[1]]
           rest == ParseN(toks, kids[2], n - 1)
       IN << <<node>> \o rest[1], rest[2] >>
Tree(toks) == ParseN(toks, 1, 1)[1][1]

----------------------------------------------------------------------------
(* Typing, formulation 1: synthesis over the (fully annotated) tree.       *)
(* Every former carries the annotations a fully annotated rendering shows, *)
(* so the type of a node is determined and the rules are equalities.       *)
Err(w) == [t |-> "err", why |-> w]
IsErr(T) == T.t = "err"
ArmIndex(arms, key, name) ==   \* index of the arm called name, 0 if none
  LET S == {i \in 1..Len(arms) : arms[i][key] = name} IN IF S = {} THEN 0 ELSE CHOOSE i \in S : TRUE

RECURSIVE TyOf(_, _)
(* All children must be error free; first error wins (left to right). *)
FirstErr(ts) == LET S == {i \in 1..Len(ts) : IsErr(ts[i])} IN
                IF S = {} THEN TUnit ELSE ts[CHOOSE i \in S : \A j \in S : i <= j]
TyOf(ctx, n) ==
  LET k == n.k IN
  CASE k = "var"  -> IF n.i \in 1..Len(ctx) THEN ctx[n.i] ELSE Err("S-Unbound")
    [] k = "int"  -> TInt
    [] k = "unit" -> TUnit
    [] k = "str"  -> TStr
    [] k = "tyterm" -> Err("K-Sort-TypeAsTerm")
    [] k = "thunk" -> LET b == TyOf(ctx, n.xs[1]) IN
         IF IsErr(b) THEN b ELSE IF ~IsC(b) THEN Err("K-Sort-Thunk")
         ELSE IF b = n.c THEN Thk(n.c) ELSE Err("T-Thunk-Body")
    [] k = "ctor" -> LET a == TyOf(ctx, n.xs[1]) i == ArmIndex(DataArms(n.d), "c", n.c) IN
         IF IsErr(a) THEN a ELSE IF i = 0 THEN Err("T-Ctor-Unknown")
         ELSE IF ~IsV(a) THEN Err("K-Sort-Ctor")
         ELSE IF a = DataArms(n.d)[i].a THEN Data(n.d) ELSE Err("T-Ctor-Payload")
    [] k = "pair" -> LET a == TyOf(ctx, n.xs[1]) b == TyOf(ctx, n.xs[2]) IN
         IF IsErr(a) THEN a ELSE IF IsErr(b) THEN b
         ELSE IF ~IsV(a) \/ ~IsV(b) THEN Err("K-Sort-Pair")
         ELSE IF a = n.a /\ b = n.b THEN Pair(n.a, n.b) ELSE Err("T-Pair")
    [] k = "vlam" -> LET b == TyOf(Append(ctx, n.a), n.xs[1]) IN
         IF IsErr(b) THEN b ELSE IF ~IsV(b) THEN Err("K-Sort-VLam")
         ELSE IF b = n.b THEN VFn(n.a, n.b) ELSE Err("T-VLam-Body")
    [] k = "vlet" -> LET v == TyOf(ctx, n.xs[1]) b == TyOf(Append(ctx, n.a), n.xs[2]) IN      \* value-level let: let x = v in w
         IF IsErr(v) THEN v ELSE IF ~IsV(v) THEN Err("K-Sort-VLet-Bindee")
         ELSE IF v # n.a THEN Err("T-VLet-Bindee")
         ELSE IF IsErr(b) THEN b ELSE IF ~IsV(b) THEN Err("K-Sort-VLet-Body")
         ELSE IF b = n.b THEN n.b ELSE Err("T-VLet-Body")
    [] k = "vapp" -> LET f == TyOf(ctx, n.xs[1]) a == TyOf(ctx, n.xs[2]) IN
         IF IsErr(f) THEN f ELSE IF f # VFn(n.a, n.b) THEN Err("T-VApp-Head")
         ELSE IF IsErr(a) THEN a ELSE IF a = n.a THEN n.b ELSE Err("T-VApp-Arg")
    [] k = "ret" -> LET a == TyOf(ctx, n.xs[1]) IN
         IF IsErr(a) THEN a ELSE IF ~IsV(a) THEN Err("K-Sort-Ret")
         ELSE IF a = n.a THEN Ret(n.a) ELSE Err("T-Ret")
    [] k = "lam" -> LET b == TyOf(Append(ctx, n.a), n.xs[1]) IN
         IF ~IsV(n.a) THEN Err("K-Sort-Binder")          \* a binder stands for a value: its annotation is a value type
         ELSE IF IsErr(b) THEN b ELSE IF ~IsC(b) THEN Err("K-Sort-Lam")
         ELSE IF b = n.c THEN Fn(n.a, n.c) ELSE Err("T-Lam-Body")
    [] k = "do" -> LET m == TyOf(ctx, n.xs[1]) b == TyOf(Append(ctx, n.a), n.xs[2]) IN
         IF IsErr(m) THEN m ELSE IF ~IsC(m) THEN Err("K-Sort-Do-Bindee")
         ELSE IF m # Ret(n.a) THEN Err("T-Do-Bindee")
         ELSE IF IsErr(b) THEN b ELSE IF ~IsC(b) THEN Err("K-Sort-Do-Tail")
         ELSE IF b = n.c THEN n.c ELSE Err("T-Do-Tail")
    [] k = "app" -> LET f == TyOf(ctx, n.xs[1]) a == TyOf(ctx, n.xs[2]) IN
         IF IsErr(f) THEN f ELSE IF ~IsC(f) THEN Err("K-Sort-App-Head")
         ELSE IF f # Fn(n.a, n.c) THEN Err("T-App-Head")
         ELSE IF IsErr(a) THEN a ELSE IF ~IsV(a) THEN Err("K-Sort-App-Arg")
         ELSE IF a = n.a THEN n.c ELSE Err("T-App-Arg")
    [] k = "force" -> LET v == TyOf(ctx, n.xs[1]) IN
         IF IsErr(v) THEN v ELSE IF ~IsV(v) THEN Err("K-Sort-Force")
         ELSE IF v = Thk(n.c) THEN n.c ELSE Err("T-Force")
    [] k = "let" -> LET v == TyOf(ctx, n.xs[1]) b == TyOf(Append(ctx, n.a), n.xs[2]) IN
         IF IsErr(v) THEN v ELSE IF ~IsV(v) THEN Err("K-Sort-Let-Bindee")
         ELSE IF v # n.a THEN Err("T-Let-Bindee")
         ELSE IF IsErr(b) THEN b ELSE IF ~IsC(b) THEN Err("K-Sort-Let-Tail")
         ELSE IF b = n.c THEN n.c ELSE Err("T-Let-Tail")
    [] k = "fix" -> LET b == TyOf(Append(ctx, Thk(n.c)), n.xs[1]) IN
         IF IsErr(b) THEN b ELSE IF ~IsC(b) THEN Err("K-Sort-Fix")
         ELSE IF b = n.c THEN n.c ELSE Err("T-Fix-Body")
    [] k = "arith" -> LET a == TyOf(ctx, n.xs[1]) b == TyOf(ctx, n.xs[2]) IN
         IF IsErr(a) THEN a ELSE IF IsErr(b) THEN b
         ELSE IF a = TInt /\ b = TInt THEN Ret(TInt) ELSE Err("T-Arith-Arg")
    [] k = "i2s" -> LET a == TyOf(ctx, n.xs[1]) IN
         IF IsErr(a) THEN a ELSE IF a = TInt THEN Ret(TStr) ELSE Err("T-I2S-Arg")
    [] k = "sapp" -> LET a == TyOf(ctx, n.xs[1]) b == TyOf(ctx, n.xs[2]) IN
         IF IsErr(a) THEN a ELSE IF IsErr(b) THEN b
         ELSE IF a = TStr /\ b = TStr THEN Ret(TStr) ELSE Err("T-SApp-Arg")
    [] k = "exit" -> LET a == TyOf(ctx, n.xs[1]) IN
         IF IsErr(a) THEN a ELSE IF a = TInt THEN OS ELSE Err("T-Exit-Arg")
    [] k = "wl" -> LET a == TyOf(ctx, n.xs[1]) b == TyOf(ctx, n.xs[2]) IN
         IF IsErr(a) THEN a ELSE IF IsErr(b) THEN b
         ELSE IF a = TStr /\ b = Thk(OS) THEN OS ELSE Err("T-WriteLine-Arg")
    [] k = "br" -> LET a == TyOf(ctx, n.xs[1]) b == TyOf(ctx, n.xs[2])
                       x == TyOf(ctx, n.xs[3]) y == TyOf(ctx, n.xs[4]) IN
         IF IsErr(a) THEN a ELSE IF IsErr(b) THEN b ELSE IF IsErr(x) THEN x ELSE IF IsErr(y) THEN y
         ELSE IF a = TInt /\ b = TInt /\ x = Thk(n.c) /\ y = Thk(n.c) THEN n.c ELSE Err("T-Branch-Arg")
    [] k = "matchP" -> LET v == TyOf(ctx, n.xs[1]) IN
         IF IsErr(v) THEN v ELSE IF v.t # "pair" THEN Err("T-MatchP-Scrut")
         ELSE LET b == TyOf(ctx \o <<v.a, v.b>>, n.xs[2]) IN
              IF IsErr(b) THEN b ELSE IF ~IsC(b) THEN Err("K-Sort-Arm")
              ELSE IF b = n.c THEN n.c ELSE Err("T-Arm")
    [] k = "match" -> LET v == TyOf(ctx, n.xs[1]) arms == DataArms(n.d)
                          present == [j \in 1..(Len(n.xs) - 1) |->
                                        IF n.skip = 0 \/ j < n.skip THEN j ELSE j + 1] IN
         IF IsErr(v) THEN v ELSE IF v # Data(n.d) THEN Err("T-Match-Scrut")
         ELSE LET bs == [j \in 1..(Len(n.xs) - 1) |->
                           TyOf(Append(ctx, arms[present[j]].a), n.xs[j + 1])] IN
              IF IsErr(FirstErr(bs)) THEN FirstErr(bs)
              ELSE IF \E j \in 1..Len(bs) : ~IsC(bs[j]) THEN Err("K-Sort-Arm")
              ELSE IF \E j \in 1..Len(bs) : bs[j] # n.c THEN Err("T-Arm")
              ELSE IF n.skip # 0 THEN Err("C-Missing-Arm") ELSE n.c
    [] k = "comatch" -> LET arms == CoArms(n.d)
                            present == [j \in 1..Len(n.xs) |->
                                          IF n.skip = 0 \/ j < n.skip THEN j ELSE j + 1]
                            bs == [j \in 1..Len(n.xs) |-> TyOf(ctx, n.xs[j])] IN
         IF IsErr(FirstErr(bs)) THEN FirstErr(bs)
         ELSE IF \E j \in 1..Len(bs) : bs[j] # arms[present[j]].c THEN Err("T-CoArm")
         ELSE IF n.skip # 0 THEN Err("C-Missing-CoArm") ELSE CoData(n.d)
    [] k = "dtor" -> LET h == TyOf(ctx, n.xs[1]) IN
         IF IsErr(h) THEN h ELSE IF h.t # "codata" THEN Err("T-Dtor-Head")
         ELSE LET i == ArmIndex(CoArms(h.n), "d", n.d) IN
              IF i = 0 THEN Err("T-Dtor-Unknown")
              ELSE IF CoArms(h.n)[i].c = n.c THEN n.c ELSE Err("T-Dtor-Result")

RootTy == IF Root = "os" THEN OS ELSE Ret(TInt)
Verdict(tree) == LET T == TyOf(<< >>, tree) IN
                 IF T = RootTy THEN "accept" ELSE IF IsErr(T) THEN T.why ELSE "T-Root"

----------------------------------------------------------------------------
(* Typing, formulation 2: the derivation machine.                          *)
Emit(tok, obs) == /\ out' = Append(out, tok)
                  /\ todo' = obs \o Tail(todo)
                  /\ UNCHANGED <<phase, ctl, env, stk, io, steps, res>>
Good(tok, obs) == Emit(tok, obs) /\ UNCHANGED faulty
Bad(f, tok, obs) == f \in Faults /\ faulty = "none" /\ faulty' = f /\ Emit(tok, obs)
On(p) == p \in Prods

(* Productions whose conclusion is a VALUE of type ty in context ctx.      *)
GenValue(ty, ctx, G(_, _)) ==
  \/ \E i \in 1..Len(ctx) : ctx[i] = ty /\ G([k |-> "var", i |-> i], << >>)
  \/ ty = TInt /\ \E n \in IntLits : G([k |-> "int", n |-> n], << >>)
  \/ ty = TUnit /\ G([k |-> "unit"], << >>)
  \/ On("str") /\ ty = TStr /\ \E s \in {"a", "b"} : G([k |-> "str", s |-> s], << >>)
  \/ ty.t = "thk" /\ G([k |-> "thunk", c |-> ty.c], <<Ob("c", ty.c, ctx)>>)
  \/ On("data") /\ ty.t = "data" /\ \E i \in 1..Len(DataArms(ty.n)) :
        G([k |-> "ctor", d |-> ty.n, c |-> DataArms(ty.n)[i].c], <<Ob("v", DataArms(ty.n)[i].a, ctx)>>)
  \/ On("pair") /\ ty.t = "pair" /\ G([k |-> "pair", a |-> ty.a, b |-> ty.b], <<Ob("v", ty.a, ctx), Ob("v", ty.b, ctx)>>)
  \/ On("vlet") /\ \E A \in BTys : G([k |-> "vlet", a |-> A, b |-> ty], <<Ob("v", A, ctx), Ob("v", ty, Append(ctx, A))>>)
  \/ On("vfn") /\ ty.t = "vfn" /\ G([k |-> "vlam", a |-> ty.a, b |-> ty.b], <<Ob("v", ty.b, Append(ctx, ty.a))>>)
  \/ On("vfn") /\ ty.t # "vfn" /\ \E A \in {T \in BTys : T.t \in {"int", "unit"}} :
        G([k |-> "vapp", a |-> A, b |-> ty], <<Ob("v", VFn(A, ty), ctx), Ob("v", A, ctx)>>)

(* Productions whose conclusion is a COMPUTATION of type ty.               *)
GenCompu(ty, ctx, G(_, _)) ==
  \/ ty.t = "ret" /\ G([k |-> "ret", a |-> ty.a], <<Ob("v", ty.a, ctx)>>)
  \/ ty.t = "fn" /\ G([k |-> "lam", a |-> ty.a, c |-> ty.c], <<Ob("c", ty.c, Append(ctx, ty.a))>>)
  \/ \E A \in BTys : G([k |-> "do", a |-> A, c |-> ty], <<Ob("c", Ret(A), ctx), Ob("c", ty, Append(ctx, A))>>)
  \/ On("app") /\ \E A \in BTys : G([k |-> "app", a |-> A, c |-> ty], <<Ob("c", Fn(A, ty), ctx), Ob("v", A, ctx)>>)
  \/ G([k |-> "force", c |-> ty], <<Ob("v", Thk(ty), ctx)>>)
  \/ On("let") /\ \E A \in BTys : G([k |-> "let", a |-> A, c |-> ty], <<Ob("v", A, ctx), Ob("c", ty, Append(ctx, A))>>)
  \/ On("arith") /\ ty = Ret(TInt) /\ \E op \in {"add", "sub"} :
        G([k |-> "arith", op |-> op], <<Ob("v", TInt, ctx), Ob("v", TInt, ctx)>>)
  \/ On("div") /\ ty = Ret(TInt) /\ \E op \in {"div", "mod"} :
        G([k |-> "arith", op |-> op], <<Ob("v", TInt, ctx), Ob("v", TInt, ctx)>>)
  \/ On("str") /\ ty = Ret(TStr) /\ G([k |-> "i2s"], <<Ob("v", TInt, ctx)>>)
  \/ On("str") /\ ty = Ret(TStr) /\ G([k |-> "sapp"], <<Ob("v", TStr, ctx), Ob("v", TStr, ctx)>>)
  \/ ty = OS /\ G([k |-> "exit"], <<Ob("v", TInt, ctx)>>)
  \/ On("str") /\ ty = OS /\ G([k |-> "wl"], <<Ob("v", TStr, ctx), Ob("v", Thk(OS), ctx)>>)
  \/ On("br") /\ \E op \in {"eq", "lt"} :
        G([k |-> "br", op |-> op, c |-> ty],
          <<Ob("v", TInt, ctx), Ob("v", TInt, ctx), Ob("v", Thk(ty), ctx), Ob("v", Thk(ty), ctx)>>)
  \/ On("data") /\ \E d \in DataNames :
        Data(d) \in BTys /\
        G([k |-> "match", d |-> d, c |-> ty, skip |-> 0],
          <<Ob("v", Data(d), ctx)>> \o [i \in 1..Len(DataArms(d)) |-> Ob("c", ty, Append(ctx, DataArms(d)[i].a))])
  \/ On("pair") /\ \E P \in {T \in BTys : T.t = "pair"} :
        G([k |-> "matchP", c |-> ty], <<Ob("v", P, ctx), Ob("c", ty, ctx \o <<P.a, P.b>>)>>)
  \/ On("codata") /\ ty.t = "codata" /\
        G([k |-> "comatch", d |-> ty.n, skip |-> 0], [i \in 1..Len(CoArms(ty.n)) |-> Ob("c", CoArms(ty.n)[i].c, ctx)])
  \/ On("codata") /\ \E d \in CoNames : \E i \in 1..Len(CoArms(d)) :
        /\ Thk(CoData(d)) \in BTys
        /\ CoArms(d)[i].c = ty
        /\ G([k |-> "dtor", d |-> CoArms(d)[i].d, c |-> ty], <<Ob("c", CoData(d), ctx)>>)
  \/ On("fix") /\ ty # OS /\ G([k |-> "fix", c |-> ty], <<Ob("c", ty, Append(ctx, Thk(ty)))>>)

(* Single-fault productions.  The verdict of a faulty program is NOT       *)
(* assumed: it is recomputed by TyOf, the fault only steers generation.    *)
FaultTys == {TInt, TUnit, Thk(OS), Ret(TInt), Fn(TInt, Ret(TInt)), Data("B"), Pair(TInt, TInt), TKind,
             Data("B1"), Thk(CoData("S1")), Thk(CoData("S"))}
GenFault(o) ==
  LET ty == o.ty ctx == o.ctx IN
  \* a term of another type (covers: wrong argument / annotation / branch type, elimination at
  \* the wrong type former, value where computation is expected and vice versa)
  \/ \E ty2 \in FaultTys \ {ty} :
       \/ IsV(ty2) /\ GenValue(ty2, ctx, LAMBDA tok, obs : Bad("wrongty", tok, obs))
       \/ IsC(ty2) /\ GenCompu(ty2, ctx, LAMBDA tok, obs : Bad("wrongty", tok, obs))
       \/ ty2 = TKind /\ \E w \in {"Int64", "VType"} : Bad("tyterm", [k |-> "tyterm", w |-> w], << >>)
  \* a function whose binder is annotated with a COMPUTATION type (the binder is otherwise unconstrained: the
  \* function is only defined, never applied, in the programs where this is the one fault)
  \/ o.s = "c" /\ ty.t = "fn" /\ \E C2 \in {OS, Ret(TInt)} :
       Bad("sortann", [k |-> "lam", a |-> C2, c |-> ty.c], <<Ob("c", ty.c, Append(ctx, C2))>>)
  \/ ty.t = "data" /\ Bad("unkctor", [k |-> "ctor", d |-> ty.n, c |-> "U"], <<Ob("v", TUnit, ctx)>>)
  \/ o.s = "c" /\ \E d \in CoNames : Thk(CoData(d)) \in BTys /\
       Bad("unkdtor", [k |-> "dtor", d |-> "zzz", c |-> ty], <<Ob("c", CoData(d), ctx)>>)
  \/ o.s = "c" /\ \E d \in DataNames : Data(d) \in BTys /\ \E sk \in 1..Len(DataArms(d)) :
       Bad("missingarm", [k |-> "match", d |-> d, c |-> ty, skip |-> sk],
           <<Ob("v", Data(d), ctx)>> \o
           [i \in 1..(Len(DataArms(d)) - 1) |->
              Ob("c", ty, Append(ctx, DataArms(d)[IF i < sk THEN i ELSE i + 1].a))])
  \/ ty.t = "codata" /\ \E sk \in 1..Len(CoArms(ty.n)) :
       Bad("missingcoarm", [k |-> "comatch", d |-> ty.n, skip |-> sk],
           [i \in 1..(Len(CoArms(ty.n)) - 1) |-> Ob("c", CoArms(ty.n)[IF i < sk THEN i ELSE i + 1].c, ctx)])

(* Scenario macros: fixed multi-token skeletons with holes, for program shapes far beyond the     *)
(* exhaustive token bound.  A todo entry of sort "lit" is a token segment to be copied verbatim.  *)
Lit(toks) == [s |-> "lit", toks |-> toks]
GI == VFn(TUnit, TInt)
PRV == Pair(GI, TInt)
STEPV == VFn(TInt, VFn(GI, PRV))
V(i) == [k |-> "var", i |-> i]
(* "escape": a pure closure built in one activation of `step` escapes and is applied inside ANOTHER *)
(* activation of the same function (the binder `a` is live twice):                                  *)
(*   let step = fn a => fn p => (fn u => H1, p ()) in                                               *)
(*   match step H2 (fn u => H3) | (f, x) => match step H4 f | (g, seen) => H5                       *)
ScEscape(G(_, _)) ==
  G([k |-> "let", a |-> STEPV, c |-> OS],
    << Lit(<<[k |-> "vlam", a |-> TInt, b |-> VFn(GI, PRV)], [k |-> "vlam", a |-> GI, b |-> PRV],
             [k |-> "pair", a |-> GI, b |-> TInt], [k |-> "vlam", a |-> TUnit, b |-> TInt]>>),
       Ob("v", TInt, <<TInt, GI, TUnit>>),
       Lit(<<[k |-> "vapp", a |-> TUnit, b |-> TInt], V(2), [k |-> "unit"],
             [k |-> "matchP", c |-> OS], [k |-> "vapp", a |-> GI, b |-> PRV],
             [k |-> "vapp", a |-> TInt, b |-> VFn(GI, PRV)], V(1)>>),
       Ob("v", TInt, <<STEPV>>),
       Lit(<<[k |-> "vlam", a |-> TUnit, b |-> TInt]>>),
       Ob("v", TInt, <<STEPV, TUnit>>),
       Lit(<<[k |-> "matchP", c |-> OS], [k |-> "vapp", a |-> GI, b |-> PRV],
             [k |-> "vapp", a |-> TInt, b |-> VFn(GI, PRV)], V(1)>>),
       Ob("v", TInt, <<STEPV, GI, TInt>>),
       Lit(<<V(2)>>),
       Ob("c", OS, <<STEPV, GI, TInt, GI, TInt>>) >>)
(* "escapeT": the same with thunks and `do`:                                                        *)
(*   let f = { fn a => fn p => do r <- ! p; ret ({ ret H1 }, r) } in                                *)
(*   do q <- ! f H2 { ret H3 }; match q | (t, x) => do q2 <- ! f H4 t; match q2 | (g, seen) => H5   *)
TRI == Thk(Ret(TInt))
PRT == Pair(TRI, TInt)
FT == Fn(TInt, Fn(TRI, Ret(PRT)))
ScEscapeT(G(_, _)) ==
  G([k |-> "let", a |-> Thk(FT), c |-> OS],
    << Lit(<<[k |-> "thunk", c |-> FT], [k |-> "lam", a |-> TInt, c |-> Fn(TRI, Ret(PRT))],
             [k |-> "lam", a |-> TRI, c |-> Ret(PRT)], [k |-> "do", a |-> TInt, c |-> Ret(PRT)],
             [k |-> "force", c |-> Ret(TInt)], V(2), [k |-> "ret", a |-> PRT], [k |-> "pair", a |-> TRI, b |-> TInt],
             [k |-> "thunk", c |-> Ret(TInt)], [k |-> "ret", a |-> TInt]>>),
       Ob("v", TInt, <<TInt, TRI, TInt>>),
       Lit(<<V(3), [k |-> "do", a |-> PRT, c |-> OS], [k |-> "app", a |-> TRI, c |-> Ret(PRT)],
             [k |-> "app", a |-> TInt, c |-> Fn(TRI, Ret(PRT))], [k |-> "force", c |-> FT], V(1)>>),
       Ob("v", TInt, <<Thk(FT)>>),
       Lit(<<[k |-> "thunk", c |-> Ret(TInt)], [k |-> "ret", a |-> TInt]>>),
       Ob("v", TInt, <<Thk(FT)>>),
       Lit(<<[k |-> "matchP", c |-> OS], V(2), [k |-> "do", a |-> PRT, c |-> OS], [k |-> "app", a |-> TRI, c |-> Ret(PRT)],
             [k |-> "app", a |-> TInt, c |-> Fn(TRI, Ret(PRT))], [k |-> "force", c |-> FT], V(1)>>),
       Ob("v", TInt, <<Thk(FT), PRT, TRI, TInt>>),
       Lit(<<V(3), [k |-> "matchP", c |-> OS], V(5)>>),
       Ob("c", OS, <<Thk(FT), PRT, TRI, TInt, PRT, TRI, TInt>>) >>)

(* "copat3": a destructor clause with THREE value parameters (`| .go a b c => H1` in copattern spelling), called   *)
(* with three arguments; which argument reaches which parameter is observable through H1:                           *)
(*   let t = { comatch | .go => fn a => fn b => fn c => H1 } in do r <- ! t .go H2 H3 H4; ! exit r                  *)
F1 == Fn(TInt, Ret(TInt))
F2 == Fn(TInt, F1)
F3 == Fn(TInt, F2)
ScCopat3(G(_, _)) ==
  G([k |-> "let", a |-> Thk(CoData("S3")), c |-> OS],
    << Lit(<<[k |-> "thunk", c |-> CoData("S3")], [k |-> "comatch", d |-> "S3", skip |-> 0],
             [k |-> "lam", a |-> TInt, c |-> F2], [k |-> "lam", a |-> TInt, c |-> F1], [k |-> "lam", a |-> TInt, c |-> Ret(TInt)]>>),
       Ob("c", Ret(TInt), <<TInt, TInt, TInt>>),
       Lit(<<[k |-> "do", a |-> TInt, c |-> OS], [k |-> "app", a |-> TInt, c |-> Ret(TInt)], [k |-> "app", a |-> TInt, c |-> F1],
             [k |-> "app", a |-> TInt, c |-> F2], [k |-> "dtor", d |-> "go", c |-> F3], [k |-> "force", c |-> CoData("S3")], V(1)>>),
       Ob("v", TInt, <<Thk(CoData("S3"))>>),
       Ob("v", TInt, <<Thk(CoData("S3"))>>),
       Ob("v", TInt, <<Thk(CoData("S3"))>>),
       Lit(<<[k |-> "exit"], V(2)>>) >>)

(* "arms3": a three-arm match in SYNTHESIS position (the body of an unannotated thunk in lean renderings): branch *)
(* agreement is enforced by joining the arm types, not by an expected type.                                      *)
(*   let f = { match H0 | +N(u) => H1 | +J(p) => H2 | +K(b) => H3 end } in do y <- ! f; ! exit y                 *)
(* (lean renderings leave the let unannotated: the thunk body is synthesised)                                    *)
ScArms3(G(_, _)) ==
  G([k |-> "let", a |-> Thk(Ret(TInt)), c |-> OS],
    << Lit(<<[k |-> "thunk", c |-> Ret(TInt)], [k |-> "match", d |-> "O", c |-> Ret(TInt), skip |-> 0]>>),
       Ob("v", Data("O"), << >>),
       Ob("c", Ret(TInt), <<TUnit>>),
       Ob("c", Ret(TInt), <<Pair(TInt, TInt)>>),
       Ob("c", Ret(TInt), <<Data("B")>>),
       Lit(<<[k |-> "do", a |-> TInt, c |-> OS], [k |-> "force", c |-> Ret(TInt)], V(1), [k |-> "exit"], V(2)>>) >>)

(* "fixrec" / "fixco": a `fix` in ELIMINATED position (directly applied / directly destructed: its consuming stack is   *)
(* not empty when it is entered) that really re-enters itself once, with a different argument / destructor:            *)
(*   do r <- (fix f => fn b => match b | +T(u) => H1 | +F(n) => ! f +T(())) +F(H2); ! exit r                           *)
(*   do r <- (fix o => comatch | .fst => H1 | .snd => fn n => ! o .fst) .snd H2; ! exit r                              *)
(* What is pending at the definition site (the argument +F(..), the destructor .snd) must not be seen again on re-entry. *)
FB == Fn(Data("B"), Ret(TInt))
ScFixRec(G(_, _)) ==
  G([k |-> "do", a |-> TInt, c |-> OS],
    << Lit(<<[k |-> "app", a |-> Data("B"), c |-> Ret(TInt)], [k |-> "fix", c |-> FB], [k |-> "lam", a |-> Data("B"), c |-> Ret(TInt)],
             [k |-> "match", d |-> "B", c |-> Ret(TInt), skip |-> 0], V(2)>>),
       Ob("c", Ret(TInt), <<Thk(FB), Data("B"), TUnit>>),
       Lit(<<[k |-> "app", a |-> Data("B"), c |-> Ret(TInt)], [k |-> "force", c |-> FB], V(1), [k |-> "ctor", d |-> "B", c |-> "T"], [k |-> "unit"],
             [k |-> "ctor", d |-> "B", c |-> "F"]>>),
       Ob("v", TInt, << >>),
       Lit(<<[k |-> "exit"], V(1)>>) >>)
ScFixCo(G(_, _)) ==
  G([k |-> "do", a |-> TInt, c |-> OS],
    << Lit(<<[k |-> "app", a |-> TInt, c |-> Ret(TInt)], [k |-> "dtor", d |-> "snd", c |-> Fn(TInt, Ret(TInt))], [k |-> "fix", c |-> CoData("S")],
             [k |-> "comatch", d |-> "S", skip |-> 0]>>),
       Ob("c", Ret(TInt), <<Thk(CoData("S"))>>),
       Lit(<<[k |-> "lam", a |-> TInt, c |-> Ret(TInt)], [k |-> "dtor", d |-> "fst", c |-> Ret(TInt)], [k |-> "force", c |-> CoData("S")], V(1)>>),
       Ob("v", TInt, << >>),
       Lit(<<[k |-> "exit"], V(1)>>) >>)

ScenarioCfg == \E p \in Prods : p \in {"sc-escape", "sc-escapeT", "sc-copat3", "sc-arms3", "sc-fixrec", "sc-fixco"}
Gen ==
  /\ phase = "gen" /\ todo # << >>
  /\ Len(out) + Len(todo) <= MaxLen
  /\ LET o == Head(todo) IN
     \/ o.s = "lit" /\ out' = out \o o.toks /\ todo' = Tail(todo)
                   /\ UNCHANGED <<phase, faulty, ctl, env, stk, io, steps, res>>
     \/ o.s = "v" /\ GenValue(o.ty, o.ctx, Good)
     \* in a scenario configuration the root IS a scenario; ordinary productions only fill its holes
     \/ o.s = "c" /\ (out # << >> \/ ~ScenarioCfg) /\ GenCompu(o.ty, o.ctx, Good)
     \/ o.s = "c" /\ o.ty = OS /\ o.ctx = << >> /\ out = << >> /\ On("sc-escape") /\ ScEscape(Good)
     \/ o.s = "c" /\ o.ty = OS /\ o.ctx = << >> /\ out = << >> /\ On("sc-escapeT") /\ ScEscapeT(Good)
     \/ o.s = "c" /\ o.ty = OS /\ o.ctx = << >> /\ out = << >> /\ On("sc-copat3") /\ ScCopat3(Good)
     \/ o.s = "c" /\ o.ty = OS /\ o.ctx = << >> /\ out = << >> /\ On("sc-arms3") /\ ScArms3(Good)
     \/ o.s = "c" /\ o.ty = OS /\ o.ctx = << >> /\ out = << >> /\ On("sc-fixrec") /\ ScFixRec(Good)
     \/ o.s = "c" /\ o.ty = OS /\ o.ctx = << >> /\ out = << >> /\ On("sc-fixco") /\ ScFixCo(Good)
     \/ o.s \in {"v", "c"} /\ Faults # {} /\ faulty = "none" /\ (out # << >> \/ ~ScenarioCfg) /\ GenFault(o)

----------------------------------------------------------------------------
(* Reference semantics: environment-passing CK machine.                    *)
(* Semantic values: int, unit, str, ctor, pair, clo (thunk closure).       *)
RECURSIVE EvalV(_, _)
EvalV(v, e) ==
  CASE v.k = "var"   -> e[v.i]
    [] v.k = "int"   -> [k |-> "int", n |-> v.n]
    [] v.k = "unit"  -> [k |-> "unit"]
    [] v.k = "str"   -> [k |-> "str", s |-> v.s]
    [] v.k = "thunk" -> [k |-> "clo", b |-> v.xs[1], e |-> e]
    [] v.k = "ctor"  -> [k |-> "ctor", c |-> v.c, a |-> EvalV(v.xs[1], e)]
    [] v.k = "pair"  -> [k |-> "pair", a |-> EvalV(v.xs[1], e), b |-> EvalV(v.xs[2], e)]
    [] v.k = "vlet"  -> EvalV(v.xs[2], Append(e, EvalV(v.xs[1], e)))
    [] v.k = "vlam"  -> [k |-> "vclo", b |-> v.xs[1], e |-> e]
    \* a pure closure runs in ITS OWN captured environment extended with the argument (static scoping)
    [] v.k = "vapp"  -> LET f == EvalV(v.xs[1], e) IN EvalV(f.b, Append(f.e, EvalV(v.xs[2], e)))

(* Rust `i64` division truncates towards zero; the remainder has the sign  *)
(* of the dividend.  TLA+ \div and % floor, so they are defined here.      *)
Abs(x) == IF x < 0 THEN -x ELSE x
TDiv(a, b) == LET q == Abs(a) \div Abs(b) IN IF (a < 0) = (b < 0) THEN q ELSE -q
TRem(a, b) == a - b * TDiv(a, b)
Arith(op, a, b) ==
  CASE op = "add" -> a + b [] op = "sub" -> a - b
    [] op = "div" -> TDiv(a, b) [] op = "mod" -> TRem(a, b)

RECURSIVE Digits(_)
Digits(n) == IF n < 10 THEN <<n>> ELSE Append(Digits(n \div 10), n % 10)
DigitStr(d) == CASE d = 0 -> "0" [] d = 1 -> "1" [] d = 2 -> "2" [] d = 3 -> "3" [] d = 4 -> "4"
                 [] d = 5 -> "5" [] d = 6 -> "6" [] d = 7 -> "7" [] d = 8 -> "8" [] d = 9 -> "9"
RECURSIVE Cat(_)
Cat(ss) == IF ss = << >> THEN "" ELSE Head(ss) \o Cat(Tail(ss))
IntToStr(n) == (IF n < 0 THEN "-" ELSE "") \o Cat([i \in 1..Len(Digits(Abs(n))) |-> DigitStr(Digits(Abs(n))[i])])

IsK(v, kind) == v.k = kind
TopIs(t) == stk # << >> /\ Head(stk).t = t

(* The stuck states: exactly the panic!/expect/unreachable! sites of       *)
(* eval.rs and impls.rs as far as this fragment can reach them.            *)
Stuck ==
  /\ phase = "run"
  /\ \/ ctl.k = "lam" /\ ~TopIs("arg")
     \/ ctl.k \in {"ret", "retv"} /\ stk # << >> /\ ~TopIs("kont")
     \/ ctl.k = "force" /\ ~IsK(EvalV(ctl.xs[1], env), "clo")
     \/ ctl.k = "arith" /\ (~IsK(EvalV(ctl.xs[1], env), "int") \/ ~IsK(EvalV(ctl.xs[2], env), "int"))
     \/ ctl.k = "i2s" /\ ~IsK(EvalV(ctl.xs[1], env), "int")
     \/ ctl.k = "sapp" /\ (~IsK(EvalV(ctl.xs[1], env), "str") \/ ~IsK(EvalV(ctl.xs[2], env), "str"))
     \/ ctl.k = "exit" /\ ~IsK(EvalV(ctl.xs[1], env), "int")
     \/ ctl.k = "wl" /\ (~IsK(EvalV(ctl.xs[1], env), "str") \/ ~IsK(EvalV(ctl.xs[2], env), "clo"))
     \/ ctl.k = "br" /\ (~IsK(EvalV(ctl.xs[1], env), "int") \/ ~IsK(EvalV(ctl.xs[2], env), "int")
                         \/ ~IsK(EvalV(ctl.xs[3], env), "clo") \/ ~IsK(EvalV(ctl.xs[4], env), "clo"))
     \/ ctl.k = "matchP" /\ ~IsK(EvalV(ctl.xs[1], env), "pair")
     \/ ctl.k = "match" /\ LET v == EvalV(ctl.xs[1], env) IN
           \/ ~IsK(v, "ctor")
           \/ LET i == ArmIndex(DataArms(ctl.d), "c", v.c) IN i = 0 \/ i = ctl.skip   \* no matching arm
     \/ ctl.k = "comatch" /\ (~TopIs("dtor") \/
           LET i == ArmIndex(CoArms(ctl.d), "d", Head(stk).d) IN i = 0 \/ i = ctl.skip)
     \/ ctl.k \in {"var", "int", "unit", "str", "thunk", "ctor", "pair"}         \* a value in control position

Goto(c, e, s) == ctl' = c /\ env' = e /\ stk' = s /\ UNCHANGED <<phase, res, io>>
Finish(r) == phase' = "done" /\ res' = r /\ UNCHANGED <<ctl, env, stk, io>>
RetNode(v) == [k |-> "retv", v |-> v]    \* machine-internal: return an already evaluated value

Start ==
  /\ phase = "gen" /\ todo = << >>
  /\ LET tree == Tree(out) vd == Verdict(tree) IN
     IF vd = "accept"
     THEN /\ phase' = "run" /\ ctl' = tree /\ env' = << >> /\ stk' = << >> /\ res' = [verdict |-> vd]
          /\ UNCHANGED <<out, todo, faulty, io, steps>>
     ELSE /\ phase' = "done" /\ res' = [verdict |-> vd, end |-> "rejected"]
          /\ UNCHANGED <<out, todo, faulty, ctl, env, stk, io, steps>>

Run ==
  /\ phase = "run" /\ ~Stuck
  /\ UNCHANGED <<out, todo, faulty>>
  /\ IF steps >= Fuel THEN Finish([verdict |-> "accept", end |-> "fuel"]) /\ UNCHANGED steps
     ELSE
     /\ steps' = steps + 1
     /\ CASE ctl.k \in {"ret", "retv"} ->
              LET v == IF ctl.k = "ret" THEN EvalV(ctl.xs[1], env) ELSE ctl.v IN
              IF stk = << >> THEN Finish([verdict |-> "accept", end |-> "ret", val |-> IF v.k = "int" THEN v.n ELSE 0])
              ELSE Goto(Head(stk).b, Append(Head(stk).e, v), Tail(stk))
         [] ctl.k = "do" -> Goto(ctl.xs[1], env, <<[t |-> "kont", b |-> ctl.xs[2], e |-> env]>> \o stk)
         [] ctl.k = "force" -> LET v == EvalV(ctl.xs[1], env) IN Goto(v.b, v.e, stk)
         [] ctl.k = "lam" -> Goto(ctl.xs[1], Append(env, Head(stk).v), Tail(stk))
         [] ctl.k = "app" -> Goto(ctl.xs[1], env, <<[t |-> "arg", v |-> EvalV(ctl.xs[2], env)]>> \o stk)
         [] ctl.k = "let" -> Goto(ctl.xs[2], Append(env, EvalV(ctl.xs[1], env)), stk)
         [] ctl.k = "fix" -> Goto(ctl.xs[1], Append(env, [k |-> "clo", b |-> ctl, e |-> env]), stk)
         [] ctl.k = "arith" ->
              LET a == EvalV(ctl.xs[1], env).n b == EvalV(ctl.xs[2], env).n IN
              IF ctl.op \in {"div", "mod"} /\ b = 0
              THEN Finish([verdict |-> "accept", end |-> "trap"])
              ELSE Goto(RetNode([k |-> "int", n |-> Arith(ctl.op, a, b)]), env, stk)
         [] ctl.k = "i2s" -> Goto(RetNode([k |-> "str", s |-> IntToStr(EvalV(ctl.xs[1], env).n)]), env, stk)
         [] ctl.k = "sapp" -> Goto(RetNode([k |-> "str", s |-> EvalV(ctl.xs[1], env).s \o EvalV(ctl.xs[2], env).s]), env, stk)
         [] ctl.k = "exit" -> Finish([verdict |-> "accept", end |-> "exit", code |-> EvalV(ctl.xs[1], env).n])
         [] ctl.k = "wl" ->
              LET k == EvalV(ctl.xs[2], env) IN
              /\ io' = Append(io, EvalV(ctl.xs[1], env).s)
              /\ ctl' = k.b /\ env' = k.e /\ stk' = stk /\ UNCHANGED <<phase, res>>
         [] ctl.k = "br" ->
              LET a == EvalV(ctl.xs[1], env).n b == EvalV(ctl.xs[2], env).n
                  yes == IF ctl.op = "eq" THEN a = b ELSE a < b
                  k == EvalV(ctl.xs[IF yes THEN 3 ELSE 4], env) IN
              Goto(k.b, k.e, stk)
         [] ctl.k = "matchP" -> LET v == EvalV(ctl.xs[1], env) IN Goto(ctl.xs[2], env \o <<v.a, v.b>>, stk)
         [] ctl.k = "match" ->
              LET v == EvalV(ctl.xs[1], env)
                  i == ArmIndex(DataArms(ctl.d), "c", v.c)
                  j == IF ctl.skip = 0 \/ i < ctl.skip THEN i ELSE i - 1 IN
              Goto(ctl.xs[j + 1], Append(env, v.a), stk)
         [] ctl.k = "comatch" ->
              LET i == ArmIndex(CoArms(ctl.d), "d", Head(stk).d)
                  j == IF ctl.skip = 0 \/ i < ctl.skip THEN i ELSE i - 1 IN
              Goto(ctl.xs[j], env, Tail(stk))
         [] ctl.k = "dtor" -> Goto(ctl.xs[1], env, <<[t |-> "dtor", d |-> ctl.d]>> \o stk)

Init ==
  /\ phase = "gen" /\ out = << >> /\ todo = <<Ob("c", RootTy, << >>)>> /\ faulty = "none"
  /\ ctl = [k |-> "none"] /\ env = << >> /\ stk = << >> /\ io = << >> /\ steps = 0
  /\ res = [verdict |-> "none"]

Next == Gen \/ Start \/ Run
Spec == Init /\ [][Next]_vars

----------------------------------------------------------------------------
(* Properties.                                                             *)

(* Both formulations of the typing rules agree: what the derivation        *)
(* machine completes without a fault, type synthesis accepts ...           *)
GenSound == (phase = "done" /\ faulty = "none") => res.verdict = "accept"
(* A single-fault program is NOT assumed ill typed: TLC refutes that (a     *)
(* wrong pair type under a `match` whose arm ignores the mistyped          *)
(* component is derivable), which is why the verdict is always TyOf's.     *)
FaultsAreErrors == (phase = "done" /\ faulty # "none") => res.verdict # "accept"

(* C01 on the model: progress for every accepted program, every prefix of  *)
(* its execution.  Start only enters "run" for accepted programs.          *)
TypeSafety == ~Stuck

(* One line per completed behaviour for the conformance harness.           *)
Report == phase = "done" =>
  PrintT(<<"REPLAY", ToJson([prog |-> out, faulty |-> faulty, res |-> res, io |-> io, steps |-> steps])>>)
=============================================================================
