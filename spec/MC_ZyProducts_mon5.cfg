CONSTANT Family = "mon"
CONSTANT MaxArity = 5
SPECIFICATION Spec
INVARIANTS MonCovers Report
CHECK_DEADLOCK FALSE
