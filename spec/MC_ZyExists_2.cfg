CONSTANT MaxPath = 2
SPECIFICATION Spec
INVARIANTS Inv Report
CHECK_DEADLOCK FALSE
