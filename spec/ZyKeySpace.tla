------------------------------ MODULE ZyKeySpace ------------------------------
(***************************************************************************)
(* Process-unique key spaces from one shared counter (C17, identifiers).   *)
(* Each thread executes KeySpaceId::fresh.  Atomic = TRUE is the code's    *)
(* fetch_update (one read-modify-write step); Atomic = FALSE splits it     *)
(* into a load and a store - the deliberately wrong variant that shows     *)
(* UniqueKeySpaces is not vacuous.                                         *)
(***************************************************************************)
EXTENDS Integers, FiniteSets, TLC
CONSTANTS Threads, PerThread, Atomic
VARIABLES counter, local, issued, done
vars == <<counter, local, issued, done>>
Init == counter = 0 /\ local = [t \in Threads |-> -1] /\ issued = [t \in Threads |-> {}] /\ done = [t \in Threads |-> 0]
FetchUpdate(t) == /\ Atomic /\ done[t] < PerThread
                  /\ counter' = counter + 1
                  /\ issued' = [issued EXCEPT ![t] = @ \cup {counter + 1}]
                  /\ done' = [done EXCEPT ![t] = @ + 1] /\ UNCHANGED local
Load(t)  == /\ ~Atomic /\ done[t] < PerThread /\ local[t] = -1
            /\ local' = [local EXCEPT ![t] = counter] /\ UNCHANGED <<counter, issued, done>>
Store(t) == /\ ~Atomic /\ local[t] # -1
            /\ counter' = local[t] + 1
            /\ issued' = [issued EXCEPT ![t] = @ \cup {local[t] + 1}]
            /\ done' = [done EXCEPT ![t] = @ + 1] /\ local' = [local EXCEPT ![t] = -1]
Next == \E t \in Threads : FetchUpdate(t) \/ Load(t) \/ Store(t)
Spec == Init /\ [][Next]_vars
(* identifiers issued by independent allocators never collide, and no issue is lost *)
UniqueKeySpaces == /\ \A s, t \in Threads : s # t => issued[s] \cap issued[t] = {}
                   /\ \A t \in Threads : Cardinality(issued[t]) = done[t]
NonZero == \A t \in Threads : 0 \notin issued[t]
=============================================================================
