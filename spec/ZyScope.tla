------------------------------- MODULE ZyScope -------------------------------
(***************************************************************************)
(* Name resolution (C07): every variable occurrence refers to its          *)
(* innermost enclosing binder under the language's scoping rules.          *)
(*                                                                         *)
(* Named terms over two names are enumerated exhaustively (prefix tokens,  *)
(* MaxLen bound).  Res is the resolution function - occurrence position -> *)
(* (binder token, slot) or unbound - defined by environment threading that *)
(* mirrors lang/surface/src/scoped/resolver.rs and blocks.rs:              *)
(*   fn / fix          pattern, then body                                  *)
(*   fn (x, y)         components bind left to right (the later wins)      *)
(*   fn (x : T)        the annotation is resolved BEFORE its binder        *)
(*   do / let          bindee in the OUTER environment, binder, then tail  *)
(*   let (x, y) = ..   tuple pattern in a let                              *)
(*   match             every arm starts from the environment of the match  *)
(*   begin..that..end  the block's `that` names (let and param) are        *)
(*                     installed block-wide before anything is resolved,   *)
(*                     shadow outer names, are visible in their own and    *)
(*                     each other's right-hand sides; duplicates are an    *)
(*                     error; a nested block has its own contributions     *)
(*   let x = t that u   (anywhere, vocabulary "blocks") contributes x to    *)
(*                     the NEAREST enclosing begin..end: candidates are    *)
(*                     collected through every term former but not into a  *)
(*                     nested block or an import boundary; x is visible    *)
(*                     block-wide; t is resolved in the BLOCK's environment *)
(*                     (the binding moves there), u stays where it is;     *)
(*                     without an enclosing block it is an error           *)
(*   import boundary   the environment is reset to empty                   *)
(* Model-level theorems: renaming any binder (and the occurrences Res      *)
(* assigns to it) to a fresh name leaves Res unchanged (the rule set is a  *)
(* lexical discipline); nothing inside an import boundary resolves to a    *)
(* binder outside it.                                                      *)
(***************************************************************************)
EXTENDS Integers, Sequences, FiniteSets, TLC, Json
CONSTANTS MaxLen, CheckAlpha, Vocab      \* Vocab: "full" (all lexical formers, compact blocks) | "blocks" (general `that`)

Names == {"a", "b"}
Fresh == "z"
VARIABLES out, todo
vars == <<out, todo>>
Arity(t) == CASE t.k \in {"var", "unit"} -> 0
              [] t.k \in {"fn", "fnp", "fna", "fix", "imp", "blockp", "blk", "pthat"} -> 1
              [] t.k \in {"do", "let", "letp", "pair", "lthat"} -> 2
              [] t.k \in {"match", "block"} -> 3
Init == out = << >> /\ todo = 1
Emit(t) == out' = Append(out, t) /\ todo' = todo - 1 + Arity(t)
GenFull == \/ \E n \in Names : Emit([k |-> "var", n |-> n])
           \/ Emit([k |-> "unit"])
           \/ Emit([k |-> "pair"])
           \/ Emit([k |-> "imp"])
           \/ \E n \in Names : \/ Emit([k |-> "fn", n1 |-> n]) \/ Emit([k |-> "fix", n1 |-> n])
                               \/ Emit([k |-> "do", n1 |-> n]) \/ Emit([k |-> "let", n1 |-> n])
                               \/ Emit([k |-> "blockp", n1 |-> n])
           \/ \E n \in Names, m \in Names :
                \/ Emit([k |-> "fnp", n1 |-> n, n2 |-> m]) \/ Emit([k |-> "fna", n1 |-> n, n2 |-> m])
                \/ Emit([k |-> "letp", n1 |-> n, n2 |-> m])
                \/ Emit([k |-> "match", n1 |-> n, n2 |-> m]) \/ Emit([k |-> "block", n1 |-> n, n2 |-> m])
GenBlocks == \/ \E n \in Names : Emit([k |-> "var", n |-> n])
             \/ Emit([k |-> "unit"])
             \/ Emit([k |-> "imp"])
             \/ Emit([k |-> "blk"])
             \/ \E n \in Names : \/ Emit([k |-> "fn", n1 |-> n]) \/ Emit([k |-> "let", n1 |-> n])
                                 \/ Emit([k |-> "lthat", n1 |-> n]) \/ Emit([k |-> "pthat", n1 |-> n])
Gen == /\ todo > 0 /\ Len(out) + todo <= MaxLen
       /\ IF Vocab = "blocks" THEN GenBlocks ELSE GenFull
Next == Gen
Spec == Init /\ [][Next]_vars

AllNames == Names \cup {Fresh}
Unb == [tok |-> 0, slot |-> 0]
Empty == [n \in AllNames |-> Unb]
Bind(env, n, i, s) == [env EXCEPT ![n] = [tok |-> i, slot |-> s]]
(* extent of the subterm starting at i *)
RECURSIVE EndOf(_, _)
EndOf(toks, i) == LET RECURSIVE Skip(_, _)
                      Skip(j, n) == IF n = 0 THEN j ELSE Skip(EndOf(toks, j), n - 1)
                  IN Skip(i + 1, Arity(toks[i]))

(* the `that` contributions of the block opened at i: every lthat / pthat inside it that is not inside a nested     *)
(* block or an import boundary (BlockCandidateCollector::term descends through every other former, bindees too)      *)
Opaque == {"blk", "block", "blockp", "imp"}
Candidates(toks, i) == {j \in (i + 1)..(EndOf(toks, i) - 1) :
                          /\ toks[j].k \in {"lthat", "pthat"}
                          /\ ~\E k \in (i + 1)..(j - 1) : toks[k].k \in Opaque /\ j < EndOf(toks, k)}
NoBlockEnv == [ok |-> FALSE, env |-> Empty]
(* Res(toks, i, env, benv) = [next |-> index after the subterm at i, m |-> set of [use, tok, slot]]      *)
(* benv: the environment of the nearest enclosing block (where `that` bindees are resolved)            *)
(* the annotation variable of `fna` is the use occurrence numbered -i (it has no token of its own)    *)
RECURSIVE Res(_, _, _, _)
Res(toks, i, env, benv) ==
  LET t == toks[i] IN
  CASE t.k = "var" -> [next |-> i + 1, m |-> {[use |-> i, tok |-> env[t.n].tok, slot |-> env[t.n].slot]}]
    [] t.k = "unit" -> [next |-> i + 1, m |-> {}]
    [] t.k \in {"fn", "fix"} -> Res(toks, i + 1, Bind(env, t.n1, i, 1), benv)
    [] t.k = "fnp" -> Res(toks, i + 1, Bind(Bind(env, t.n1, i, 1), t.n2, i, 2), benv)
    [] t.k = "fna" -> LET r == Res(toks, i + 1, Bind(env, t.n1, i, 1), benv) IN
                      [next |-> r.next, m |-> r.m \cup {[use |-> -i, tok |-> env[t.n2].tok, slot |-> env[t.n2].slot]}]
    [] t.k \in {"do", "let"} -> LET r1 == Res(toks, i + 1, env, benv)
                                    r2 == Res(toks, r1.next, Bind(env, t.n1, i, 1), benv) IN
                                [next |-> r2.next, m |-> r1.m \cup r2.m]
    [] t.k = "letp" -> LET r1 == Res(toks, i + 1, env, benv)
                           r2 == Res(toks, r1.next, Bind(Bind(env, t.n1, i, 1), t.n2, i, 2), benv) IN
                       [next |-> r2.next, m |-> r1.m \cup r2.m]
    [] t.k = "pair" -> LET r1 == Res(toks, i + 1, env, benv) r2 == Res(toks, r1.next, env, benv) IN
                       [next |-> r2.next, m |-> r1.m \cup r2.m]
    [] t.k = "match" -> LET r0 == Res(toks, i + 1, env, benv)
                            r1 == Res(toks, r0.next, Bind(env, t.n1, i, 1), benv)
                            r2 == Res(toks, r1.next, Bind(env, t.n2, i, 2), benv) IN
                        [next |-> r2.next, m |-> r0.m \cup r1.m \cup r2.m]
    [] t.k = "block" -> LET envB == Bind(Bind(env, t.n1, i, 1), t.n2, i, 2)
                            b == [ok |-> TRUE, env |-> envB]
                            r1 == Res(toks, i + 1, envB, b) r2 == Res(toks, r1.next, envB, b) r3 == Res(toks, r2.next, envB, b) IN
                        [next |-> r3.next, m |-> r1.m \cup r2.m \cup r3.m]
    [] t.k = "blockp" -> LET envB == Bind(env, t.n1, i, 1) IN Res(toks, i + 1, envB, [ok |-> TRUE, env |-> envB])
    [] t.k = "blk" -> LET C == Candidates(toks, i)
                          envB == [n \in AllNames |-> IF \E j \in C : toks[j].n1 = n
                                                      THEN [tok |-> CHOOSE j \in C : toks[j].n1 = n, slot |-> 1] ELSE env[n]]
                      IN Res(toks, i + 1, envB, [ok |-> TRUE, env |-> envB])
    [] t.k = "lthat" -> LET r1 == Res(toks, i + 1, benv.env, benv)          \* the bindee moves to the block
                            r2 == Res(toks, r1.next, env, benv) IN           \* the tail stays
                        [next |-> r2.next, m |-> r1.m \cup r2.m]
    [] t.k = "pthat" -> Res(toks, i + 1, env, benv)
    [] t.k = "imp" -> Res(toks, i + 1, Empty, NoBlockEnv)                   \* source boundary: empty environment, no block

ResOf(toks) == Res(toks, 1, Empty, NoBlockEnv).m
Dup(toks) == \/ \E i \in 1..Len(toks) : toks[i].k = "block" /\ toks[i].n1 = toks[i].n2
             \/ \E i \in 1..Len(toks) : toks[i].k = "blk" /\ \E j, k \in Candidates(toks, i) : j # k /\ toks[j].n1 = toks[k].n1
(* a `that` with no block between it and the root / the nearest import boundary *)
NoBlock(toks) == \E j \in 1..Len(toks) : /\ toks[j].k \in {"lthat", "pthat"}
                                          /\ ~\E i \in 1..(j - 1) : toks[i].k = "blk" /\ j \in Candidates(toks, i)

(* nothing inside an import boundary resolves to a binder outside it *)
BoundaryHygiene == todo = 0 =>
  \A i \in 1..Len(out) : out[i].k = "imp" =>
    \A e \in ResOf(out) : (e.use > i /\ e.use < EndOf(out, i)) => (e.tok = 0 \/ (e.tok > i /\ e.tok < EndOf(out, i)))

(* renaming a binder and exactly the occurrences that resolve to it to a fresh name changes nothing *)
Slots(t) == IF t.k \in {"fnp", "letp", "match", "block"} THEN {1, 2}
            ELSE IF t.k \in {"fn", "fna", "fix", "do", "let", "blockp", "lthat", "pthat"} THEN {1} ELSE {}
RenameTok(t, i, b, s, R) ==
  IF i = b /\ s = 1 /\ "n1" \in DOMAIN t THEN [t EXCEPT !.n1 = Fresh]
  ELSE IF i = b /\ s = 2 /\ "n2" \in DOMAIN t /\ t.k # "fna" THEN [t EXCEPT !.n2 = Fresh]
  ELSE t
Renamed(toks, b, s) ==
  LET R == ResOf(toks)
      uses == {e.use : e \in {x \in R : x.tok = b /\ x.slot = s}} IN
  [i \in 1..Len(toks) |->
     LET t1 == RenameTok(toks[i], i, b, s, R) IN
     IF toks[i].k = "var" /\ i \in uses THEN [t1 EXCEPT !.n = Fresh]
     ELSE IF toks[i].k = "fna" /\ (-i) \in uses THEN [t1 EXCEPT !.n2 = Fresh]
     ELSE t1]
AlphaInvariance == (CheckAlpha /\ todo = 0 /\ ~Dup(out) /\ ~NoBlock(out)) =>
  \A b \in 1..Len(out) : \A s \in Slots(out[b]) :
     (* when both slots of a token carry the same name the second shadows the first; renaming the shadowed one is still harmless *)
     ResOf(Renamed(out, b, s)) = ResOf(out)

Report == todo = 0 => PrintT(<<"REPLAY", ToJson([prog |-> out, dup |-> Dup(out), noblock |-> NoBlock(out), res |-> ResOf(out)])>>)
=============================================================================
