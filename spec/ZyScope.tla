------------------------------- MODULE ZyScope -------------------------------
(***************************************************************************)
(* Name resolution (C07): every variable occurrence refers to its          *)
(* innermost enclosing binder under the language's scoping rules.          *)
(*                                                                         *)
(* Named terms over two names are enumerated exhaustively (prefix tokens,  *)
(* MaxLen bound).  Res is the resolution function - occurrence position -> *)
(* (binder token, slot) or unbound - defined by environment threading that *)
(* mirrors lang/surface/src/scoped/resolver.rs and blocks.rs:              *)
(*   fn / fix          pattern, then body                                  *)
(*   fn (x, y)         components bind left to right (the later wins)      *)
(*   fn (x : T)        the annotation is resolved BEFORE its binder        *)
(*   do / let          bindee in the OUTER environment, binder, then tail  *)
(*   let (x, y) = ..   tuple pattern in a let                              *)
(*   match             every arm starts from the environment of the match  *)
(*   begin..that..end  the block's `that` names (let and param) are        *)
(*                     installed block-wide before anything is resolved,   *)
(*                     shadow outer names, are visible in their own and    *)
(*                     each other's right-hand sides; duplicates are an    *)
(*                     error; a nested block has its own contributions     *)
(*   import boundary   the environment is reset to empty                   *)
(* Model-level theorems: renaming any binder (and the occurrences Res      *)
(* assigns to it) to a fresh name leaves Res unchanged (the rule set is a  *)
(* lexical discipline); nothing inside an import boundary resolves to a    *)
(* binder outside it.                                                      *)
(***************************************************************************)
EXTENDS Integers, Sequences, FiniteSets, TLC, Json
CONSTANTS MaxLen, CheckAlpha

Names == {"a", "b"}
Fresh == "z"
VARIABLES out, todo
vars == <<out, todo>>
Arity(t) == CASE t.k \in {"var", "unit"} -> 0
              [] t.k \in {"fn", "fnp", "fna", "fix", "imp", "blockp"} -> 1
              [] t.k \in {"do", "let", "letp", "pair"} -> 2
              [] t.k \in {"match", "block"} -> 3
Init == out = << >> /\ todo = 1
Emit(t) == out' = Append(out, t) /\ todo' = todo - 1 + Arity(t)
Gen == /\ todo > 0 /\ Len(out) + todo <= MaxLen
       /\ \/ \E n \in Names : Emit([k |-> "var", n |-> n])
          \/ Emit([k |-> "unit"])
          \/ Emit([k |-> "pair"])
          \/ Emit([k |-> "imp"])
          \/ \E n \in Names : \/ Emit([k |-> "fn", n1 |-> n]) \/ Emit([k |-> "fix", n1 |-> n])
                              \/ Emit([k |-> "do", n1 |-> n]) \/ Emit([k |-> "let", n1 |-> n])
                              \/ Emit([k |-> "blockp", n1 |-> n])
          \/ \E n \in Names, m \in Names :
               \/ Emit([k |-> "fnp", n1 |-> n, n2 |-> m]) \/ Emit([k |-> "fna", n1 |-> n, n2 |-> m])
               \/ Emit([k |-> "letp", n1 |-> n, n2 |-> m])
               \/ Emit([k |-> "match", n1 |-> n, n2 |-> m]) \/ Emit([k |-> "block", n1 |-> n, n2 |-> m])
Next == Gen
Spec == Init /\ [][Next]_vars

AllNames == Names \cup {Fresh}
Unb == [tok |-> 0, slot |-> 0]
Empty == [n \in AllNames |-> Unb]
Bind(env, n, i, s) == [env EXCEPT ![n] = [tok |-> i, slot |-> s]]
(* Res(toks, i, env) = [next |-> index after the subterm at i, m |-> set of [use, tok, slot]]          *)
(* the annotation variable of `fna` is the use occurrence numbered -i (it has no token of its own)    *)
RECURSIVE Res(_, _, _)
Res(toks, i, env) ==
  LET t == toks[i] IN
  CASE t.k = "var" -> [next |-> i + 1, m |-> {[use |-> i, tok |-> env[t.n].tok, slot |-> env[t.n].slot]}]
    [] t.k = "unit" -> [next |-> i + 1, m |-> {}]
    [] t.k \in {"fn", "fix"} -> Res(toks, i + 1, Bind(env, t.n1, i, 1))
    [] t.k = "fnp" -> Res(toks, i + 1, Bind(Bind(env, t.n1, i, 1), t.n2, i, 2))
    [] t.k = "fna" -> LET r == Res(toks, i + 1, Bind(env, t.n1, i, 1)) IN
                      [next |-> r.next, m |-> r.m \cup {[use |-> -i, tok |-> env[t.n2].tok, slot |-> env[t.n2].slot]}]
    [] t.k \in {"do", "let"} -> LET r1 == Res(toks, i + 1, env)
                                    r2 == Res(toks, r1.next, Bind(env, t.n1, i, 1)) IN
                                [next |-> r2.next, m |-> r1.m \cup r2.m]
    [] t.k = "letp" -> LET r1 == Res(toks, i + 1, env)
                           r2 == Res(toks, r1.next, Bind(Bind(env, t.n1, i, 1), t.n2, i, 2)) IN
                       [next |-> r2.next, m |-> r1.m \cup r2.m]
    [] t.k = "pair" -> LET r1 == Res(toks, i + 1, env) r2 == Res(toks, r1.next, env) IN
                       [next |-> r2.next, m |-> r1.m \cup r2.m]
    [] t.k = "match" -> LET r0 == Res(toks, i + 1, env)
                            r1 == Res(toks, r0.next, Bind(env, t.n1, i, 1))
                            r2 == Res(toks, r1.next, Bind(env, t.n2, i, 2)) IN
                        [next |-> r2.next, m |-> r0.m \cup r1.m \cup r2.m]
    [] t.k = "block" -> LET envB == Bind(Bind(env, t.n1, i, 1), t.n2, i, 2)
                            r1 == Res(toks, i + 1, envB) r2 == Res(toks, r1.next, envB) r3 == Res(toks, r2.next, envB) IN
                        [next |-> r3.next, m |-> r1.m \cup r2.m \cup r3.m]
    [] t.k = "blockp" -> Res(toks, i + 1, Bind(env, t.n1, i, 1))        \* begin param n that body end
    [] t.k = "imp" -> Res(toks, i + 1, Empty)                           \* source boundary: empty environment

ResOf(toks) == Res(toks, 1, Empty).m
Dup(toks) == \E i \in 1..Len(toks) : toks[i].k = "block" /\ toks[i].n1 = toks[i].n2

(* extent of the subterm starting at i *)
RECURSIVE EndOf(_, _)
EndOf(toks, i) == LET RECURSIVE Skip(_, _)
                      Skip(j, n) == IF n = 0 THEN j ELSE Skip(EndOf(toks, j), n - 1)
                  IN Skip(i + 1, Arity(toks[i]))

(* nothing inside an import boundary resolves to a binder outside it *)
BoundaryHygiene == todo = 0 =>
  \A i \in 1..Len(out) : out[i].k = "imp" =>
    \A e \in ResOf(out) : (e.use > i /\ e.use < EndOf(out, i)) => (e.tok = 0 \/ (e.tok > i /\ e.tok < EndOf(out, i)))

(* renaming a binder and exactly the occurrences that resolve to it to a fresh name changes nothing *)
Slots(t) == IF t.k \in {"fnp", "letp", "match", "block"} THEN {1, 2}
            ELSE IF t.k \in {"fn", "fna", "fix", "do", "let", "blockp"} THEN {1} ELSE {}
RenameTok(t, i, b, s, R) ==
  IF i = b /\ s = 1 /\ "n1" \in DOMAIN t THEN [t EXCEPT !.n1 = Fresh]
  ELSE IF i = b /\ s = 2 /\ "n2" \in DOMAIN t /\ t.k # "fna" THEN [t EXCEPT !.n2 = Fresh]
  ELSE t
Renamed(toks, b, s) ==
  LET R == ResOf(toks)
      uses == {e.use : e \in {x \in R : x.tok = b /\ x.slot = s}} IN
  [i \in 1..Len(toks) |->
     LET t1 == RenameTok(toks[i], i, b, s, R) IN
     IF toks[i].k = "var" /\ i \in uses THEN [t1 EXCEPT !.n = Fresh]
     ELSE IF toks[i].k = "fna" /\ (-i) \in uses THEN [t1 EXCEPT !.n2 = Fresh]
     ELSE t1]
AlphaInvariance == (CheckAlpha /\ todo = 0 /\ ~Dup(out)) =>
  \A b \in 1..Len(out) : \A s \in Slots(out[b]) :
     (* when both slots of a token carry the same name the second shadows the first; renaming the shadowed one is still harmless *)
     ResOf(Renamed(out, b, s)) = ResOf(out)

Report == todo = 0 => PrintT(<<"REPLAY", ToJson([prog |-> out, dup |-> Dup(out), res |-> ResOf(out)])>>)
=============================================================================
