\* the design the code is bound to: stray closer reaches the grammar, EOF inside a comment is an error
SPECIFICATION Spec
CONSTANTS
  MaxLen = 5
  StrayClose = "emit"
  AtEof = "error"
INVARIANTS NoSilentTruncation EmittedIsOutside DepthSane Report
CHECK_DEADLOCK FALSE
