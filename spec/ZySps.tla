-------------------------------- MODULE ZySps --------------------------------
(***************************************************************************)
(* The first-order stack-passing intermediate language SPS-low (C18, C19). *)
(*                                                                         *)
(* Programs are the REAL SpsLowProgram / AssemblyProgram arenas exported   *)
(* by the conformance harness (one JSON record per program in the ndjson   *)
(* file named by the environment variable PROG).                           *)
(*                                                                         *)
(* Part 1 - well-formedness, written from the property and from            *)
(* docs/logs/paper-aligned-stackir.md, NOT from the repository's           *)
(* validators:                                                             *)
(*   LowWF : root closed; every block closed except for its own label;     *)
(*           block labels pairwise distinct; a stack `let` occurs exactly  *)
(*           as the guard of a coproduct match (branch join); every        *)
(*           computation node has one lexical owner;                       *)
(*   AsmWF : every jump / branch target is a defined program, every symbol *)
(*           an atom mentions is defined, program symbols point at defined *)
(*           programs, product layouts have arity >= elements > 0 and      *)
(*           one field class per physical word, the tags of one branch     *)
(*           table are pairwise distinct, `next` links are defined.        *)
(* Part 2 - reference semantics: one action per computation former         *)
(*   Jump, LetValue, ProductMatch, LetStack, LetArg, CoprodMatch (by       *)
(*   constructor INDEX), CoCase (by destructor INDEX), OpenClosure,        *)
(*   OpenContinuation, ExternCall (returning / control modes).  A block    *)
(*   has no free variable but its own label, so the value environment is   *)
(*   reset at every jump.  The run of every program is reported as a       *)
(*   RESULT record; the harness compares it with the interpreter's         *)
(*   observation of the source program.                                    *)
(***************************************************************************)
EXTENDS Integers, Sequences, TLC, FiniteSets, Json, SequencesExt, IOUtils

Progs == ndJsonDeserialize(IOEnv.PROG)

VARIABLES pi, ctl, venv, stk, out, res, steps
vars == <<pi, ctl, venv, stk, out, res, steps>>

P == Progs[pi].low
A == Progs[pi].asm
C(id) == P.compus[id]
V(id) == P.values[id]
S(id) == P.stacks[id]
VP(id) == P.vpats[id]
RangeOf(s) == {s[i] : i \in 1..Len(s)}

----------------------------------------------------------------------------
(* Part 1: well-formedness.                                                *)
RECURSIVE PV(_)
PV(p) == LET n == VP(p) IN
  CASE n.k = "var" -> {n.d} [] n.k = "ctor" -> PV(n.p)
    [] n.k \in {"alias", "vcons"} -> UNION {PV(q) : q \in RangeOf(n.ps)} [] OTHER -> {}
RECURSIVE FVv(_), FVs(_), FVc(_)
FVv(v) == LET n == V(v) IN
  CASE n.k = "var" -> {n.d}
    [] n.k = "block" -> FVc(n.body) \ {n.label}
    [] n.k = "clo" -> FVv(n.env) \cup FVv(n.code)
    [] n.k = "ctor" -> FVv(n.v)
    [] n.k \in {"vcons", "complex"} -> UNION {FVv(x) : x \in RangeOf(n.vs)}
    [] OTHER -> {}
FVs(s) == LET n == S(s) IN
  CASE n.k = "arg" -> FVv(n.v) \cup FVs(n.s) [] n.k = "tag" -> FVs(n.s)
    [] n.k = "kont" -> FVv(n.code) \cup FVs(n.s) [] OTHER -> {}
FVc(c) == LET n == C(c) IN
  CASE n.k = "jump" -> FVv(n.v) \cup FVs(n.s)
    [] n.k \in {"letv", "pmatch"} -> FVv(n.v) \cup (FVc(n.c) \ PV(n.p))
    [] n.k = "lets" -> FVs(n.s) \cup FVc(n.c)
    [] n.k = "leta" -> FVs(n.s) \cup (FVc(n.c) \ PV(n.p))
    [] n.k = "cmatch" -> FVv(n.v) \cup UNION {FVc(a.c) \ PV(a.p) : a \in RangeOf(n.arms)}
    [] n.k = "cocase" -> FVs(n.s) \cup UNION {FVc(a.c) : a \in RangeOf(n.arms)}
    [] n.k = "openclo" -> FVv(n.v) \cup (FVc(n.c) \ (PV(n.pe) \cup PV(n.pc)))
    [] n.k = "openkont" -> FVs(n.s) \cup (FVc(n.c) \ PV(n.pc))
    [] n.k \in {"extern", "hole"} -> FVs(n.s)

Blocks == {v \in DOMAIN P.values : V(v).k = "block"}
RootClosed == FVc(P.root) = {}
BlocksClosed == \A b \in Blocks : FVv(b) = {}
LabelsUnique == \A b1, b2 \in Blocks : V(b1).label = V(b2).label => b1 = b2
BranchJoin == /\ \A c \in DOMAIN P.compus : C(c).k = "lets" => C(C(c).c).k = "cmatch"
              /\ \A c \in DOMAIN P.compus : C(c).k = "cmatch" => \E g \in DOMAIN P.compus : C(g).k = "lets" /\ C(g).c = c
ChildrenC(c) == LET n == C(c) IN
  CASE n.k \in {"letv", "pmatch", "lets", "leta", "openclo", "openkont"} -> {n.c}
    [] n.k \in {"cmatch", "cocase"} -> {a.c : a \in RangeOf(n.arms)} [] OTHER -> {}
AllChildren == UNION {ChildrenC(p) : p \in DOMAIN P.compus} \cup {V(b).body : b \in Blocks}
(* one owner: the child lists of distinct parents are disjoint and no child is listed twice *)
OwnerCount == LET parents == [c \in DOMAIN P.compus |-> ChildrenC(c)] IN
  /\ \A p1, p2 \in DOMAIN P.compus : p1 # p2 => ChildrenC(p1) \cap ChildrenC(p2) = {}
  /\ \A b1, b2 \in Blocks : b1 # b2 => V(b1).body # V(b2).body
  /\ \A b \in Blocks : \A p \in DOMAIN P.compus : V(b).body \notin ChildrenC(p)
  /\ P.root \notin AllChildren
NoHoles == \A c \in DOMAIN P.compus : C(c).k # "hole"

AP(id) == A.progs[id]
Defined(t) == t \in DOMAIN A.progs
AsmTargets == \A p \in DOMAIN A.progs :
  LET n == AP(p) IN
  CASE n.k = "jump" -> Defined(n.t)
    [] n.k = "popbranch" -> /\ \A i \in 1..Len(n.arms) : Defined(n.arms[i].t)
                            /\ \A i, j \in 1..Len(n.arms) : i # j => n.arms[i].idx # n.arms[j].idx
    [] n.k = "instr" -> Defined(n.next)
    [] OTHER -> TRUE
AsmSymbols ==
  /\ \A p \in DOMAIN A.progs : (AP(p).k = "instr" /\ AP(p).ins.i = "pusharg" /\ AP(p).ins.atom.k = "sym")
                                 => AP(p).ins.atom.s \in DOMAIN A.syms
  /\ \A s \in DOMAIN A.syms : A.syms[s].k = "prog" => Defined(A.syms[s].p)
  /\ Defined(A.root)
AsmLayouts == \A p \in DOMAIN A.progs :
  (AP(p).k = "instr" /\ AP(p).ins.i \in {"pack", "unpack"}) =>
     LET l == AP(p).ins.layout IN l.elements > 0 /\ l.arity >= l.elements /\ l.fields = l.arity

(* SysV AMD64: rsp % 16 = 8 on entry and = 0 immediately before every call.  The emitter keeps a record of the   *)
(* parity and pads calls; `amd64_entry` is the branch-free code after `entry:` of the emitted text reduced to     *)
(* parity flips and calls: every call must be reached after an ODD number of flips.                               *)
EntryOps == IF "amd64_entry" \in DOMAIN Progs[pi] THEN Progs[pi].amd64_entry ELSE << >>
EntryCallsAligned == \A i \in DOMAIN EntryOps : EntryOps[i] = "call" =>
                       Cardinality({j \in 1..(i - 1) : EntryOps[j] = "flip"}) % 2 = 1

WFReport == (steps = 0) =>
  PrintT(<<"REPLAY", ToJson([k |-> "wf", id |-> Progs[pi].id, RootClosed |-> RootClosed, BlocksClosed |-> BlocksClosed, LabelsUnique |-> LabelsUnique,
             BranchJoin |-> BranchJoin, OwnerCount |-> OwnerCount, NoHoles |-> NoHoles,
             AsmTargets |-> AsmTargets, AsmSymbols |-> AsmSymbols, AsmLayouts |-> AsmLayouts,
             EntryCallsAligned |-> EntryCallsAligned])>>)

----------------------------------------------------------------------------
(* Part 2: reference semantics.                                            *)
Ext(env, d, v) == [x \in (DOMAIN env) \cup {d} |-> IF x = d THEN v ELSE env[x]]
Fields(v) == IF v.k = "prod" THEN v.fs ELSE <<v>>

RECURSIVE EvalV(_, _)
EvalV(id, env) ==
  LET n == V(id) IN
  CASE n.k = "var" -> env[n.d]
    [] n.k = "lit" -> [k |-> "lit", v |-> n.lit]
    [] n.k = "triv" -> [k |-> "triv"]
    [] n.k = "ctor" -> [k |-> "ctor", idx |-> n.idx, a |-> EvalV(n.v, env)]
    [] n.k = "block" -> [k |-> "block", label |-> n.label, body |-> n.body]
    [] n.k = "clo" -> [k |-> "clo", env |-> EvalV(n.env, env), code |-> EvalV(n.code, env)]
    [] n.k = "vcons" ->
         LET m == Len(n.vs)
             vs == [i \in 1..m |-> EvalV(n.vs[i], env)]
         IN [k |-> "prod", fs |-> IF m < n.arity THEN SubSeq(vs, 1, m - 1) \o Fields(vs[m]) ELSE vs]

RECURSIVE EvalS(_, _, _)
EvalS(id, env, amb) ==
  LET n == S(id) IN
  CASE n.k = "bullet" -> amb
    [] n.k = "arg" -> <<[t |-> "arg", v |-> EvalV(n.v, env)]>> \o EvalS(n.s, env, amb)
    [] n.k = "tag" -> <<[t |-> "tag", idx |-> n.idx]>> \o EvalS(n.s, env, amb)
    [] n.k = "kont" -> <<[t |-> "kont", code |-> EvalV(n.code, env), rest |-> EvalS(n.s, env, amb)]>>

RECURSIVE Bind(_, _, _), BindAll(_, _, _)
Bind(pid, v, env) ==
  LET p == VP(pid) IN
  CASE p.k = "hole" -> [ok |-> TRUE, env |-> env]
    [] p.k = "var" -> [ok |-> TRUE, env |-> Ext(env, p.d, v)]
    [] p.k = "triv" -> [ok |-> v.k = "triv", env |-> env]
    [] p.k = "ctor" -> IF v.k = "ctor" /\ v.idx = p.idx THEN Bind(p.p, v.a, env) ELSE [ok |-> FALSE, env |-> env]
    [] p.k = "alias" -> BindAll(p.ps, [i \in 1..Len(p.ps) |-> v], env)
    [] p.k = "vcons" ->
         IF v.k # "prod" THEN [ok |-> FALSE, env |-> env]
         ELSE LET m == Len(p.ps) f == v.fs
                  vals == IF m < p.arity /\ Len(f) >= m
                          THEN SubSeq(f, 1, m - 1) \o <<[k |-> "prod", fs |-> SubSeq(f, m, Len(f))]>> ELSE f
              IN IF Len(vals) # m THEN [ok |-> FALSE, env |-> env] ELSE BindAll(p.ps, vals, env)
BindAll(ps, vs, env) ==
  IF ps = << >> THEN [ok |-> TRUE, env |-> env]
  ELSE LET r == Bind(Head(ps), Head(vs), env) IN IF r.ok THEN BindAll(Tail(ps), Tail(vs), r.env) ELSE r

IntOf(v) == v.v.n
StrOf(v) == v.v.s
LitInt(n) == [k |-> "lit", v |-> [l |-> "int", n |-> n]]
LitStr(s) == [k |-> "lit", v |-> [l |-> "str", s |-> s]]
Abs(x) == IF x < 0 THEN -x ELSE x
TDiv(a, b) == LET q == Abs(a) \div Abs(b) IN IF (a < 0) = (b < 0) THEN q ELSE -q
TRem(a, b) == a - b * TDiv(a, b)
RECURSIVE Digits(_)
Digits(n) == IF n < 10 THEN <<n>> ELSE Append(Digits(n \div 10), n % 10)
DigitStr(d) == CASE d = 0 -> "0" [] d = 1 -> "1" [] d = 2 -> "2" [] d = 3 -> "3" [] d = 4 -> "4"
                 [] d = 5 -> "5" [] d = 6 -> "6" [] d = 7 -> "7" [] d = 8 -> "8" [] d = 9 -> "9"
RECURSIVE Cat(_)
Cat(ss) == IF ss = << >> THEN "" ELSE Head(ss) \o Cat(Tail(ss))
IntToStr(n) == (IF n < 0 THEN "-" ELSE "") \o Cat([i \in 1..Len(Digits(Abs(n))) |-> DigitStr(Digits(Abs(n))[i])])

Init == /\ pi \in 1..Len(Progs)
        /\ ctl = Progs[pi].low.root /\ venv = << >> /\ stk = << >> /\ out = << >> /\ res = [end |-> "none"] /\ steps = 0

Enter(code, stack) == ctl' = code.body /\ venv' = (code.label :> code) /\ stk' = stack
Stuck(why) == res' = [end |-> "stuck", why |-> why] /\ UNCHANGED <<ctl, venv, stk, out>>
Goto(c, e, s) == ctl' = c /\ venv' = e /\ stk' = s /\ UNCHANGED <<out, res>>

Step ==
  /\ res.end = "none" /\ Progs[pi].interp.end # "skip"
  /\ UNCHANGED pi
  /\ steps' = steps + 1
  /\ IF steps >= Progs[pi].fuel THEN res' = [end |-> "fuel"] /\ UNCHANGED <<ctl, venv, stk, out>>
     ELSE
     LET n == C(ctl) IN
     CASE n.k = "jump" ->
            LET b == EvalV(n.v, venv) IN
            IF b.k # "block" THEN Stuck("jump to a non-block")
            ELSE Enter(b, EvalS(n.s, venv, stk)) /\ UNCHANGED <<out, res>>
       [] n.k \in {"letv", "pmatch"} ->
            LET r == Bind(n.p, EvalV(n.v, venv), venv) IN
            IF ~r.ok THEN Stuck("irrefutable value pattern failed") ELSE Goto(n.c, r.env, stk)
       [] n.k = "lets" -> Goto(n.c, venv, EvalS(n.s, venv, stk))
       [] n.k = "leta" ->
            LET s == EvalS(n.s, venv, stk) IN
            IF s = << >> \/ Head(s).t # "arg" THEN Stuck("no argument on the stack")
            ELSE LET r == Bind(n.p, Head(s).v, venv) IN
                 IF ~r.ok THEN Stuck("argument pattern failed") ELSE Goto(n.c, r.env, Tail(s))
       [] n.k = "cmatch" ->
            LET v == EvalV(n.v, venv)
                hits == SelectSeq(n.arms, LAMBDA a : Bind(a.p, v, venv).ok) IN
            IF hits = << >> THEN Stuck("no matching arm") ELSE Goto(hits[1].c, Bind(hits[1].p, v, venv).env, stk)
       [] n.k = "cocase" ->
            LET s == EvalS(n.s, venv, stk) IN
            IF s = << >> \/ Head(s).t # "tag" THEN Stuck("no destructor tag on the stack")
            ELSE LET hits == SelectSeq(n.arms, LAMBDA a : a.idx = Head(s).idx) IN
                 IF hits = << >> THEN Stuck("no arm for the destructor") ELSE Goto(hits[1].c, venv, Tail(s))
       [] n.k = "openclo" ->
            LET v == EvalV(n.v, venv) IN
            IF v.k # "clo" THEN Stuck("open of a non-closure")
            ELSE LET r1 == Bind(n.pe, v.env, venv) r2 == Bind(n.pc, v.code, r1.env) IN
                 IF ~(r1.ok /\ r2.ok) THEN Stuck("closure package pattern failed") ELSE Goto(n.c, r2.env, stk)
       [] n.k = "openkont" ->
            LET s == EvalS(n.s, venv, stk) IN
            IF s = << >> \/ Head(s).t # "kont" THEN Stuck("return to a non-continuation")
            ELSE LET r == Bind(n.pc, Head(s).code, venv) IN
                 IF ~r.ok THEN Stuck("continuation pattern failed") ELSE Goto(n.c, r.env, Head(s).rest)
       [] n.k = "extern" ->
            LET s == EvalS(n.s, venv, stk)
                a(i) == s[i].v
                rest == SubSeq(s, n.arity + 1, Len(s))
                Return(v) == IF rest = << >> \/ Head(rest).t # "kont" THEN Stuck("extern returns to a non-continuation")
                             ELSE Enter(Head(rest).code, <<[t |-> "arg", v |-> v]>> \o Head(rest).rest) /\ UNCHANGED <<out, res>>
                Force(c) == IF c.k # "clo" THEN Stuck("extern forces a non-closure")
                            ELSE Enter(c.code, <<[t |-> "arg", v |-> c.env]>> \o rest) /\ UNCHANGED <<out, res>>
                Finish(r) == res' = r /\ UNCHANGED <<ctl, venv, stk, out>>
            IN IF Len(s) < n.arity \/ \E i \in 1..n.arity : s[i].t # "arg" THEN Stuck("extern without its arguments")
               ELSE
               CASE n.f = "int64_add" -> Return(LitInt(IntOf(a(1)) + IntOf(a(2))))
                 [] n.f = "int64_sub" -> Return(LitInt(IntOf(a(1)) - IntOf(a(2))))
                 [] n.f = "int64_mul" -> Return(LitInt(IntOf(a(1)) * IntOf(a(2))))
                 [] n.f = "int64_div" -> IF IntOf(a(2)) = 0 THEN Finish([end |-> "trap"]) ELSE Return(LitInt(TDiv(IntOf(a(1)), IntOf(a(2)))))
                 [] n.f = "int64_mod" -> IF IntOf(a(2)) = 0 THEN Finish([end |-> "trap"]) ELSE Return(LitInt(TRem(IntOf(a(1)), IntOf(a(2)))))
                 [] n.f = "int64_lt_branch" -> Force(IF IntOf(a(1)) < IntOf(a(2)) THEN a(3) ELSE a(4))
                 [] n.f = "int64_gt_branch" -> Force(IF IntOf(a(1)) > IntOf(a(2)) THEN a(3) ELSE a(4))
                 [] n.f = "int64_eq_branch" -> Force(IF IntOf(a(1)) = IntOf(a(2)) THEN a(3) ELSE a(4))
                 [] n.f = "int64_to_string" -> Return(LitStr(IntToStr(IntOf(a(1)))))
                 [] n.f = "str_append" -> Return(LitStr(StrOf(a(1)) \o StrOf(a(2))))
                 [] n.f = "write_line" -> IF a(2).k # "clo" THEN Stuck("write_line continuation is not a closure")
                                          ELSE /\ out' = Append(out, StrOf(a(1)))
                                               /\ Enter(a(2).code, <<[t |-> "arg", v |-> a(2).env]>> \o rest) /\ UNCHANGED res
                 [] n.f = "exit" -> Finish([end |-> "exit", code |-> IntOf(a(1))])
                 [] OTHER -> Finish([end |-> "unsupported-extern", f |-> n.f])

Next == Step
Spec == Init /\ [][Next]_vars

RunReport == (res.end # "none") =>
  PrintT(<<"REPLAY", ToJson([k |-> "result", id |-> Progs[pi].id, res |-> res, out |-> out, steps |-> steps])>>)
=============================================================================
