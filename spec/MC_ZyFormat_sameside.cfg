CONSTANTS Depth = 1
          Mode = "check"
SPECIFICATION Spec
INVARIANT SameSide
CHECK_DEADLOCK FALSE
