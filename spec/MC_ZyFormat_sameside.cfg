CONSTANTS Depth = 1
          RootPats = "all"
          Mode = "check"
SPECIFICATION Spec
INVARIANT SameSide
CHECK_DEADLOCK FALSE
