------------------------------ MODULE ZyPoly ------------------------------
(* C03, the F-omega layer: universal quantification over types and type operators, kinding of type          *)
(* applications, normalisation (unfolding of transparent operators, sealed operators stay nominal) and      *)
(* comparison of instantiated parameter types.  Anchors: statics/src/check/mod.rs (type abstraction and     *)
(* application, kind checks), normalize.rs (beta normalisation of type applications), check/lub.rs          *)
(* (structural equality with alpha-correspondence).                                                          *)
(*                                                                                                           *)
(* The program family:                                                                                       *)
(*     let Id (A : VType) = A that        let K (A : VType) = Int64 that     let Dup (A : VType) = A * A that *)
(*     def Box (A : VType) = A that       let Two (F : VType -> VType) (A : VType) = F (F A) that            *)
(*     let id  : Thk (forall (X : VType) . X -> Ret X) = ..                                                  *)
(*     let k   : Thk (forall (A : VType) (B : VType) . A -> B -> Ret A) = ..                                 *)
(*     let ap  : Thk (forall (F : VType -> VType) (A : VType) . F A -> Ret (F A)) = ..                       *)
(*     let dup : Thk (forall (A : VType) . A -> Ret (Dup A)) = ..                                            *)
(*     do y <- ! g T1 .. Tn v1 .. vm;  USE y                                                                 *)
(* with every type argument drawn from the expression language below - including ill-kinded ones (an        *)
(* operator where a type is expected, an over-applied type, a partially applied higher-order operator).      *)
(* The model kinds the arguments, instantiates the scheme, normalises and compares.                          *)
EXTENDS Naturals, Sequences, FiniteSets, TLC, Json

CONSTANT Size    \* "small" | "large": how far the type arguments are nested

(* ---- kinds: V == <<>>, a -> b == <<a, b>> (tuples throughout so that TLC can compare any two) ------------ *)
V == <<>>
C == <<V>>                \* the kind of computation types (a tuple of length one: distinct from V, from arrows and from Err)
VV == <<V, V>>
Err == <<V, V, V>>
HeadKind == [Int |-> V, Bool |-> V, Prod |-> <<V, <<V, V>>>>, Id |-> VV, K |-> VV, Dup |-> VV, Box |-> VV, Two |-> <<VV, VV>>,
             Ret |-> <<V, C>>, Thk |-> <<C, V>>]
Ops1 == {"Id", "K", "Dup", "Box"}

(* ---- type expressions: <<head, arg1, .., argn>> ---------------------------------------------------------- *)
PII == <<"Prod", <<"Int">>, <<"Int">>>>
Base == {<<"Int">>, <<"Bool">>, PII}
Bare == {<<h>> : h \in Ops1 \cup {"Two"}}                                 \* operators, unapplied
E0 == Base \cup Bare
One(S) == {<<h, a>> : h \in Ops1 \cup {"Two"}, a \in S}                  \* one argument (Two: partial application)
E1 == E0 \cup One(E0) \cup {<<"Two", f, a>> : f \in Bare, a \in Base} \cup {<<"Int", <<"Int">>>>}
E2 == E1 \cup One(E1) \cup {<<"Two", f, a>> : f \in Bare \cup One(Bare), a \in Base \cup One(Base)}

RECURSIVE KindOf(_), KindArgs(_, _, _)
KindArgs(k, e, i) == IF i > Len(e) THEN k
                     ELSE IF Len(k) # 2 THEN Err                          \* a type (V or C) applied to something
                     ELSE IF KindOf(e[i]) # k[1] THEN Err
                     ELSE KindArgs(k[2], e, i + 1)
KindOf(e) == KindArgs(HeadKind[e[1]], e, 2)

(* ---- normal forms of well-kinded expressions of kind V: Int | Bool | Prod nf nf | Box nf ------------------ *)
RECURSIVE NF(_)
NF(e) == LET h == e[1] IN
  CASE h = "Int"  -> <<"Int">>
    [] h = "Bool" -> <<"Bool">>
    [] h = "Prod" -> <<"Prod", NF(e[2]), NF(e[3])>>
    [] h \in {"Ret", "Thk"} -> <<h, NF(e[2])>>
    [] h = "Id"   -> NF(e[2])
    [] h = "K"    -> <<"Int">>
    [] h = "Dup"  -> <<"Prod", NF(e[2]), NF(e[2])>>
    [] h = "Box"  -> <<"Box", NF(e[2])>>                                  \* sealed: nominal, never unfolded
    [] h = "Two"  -> NF(Append(e[2], Append(e[2], e[3])))                 \* F (F A): the operator's spine grows
\* the other strategy: arguments of kind V first, then the head
RECURSIVE NFArgsFirst(_)
NFArgsFirst(e) == LET a == [i \in 1..Len(e) |-> IF i > 1 /\ KindOf(e[i]) \in {V, C} THEN NFArgsFirst(e[i]) ELSE e[i]] IN
  CASE a[1] \in {"Int", "Bool"} -> <<a[1]>>
    [] a[1] = "Prod" -> <<"Prod", a[2], a[3]>>
    [] a[1] \in {"Ret", "Thk"} -> <<a[1], a[2]>>
    [] a[1] = "Id"   -> a[2]
    [] a[1] = "K"    -> <<"Int">>
    [] a[1] = "Dup"  -> <<"Prod", a[2], a[2]>>
    [] a[1] = "Box"  -> <<"Box", a[2]>>
    [] a[1] = "Two"  -> NFArgsFirst(Append(a[2], Append(a[2], a[3])))

(* ---- schemes ------------------------------------------------------------------------------------------------ *)
Fns == [
  id  |-> [tb |-> <<[n |-> "A", k |-> V]>>,                      vb |-> << <<"A">> >>,            res |-> <<"A">>],
  k   |-> [tb |-> <<[n |-> "A", k |-> V], [n |-> "B", k |-> V]>>, vb |-> << <<"A">>, <<"B">> >>,   res |-> <<"A">>],
  ap  |-> [tb |-> <<[n |-> "F", k |-> VV], [n |-> "A", k |-> V]>>, vb |-> << <<"F", <<"A">>>> >>, res |-> <<"F", <<"A">>>>],
  dup |-> [tb |-> <<[n |-> "A", k |-> V]>>,                      vb |-> << <<"A">> >>,            res |-> <<"Dup", <<"A">>>>],
  \* quantification over COMPUTATION types: frc : forall (R : CType) . Thk R -> R; the result is the computation R itself
  frc |-> [tb |-> <<[n |-> "R", k |-> C]>>,                      vb |-> << <<"Thk", <<"R">>>> >>, res |-> <<"R">>]]
FnNames == DOMAIN Fns

RECURSIVE Subst(_, _)
Subst(t, env) == LET args == [i \in 1..(Len(t) - 1) |-> Subst(t[i + 1], env)] IN
                 IF t[1] \in DOMAIN env THEN env[t[1]] \o args ELSE <<t[1]>> \o args

(* Values.  Introduction forms are CHECKED against the instantiated parameter type, and checking an introduction  *)
(* form (constructor, tuple) - like eliminating by match / tuple pattern - looks through ONE seal to the             *)
(* structural type: `def Option (A : VType) = data .. end` is how nominal data types are declared, so               *)
(* `+T() : Box Bool` is accepted although `Box Bool` and `Bool` are different types.  Literals and variables are     *)
(* compared by type equality, where a sealed operator is opaque (`3 : Box Int64` and `vtt : Box Bool` are errors).   *)
\* A thunk `{ ret 3 }` is checked against Thk (Ret Int64) exactly (no seal is looked through: `{ ret 5 } : T` with
\* `def T = Thk (Ret Int64)` is an error).
Vals == {"three", "tt", "pair", "vtt", "vpair", "thk3"}
Den == [three |-> <<"i", 3>>, tt |-> <<"t">>, pair |-> <<"p", <<"i", 3>>, <<"i", 4>>>>, vtt |-> <<"t">>, vpair |-> <<"p", <<"i", 3>>, <<"i", 4>>>>,
        thk3 |-> <<"i", 3>>]
TRI == <<"Thk", <<"Ret", <<"Int">>>>>>
\* ONE seal: `+T() : Box (Box Bool)` is an error ("Type expected: data type definition")
Unroll(t) == IF t[1] = "Box" THEN t[2] ELSE t
Checks(v, t) == CASE v = "three" -> t = <<"Int">>
                  [] v = "tt"    -> Unroll(t) = <<"Bool">>
                  [] v = "pair"  -> Unroll(t)[1] = "Prod" /\ Unroll(t)[2] = <<"Int">> /\ Unroll(t)[3] = <<"Int">>
                  [] v = "vtt"   -> t = <<"Bool">>
                  [] v = "vpair" -> t = PII
                  [] v = "thk3"  -> t = TRI
Uses == {"exit", "isT", "snd", "drop"}

EnvOf(p) == LET tb == Fns[p.g].tb IN [n \in {tb[i].n : i \in DOMAIN tb} |-> p.targs[CHOOSE i \in DOMAIN tb : tb[i].n = n]]
KindOK(p) == \A i \in DOMAIN Fns[p.g].tb : KindOf(p.targs[i]) = Fns[p.g].tb[i].k
ArgsOK(p) == \A j \in DOMAIN Fns[p.g].vb : Checks(p.vals[j], NF(Subst(Fns[p.g].vb[j], EnvOf(p))))
ResNF(p) == NF(Subst(Fns[p.g].res, EnvOf(p)))
\* for `frc` the result is a computation type and `do y <- ..` eliminates Ret: "exit" needs Ret Int64, the others any Ret
UseOKC(u, r) == r[1] = "Ret" /\ (u = "exit" => r[2] = <<"Int">>) /\ u \in {"exit", "drop"}
UseOK(u, r) == CASE u = "exit" -> r = <<"Int">>                                       \* a variable against Int64: equality
                 [] u = "isT"  -> Unroll(r) = <<"Bool">>                              \* eliminations look through seals
                 [] u = "snd"  -> Unroll(r)[1] = "Prod" /\ Unroll(r)[3] = <<"Int">>
                 [] OTHER      -> TRUE
Verdict(p) == IF p.dropped THEN "sort"          \* first type argument left out: a value where a type is expected
              ELSE IF ~KindOK(p) THEN "kind"
              ELSE IF ~ArgsOK(p) THEN "mismatch"
              ELSE IF p.g = "frc" /\ ~UseOKC(p.use, ResNF(p)) THEN "mismatch"
              ELSE IF p.g # "frc" /\ ~UseOK(p.use, ResNF(p)) THEN "mismatch" ELSE "accept"
ResDen(p) == IF p.g = "dup" THEN <<"p", Den[p.vals[1]], Den[p.vals[1]]>> ELSE Den[p.vals[1]]
Exit(p) == LET d == ResDen(p) IN CASE p.use = "exit" -> d[2] [] p.use = "isT" -> 1 [] p.use = "snd" -> d[3][2] [] OTHER -> 7

\* the argument sets: every well-kinded expression of the bound (kind V, and kind V -> V for the operator slot) plus a
\* fixed sample of ill-kinded ones (ill-kinded arguments all fail alike; enumerating them all only costs time)
\* arguments for the CType slot: computation types, and what is not one (a value type, an operator, Ret of a computation,
\* Thk of a value, a transparent operator applied to a computation)
CArgs == {<<"Ret", b>> : b \in Base \cup {<<"Id", <<"Int">>>>, <<"Box", <<"Int">>>>, <<"K", <<"Bool">>>>}}
         \cup {<<"Ret", <<"Ret", <<"Int">>>>>>, <<"Thk", <<"Int">>>>, <<"Int">>, <<"Ret">>, TRI, <<"Id", <<"Ret", <<"Int">>>>>>, <<"Ret", <<"Id">>>>}
\* value types built from computations, and computation types where a value type is expected
ThunkArgs == {TRI, <<"Thk", <<"Ret", <<"Bool">>>>>>, <<"Id", TRI>>, <<"Box", TRI>>, <<"Ret", <<"Int">>>>, <<"Thk", <<"Int">>>>, <<"Dup", <<"Ret", <<"Int">>>>>>}
IllSample == Bare \cup {<<"Int", <<"Int">>>>, <<"Id", <<"Id">>>>, <<"Two", <<"Int">>>>, <<"Two", <<"Id">>, <<"K">>>>, <<"Box", <<"Dup">>>>, <<"Two", <<"Two">>, <<"Int">>>>}
OpsVV == {<<h>> : h \in Ops1} \cup {<<"Two", <<h>>>> : h \in Ops1} \cup {<<"Two", <<"Two", <<h>>>>>> : h \in {"Dup", "Box"}}
WK(S) == {e \in S : KindOf(e) = V}
Few == Base \cup {<<"Box", <<"Int">>>>, <<"Id", <<"Bool">>>>, <<"K", <<"Bool">>>>, <<"Dup", <<"Int">>>>, <<"Box", <<"Bool">>>>, <<"Id">>, <<"Int", <<"Int">>>>}
TArgs(g, i) == IF g = "frc" THEN CArgs ELSE
               IF Size = "small"
               THEN (IF g = "ap" /\ i = 1 THEN OpsVV \cup IllSample \cup Base ELSE IF g \in {"ap", "k"} THEN Few ELSE WK(E1) \cup IllSample \cup OpsVV \cup ThunkArgs)
               ELSE (IF g = "ap" /\ i = 1 THEN OpsVV \cup IllSample \cup Base ELSE IF g = "ap" THEN WK(E1) \cup IllSample
                     ELSE IF g = "k" /\ i = 1 THEN WK(E1) ELSE IF g = "k" THEN Few ELSE WK(E2) \cup IllSample \cup OpsVV \cup ThunkArgs)
Programs(g) == {[fam |-> "inst", g |-> g, targs |-> ta, vals |-> vs, use |-> u, dropped |-> d] :
                  ta \in (IF Len(Fns[g].tb) = 1 THEN {<<a>> : a \in TArgs(g, 1)} ELSE {<<a, b>> : a \in TArgs(g, 1), b \in TArgs(g, 2)}),
                  vs \in (IF Len(Fns[g].vb) = 1 THEN {<<v>> : v \in Vals} ELSE {<<v, w>> : v \in Vals, w \in {"three", "vtt"}}),
                  u \in Uses, d \in {FALSE}}
   \cup {[fam |-> "inst", g |-> g, targs |-> ta, vals |-> <<"three">> \o (IF Len(Fns[g].vb) = 2 THEN <<"tt">> ELSE <<>>), use |-> "drop", dropped |-> TRUE] :
                  ta \in (IF Len(Fns[g].tb) = 1 THEN {<< <<"Int">> >>} ELSE {<< <<"Int">>, <<"Int">> >>, << <<"Id">>, <<"Int">> >>})}

(* ---- alpha-correspondence: the implementation of `k` under its annotation forall (A) (B) . A -> B -> Ret A ---- *)
(*   { fn (n1 : VType) (n2 : VType) (x : m1) (y : m2) => ret v }    names resolve to the LATEST binder of that name     *)
Names == {"A", "B", "X"}
AlphaPrograms == {[fam |-> "alpha", n1 |-> a, n2 |-> b, m1 |-> c, m2 |-> d, v |-> r] :
                    a \in Names, b \in Names, c \in Names, d \in Names, r \in {"x", "y"}}
Resolve(p, m) == IF m = p.n2 THEN 2 ELSE IF m = p.n1 THEN 1 ELSE 0          \* 0: not a binder of this function
AlphaVerdict(p) == IF Resolve(p, p.m1) = 0 \/ Resolve(p, p.m2) = 0 THEN "unbound"
                   ELSE IF Resolve(p, p.m1) = 1 /\ Resolve(p, p.m2) = 2 /\ p.v = "x" THEN "accept" ELSE "mismatch"

(* ---- quantified types compared and instantiated UNDER THEIR OWN BINDER ---------------------------------------- *)
(* Inside `fn (A : VType) .. => body` checked against T = forall (A : VType) . .., the skolem A of the body and the   *)
(* bound variable of T are the same name.  A value of that very type T is in scope - the recursive `self` of a `fix`, *)
(* or a sibling declared at the same alias, or at a textual copy of T ("share").                                      *)
(*   quant:    let coerce : Thk (forall (B : VType) . a -> Ret b) = <value of type forall (A) . A -> Ret A>             *)
(*             with a, b in {A (the skolem, FREE here), B (bound)}: equal types iff both are the bound variable.        *)
(*   selfinst: ! <value of type forall (A) (B) . A -> B -> Ret A> t1 t2 v1 v2  with t1, t2 in {A, B} (the skolems) and  *)
(*             vi the parameter of type ti: instantiation is capture avoiding, so all four are well typed -             *)
(*             including B A (a naive A := B under the binder B would capture).                                         *)
Shares == {"fix", "alias", "fresh"}
Sk == {"A", "B"}
QuantPrograms == {[fam |-> "quant", share |-> sh, a |-> x, b |-> y] : sh \in Shares, x \in Sk, y \in Sk}
\* nameless form of `forall B . a -> Ret b` in a scope where A is a skolem: B is the bound index 1, A stays a free name
Nameless(n) == IF n = "B" THEN <<"bound", 1>> ELSE <<"free", n>>
QuantVerdict(p) == IF <<Nameless(p.a), Nameless(p.b)>> = << <<"bound", 1>>, <<"bound", 1>> >> THEN "accept" ELSE "mismatch"
SelfInstPrograms == {[fam |-> "selfinst", share |-> sh, t1 |-> x, t2 |-> y] : sh \in Shares, x \in Sk, y \in Sk}
\* simultaneous (capture-avoiding) instantiation of forall (A) (B) . A -> B -> Ret A at (t1, t2): parameter types (t1, t2)
InstParams(p) == <<p.t1, p.t2>>
ArgTypes(p) == <<p.t1, p.t2>>                    \* v_i is the parameter whose type is the skolem t_i
SelfInstVerdict(p) == IF InstParams(p) = ArgTypes(p) THEN "accept" ELSE "mismatch"
\* what a substitution that does not avoid capture computes for the second parameter: after A := t1 the inner binder B
\* captures a free B.  The rule above differs from it exactly at t1 = "B": that is the case a replay must contain.
NaiveSecondParam(p) == p.t2
NaiveFirstParam(p) == IF p.t1 = "B" THEN p.t2 ELSE p.t1
CaptureMatters == \E p \in SelfInstPrograms : <<NaiveFirstParam(p), NaiveSecondParam(p)>> # InstParams(p)

(* ---- higher rank: a polymorphic function as an ARGUMENT -------------------------------------------------------------- *)
(*   let use2 = { fn (f : Thk (forall (A : VType) . A -> Ret A)) =>                                                        *)
(*                  do a <- ! f Int64 3; do b <- ! f Bool +T(); match b | +T() => ! exit a | +F() => ! exit 0 end } that    *)
(*   ! use2 ARG                                                                                                             *)
(* The parameter's scheme and ARG's are declared with different bound names; they are compared in nameless form:           *)
(* <<number of quantifiers, parameter types, result>> with bound variables as indices and everything else by name.          *)
Rank2Want == <<1, << <<"b", 1>> >>, <<"b", 1>>>>                                   \* forall . 1 -> Ret 1
Rank2Args == [
  id     |-> [scheme |-> <<1, << <<"b", 1>> >>, <<"b", 1>>>>,             impl |-> "declared"],   \* forall (X) . X -> Ret X
  inline |-> [scheme |-> <<1, << <<"b", 1>> >>, <<"b", 1>>>>,             impl |-> "ok"],         \* { fn (Z : VType) (z : Z) => ret z }
  mono   |-> [scheme |-> <<0, << <<"n", "Int">> >>, <<"n", "Int">>>>,    impl |-> "ok"],         \* { fn (x : Int64) => ret x }
  const3 |-> [scheme |-> <<1, << <<"b", 1>> >>, <<"b", 1>>>>,             impl |-> "bad"],        \* { fn (Z : VType) (z : Z) => ret 3 }: 3 is no Z
  dupf   |-> [scheme |-> <<1, << <<"b", 1>> >>, <<"n", "Prod11">>>>,      impl |-> "declared"],   \* forall (A) . A -> Ret (A * A)
  kint   |-> [scheme |-> <<1, << <<"n", "Int">>, <<"b", 1>> >>, <<"n", "Int">>>>, impl |-> "declared"],  \* ! k Int64 : forall (B) . Int64 -> B -> Ret Int64
  idv    |-> [scheme |-> <<1, << <<"b", 1>> >>, <<"b", 1>>>>,             impl |-> "declared"]]   \* id2, declared with forall (A : VType), the SAME bound name
Rank2Programs == {[fam |-> "rank2", arg |-> a] : a \in DOMAIN Rank2Args}
Rank2Verdict(p) == IF Rank2Args[p.arg].scheme = Rank2Want /\ Rank2Args[p.arg].impl # "bad" THEN "accept" ELSE "mismatch"

VARIABLES stage, prog
Init == stage = "pick" /\ prog \in {[fam |-> "seed", g |-> g] : g \in FnNames \cup {"alpha"}}
Next == stage = "pick" /\ stage' = "done" /\
        IF prog.g = "alpha" THEN prog' \in AlphaPrograms \cup QuantPrograms \cup SelfInstPrograms \cup Rank2Programs ELSE prog' \in Programs(prog.g)
Spec == Init /\ [][Next]_<<stage, prog>>

(* ---- design statements -------------------------------------------------------------------------------------- *)
WellKinded(S) == {e \in S : KindOf(e) = V}
Universe == IF Size = "small" THEN E1 ELSE E2
\* normalisation does not depend on the strategy, is idempotent, and normal forms have no transparent operator left
StrategyIndependent == \A e \in WellKinded(Universe) : NF(e) = NFArgsFirst(e)
Idempotent == \A e \in WellKinded(Universe) : NF(NF(e)) = NF(e) /\ KindOf(NF(e)) = V
RECURSIVE Heads(_)
Heads(e) == {e[1]} \cup UNION {Heads(e[i]) : i \in 2..Len(e)}
NormalFormsAreNormal == \A e \in WellKinded(Universe \cup ThunkArgs) : Heads(NF(e)) \subseteq {"Int", "Bool", "Prod", "Box", "Ret", "Thk"}
\* the two sorts of types never mix: a well-kinded expression has exactly one of the kinds, and Ret / Thk switch between them
SortsSwitch == \A e \in CArgs \cup ThunkArgs : (KindOf(e) = C => KindOf(<<"Thk", e>>) = V /\ KindOf(<<"Ret", e>>) = Err)
                                            /\ (KindOf(e) = V => KindOf(<<"Ret", e>>) = C /\ KindOf(<<"Thk", e>>) = Err)
\* a sealed operator is injective and disjoint from everything else: Box a = Box b iff a = b, Box a is never a's normal form
SealedIsNominal == \A e \in WellKinded(Universe) : NF(<<"Box", e>>) # NF(e) /\ Unroll(NF(<<"Box", e>>)) = NF(e)
\* the verdict depends on a type argument only through its kind and normal form
RespectsEquality == \A g \in {"id", "dup"} : \A a, b \in WellKinded(WK(E1)) : NF(a) = NF(b) =>
                      \A v \in Vals, u \in Uses :
                        Verdict([fam |-> "inst", g |-> g, targs |-> <<a>>, vals |-> <<v>>, use |-> u, dropped |-> FALSE])
                        = Verdict([fam |-> "inst", g |-> g, targs |-> <<b>>, vals |-> <<v>>, use |-> u, dropped |-> FALSE])
Inv == stage = "pick" /\ prog.g = "id" => (CaptureMatters /\ SortsSwitch /\ StrategyIndependent /\ Idempotent /\ NormalFormsAreNormal /\ SealedIsNominal /\ RespectsEquality)

Report == stage = "done" =>
  IF prog.fam = "alpha" THEN PrintT(<<"REPLAY", ToJson(prog @@ [verdict |-> AlphaVerdict(prog), exit |-> 3])>>)
  ELSE IF prog.fam = "quant" THEN PrintT(<<"REPLAY", ToJson(prog @@ [verdict |-> QuantVerdict(prog), exit |-> 3])>>)
  ELSE IF prog.fam = "rank2" THEN PrintT(<<"REPLAY", ToJson(prog @@ [verdict |-> Rank2Verdict(prog), exit |-> 3])>>)
  ELSE IF prog.fam = "selfinst" THEN PrintT(<<"REPLAY", ToJson(prog @@ [verdict |-> SelfInstVerdict(prog), exit |-> 3])>>)
  ELSE PrintT(<<"REPLAY", ToJson(prog @@ [verdict |-> Verdict(prog), exit |-> IF Verdict(prog) = "accept" THEN Exit(prog) ELSE 0])>>)
================================================================================
