--------------------------- MODULE ZyFormatTrace ---------------------------
(* C12/C13/C14 code -> spec: one record per spec tree (ev = "tree"), repository source (ev = "file") or    *)
(* CLI command (ev = "cli"), carrying for every relation of the three properties the number of formatting   *)
(* runs of that record in which it FAILED.  The acceptor walks the whole trace and counts, per property,     *)
(* the records that break one of its relations; the driver compares the counts with the harness's own        *)
(* findings (they must agree record for record) - so nothing the harness reports or hides goes unchecked.    *)
(*                                                                                                            *)
(*   C12  panic = timeout = unparsable = structure = 0; for a tree also template /\ grammar (the model's      *)
(*        elision table agrees with the real parser on the minimal and the bare spelling)                     *)
(*   C13  comments = tokens = verbatim = sideBad = 0                                                          *)
(*   C14  idempotence = newline = canon = skeleton = 0                                                        *)
(*   cli  exit class, listed files and resulting bytes equal what ZyFmtCli.tla predicts                       *)
EXTENDS Json, IOUtils, TLC, Sequences, Naturals
Rec == ndJsonDeserialize(IOEnv.TRACE)
VARIABLES l, bad12, bad13, bad14

Has(r, f) == f \in DOMAIN r
Z(r, f) == ~Has(r, f) \/ r[f] = 0

Exercised(r) == CASE r.ev = "tree" -> r.template => r.runs > 0
                  [] r.ev = "file" -> r.parses => r.runs > 0
                  [] OTHER -> TRUE
Ok12(r) == CASE r.ev = "tree" -> r.template /\ r.grammar /\ Z(r, "panic") /\ Z(r, "timeout") /\ Z(r, "unparsable") /\ Z(r, "structure")
             [] r.ev = "file" -> ~r.parses \/ (Z(r, "panic") /\ Z(r, "timeout") /\ Z(r, "unparsable") /\ Z(r, "structure"))
             [] r.ev = "cli" -> r.exit = r.wantExit /\ r.bytes = r.wantBytes
             [] OTHER -> FALSE
Ok13(r) == CASE r.ev \in {"tree", "file"} -> Z(r, "comments") /\ Z(r, "tokens") /\ Z(r, "verbatim") /\ Z(r, "sideBad")
             [] r.ev = "cli" -> r.bytes = r.wantBytes
             [] OTHER -> FALSE
Ok14(r) == CASE r.ev \in {"tree", "file"} -> Z(r, "idempotence") /\ Z(r, "newline") /\ Z(r, "canon") /\ Z(r, "skeleton")
             [] r.ev = "cli" -> r.exit = r.wantExit /\ r.listed = r.wantListed
             [] OTHER -> FALSE

Init == l = 1 /\ bad12 = 0 /\ bad13 = 0 /\ bad14 = 0
Next == /\ l <= Len(Rec)
        /\ Exercised(Rec[l])
        /\ l' = l + 1
        /\ bad12' = bad12 + (IF Ok12(Rec[l]) THEN 0 ELSE 1)
        /\ bad13' = bad13 + (IF Ok13(Rec[l]) THEN 0 ELSE 1)
        /\ bad14' = bad14 + (IF Ok14(Rec[l]) THEN 0 ELSE 1)
        /\ TLCSet(1, <<bad12', bad13', bad14'>>)
Spec == Init /\ [][Next]_<<l, bad12, bad13, bad14>>
Accepted ==
  /\ \/ TLCGet("stats").diameter - 1 = Len(Rec)
     \/ Print(<<"TRACE-REJECTED-AT", TLCGet("stats").diameter>>, FALSE)
  /\ PrintT(<<"TRACE-BAD", IF Len(Rec) = 0 THEN <<0, 0, 0>> ELSE TLCGet(1)>>)
=============================================================================
