------------------------------- MODULE ZyExists -------------------------------
(* C03, the existential layer: "letting an existential witness escape" and "relying on the representation *)
(* of an existentially packed type outside its definition" are definite errors; everything else about    *)
(* opening a package is accepted and runs as the payload does.                                             *)
(*                                                                                                        *)
(* A program is a point of a product space:                                                               *)
(*   pkg    Box  = exists (A : VType) . A                  packed as (Int64, 5)                           *)
(*          BoxF = exists (A : VType) . A * (A -> Int64)   packed as (Int64, 5, fn x => x)                 *)
(*   path   where the package sits inside the scrutinee: a sequence over C (payload of a one-constructor   *)
(*          data type), L / R (left / right component of a pair) - the pattern that opens it is nested     *)
(*          the same way                                                                                   *)
(*   opener the construct whose pattern opens it: let, match arm, do binder                               *)
(*   body   what the scope does with the opened variables (below), which fixes the type of the opener      *)
(*   ctx    where the opener's result goes: the program's tail, a do bindee, a value-level let             *)
(* The RULE (independent of path and opener - that is the point): the skolem A' introduced by the pattern *)
(* is in scope exactly in the opener's body; the program is rejected with an escape diagnostic iff the     *)
(* opener's own type mentions A', rejected with a type mismatch iff the body uses `value` at the witness   *)
(* type, and accepted otherwise.  TLC enumerates the space, checks that the rule never depends on path or  *)
(* opener, and prints verdict and exit status for the replay on the real checker and interpreter.         *)
EXTENDS Naturals, Sequences, FiniteSets, TLC, Json

CONSTANT MaxPath

Pkgs == {"box", "boxf"}
Steps == {"C", "L", "R"}
Paths == UNION {[1..n -> Steps] : n \in 0..MaxPath}
\* (a `fn` binder is NOT an opener in this sense: `fn ((A', x) : Box) => ret x` has the package-dependent arrow type
\* `Box -> Ret A'`, applying it projects the witness of the argument - accepted by design, and only at the top of the
\* binder pattern; the replay showed both, so the former is left out of the rule)
Openers == {"let", "match", "do"}

(* bodies: sort of the opener ("compu" needs a computation context, "value" a value-level let),           *)
(*         needs: which package offers the variables, ty: the opener's type as a small term over "sk"     *)
Bodies == [
  exitconst |-> [sort |-> "compu", needs |-> Pkgs,     ty |-> <<"os">>,                 repr |-> FALSE, exit |-> 3],
  exituse   |-> [sort |-> "compu", needs |-> {"boxf"}, ty |-> <<"os">>,                 repr |-> FALSE, exit |-> 5],   \* ! exit (use value)
  exitrepr  |-> [sort |-> "compu", needs |-> Pkgs,     ty |-> <<"os">>,                 repr |-> TRUE,  exit |-> 0],   \* ! exit value : relies on A' = Int64
  retunit   |-> [sort |-> "compu", needs |-> Pkgs,     ty |-> <<"ret", "unit">>,        repr |-> FALSE, exit |-> 0],
  retvalue  |-> [sort |-> "compu", needs |-> Pkgs,     ty |-> <<"ret", "sk">>,          repr |-> FALSE, exit |-> 0],   \* escapes
  retuse    |-> [sort |-> "compu", needs |-> {"boxf"}, ty |-> <<"ret", "vfn", "sk", "int">>, repr |-> FALSE, exit |-> 0],   \* escapes
  retapp    |-> [sort |-> "compu", needs |-> {"boxf"}, ty |-> <<"ret", "int">>,         repr |-> FALSE, exit |-> 0],   \* ret (use value)
  retrepack |-> [sort |-> "compu", needs |-> {"box"},  ty |-> <<"ret", "box">>,         repr |-> FALSE, exit |-> 0],   \* ret ((A', value) : Box)
  retthunk  |-> [sort |-> "compu", needs |-> {"boxf"}, ty |-> <<"ret", "thk", "os">>,   repr |-> FALSE, exit |-> 5],   \* ret { ! exit (use value) }: captured, not escaping
  vvalue    |-> [sort |-> "value", needs |-> Pkgs,     ty |-> <<"sk">>,                 repr |-> FALSE, exit |-> 0],   \* escapes
  vunit     |-> [sort |-> "value", needs |-> Pkgs,     ty |-> <<"unit">>,               repr |-> FALSE, exit |-> 0],
  vapp      |-> [sort |-> "value", needs |-> {"boxf"}, ty |-> <<"int">>,                repr |-> FALSE, exit |-> 5],   \* use value : Int64
  vpair     |-> [sort |-> "value", needs |-> Pkgs,     ty |-> <<"pair", "int", "sk">>,  repr |-> FALSE, exit |-> 0]    \* (1, value): escapes inside a pair
]
BodyNames == DOMAIN Bodies

\* contexts: root (the opener is the program's tail: type OS), do (its result is bound and, for a thunk, forced),
\* vlet (a value-level let binds the opener's value; vapp's Int64 becomes the exit status)
Ctxs == {"root", "do", "vlet"}
Fits(b, c) == CASE c = "root" -> Bodies[b].ty = <<"os">>
                [] c = "do"   -> Bodies[b].sort = "compu" /\ Bodies[b].ty[1] = "ret"
                [] c = "vlet" -> Bodies[b].sort = "value"
\* a value-level opener is a value-level let; match / fn / do openers are computations
OpenerFits(o, b) == Bodies[b].sort = "compu" \/ o = "let"
\* `match` needs a constructor at the top of the scrutinee
PathFits(o, p) == o = "match" => (Len(p) > 0 /\ p[1] = "C")

Programs == {[pkg |-> k, path |-> p, opener |-> o, body |-> b, ctx |-> c] :
               k \in Pkgs, p \in Paths, o \in Openers, b \in BodyNames, c \in Ctxs}
Valid(g) == /\ g.pkg \in Bodies[g.body].needs /\ Fits(g.body, g.ctx) /\ OpenerFits(g.opener, g.body) /\ PathFits(g.opener, g.path)

Mentions(ty) == \E i \in DOMAIN ty : ty[i] = "sk"
Verdict(g) == IF Bodies[g.body].repr THEN "mismatch"
              ELSE IF Mentions(Bodies[g.body].ty) THEN "escape" ELSE "accept"
\* what an accepted program does: the exit status
Exit(g) == CASE g.ctx = "root" -> Bodies[g.body].exit
             [] g.ctx = "do" -> IF g.body = "retthunk" THEN Bodies[g.body].exit ELSE 0
             [] g.ctx = "vlet" -> IF g.body = "vapp" THEN Bodies[g.body].exit ELSE 0

(* ---- def-sealing: "relying on the representation of a `def`-sealed type outside its definition" ------------- *)
(* A and B are declared with the same right-hand side, each either sealed (`def`) or transparent (`let`).        *)
(*   kind  "data": data | +K : Int64 end        "int": Int64                                                     *)
(*         "self": A's right-hand side is A itself, "cycle": A = B and B = A - non-productive definitions: no     *)
(*         structural type is ever reached, so neither a constructor nor a match is typable at A ("reject": any   *)
(*         diagnostic; opening the seal again and again is the failure mode)                                      *)
(*   use   "construct": a value is built at A (constructor / literal) and eliminated at A                        *)
(*         "cross":     the value built at A is used at B                                                        *)
(* RULE: two distinct names denote the same type iff BOTH are transparent; a literal inhabits A iff A is          *)
(* transparent; a constructor of the declared data type always introduces into it (sealed or not).               *)
Modes == {"def", "let"}
SealPrograms == {[fam |-> "seal", kind |-> k, ma |-> a, mb |-> b, use |-> u] : k \in {"data", "int", "self", "cycle"}, a \in Modes, b \in Modes, u \in {"construct", "cross"}}
SealVerdict(g) == IF g.kind \in {"self", "cycle"} THEN "reject" ELSE
                  LET built == g.kind = "data" \/ g.ma = "let"
                      same == g.ma = "let" /\ g.mb = "let" IN
                  IF ~built THEN "mismatch" ELSE IF g.use = "cross" /\ ~same THEN "mismatch" ELSE "accept"
\* sealing never makes more programs typable: replacing a `let` by a `def` can only turn accept into mismatch
SealMonotone == \A g, h \in {x \in SealPrograms : x.kind \in {"data", "int"}} :
                  (g.kind = h.kind /\ g.use = h.use /\ (g.ma = "def" => h.ma = "def") /\ (g.mb = "def" => h.mb = "def") /\ SealVerdict(h) = "accept")
                     => SealVerdict(g) = "accept"

(* ---- named fields: "an unknown ... field" is a definite error -------------------------------------------------- *)
(* P = (f1 :: Int64) * .. * (fn :: Int64) with the values 1..n.  Labels are numbers: i for fi, 0 for the unknown `z`. *)
(*   proj     p/g                       accepted iff g is a field; the program exits with the field's value         *)
(*   projpat  let (/g) = p in ..        the same through a projection pattern                                        *)
(*   build    (l1 = 1, .., ln = n) : P  accepted iff the labels are exactly the declared ones IN ORDER               *)
(*   pattern  let (l1 = a1, ..) = p     the same for a named pattern; exits with the last component                  *)
FieldCounts == {2, 3}
LabelSeqs(n) == {q \in [1..n -> 0..n] : \A i, j \in 1..n : i # j => q[i] # q[j]}
FieldPrograms ==
  UNION {{[fam |-> "field", n |-> n, kind |-> k, g |-> g, labels |-> <<>>] : k \in {"proj", "projpat"}, g \in 0..n}
         \cup {[fam |-> "field", n |-> n, kind |-> k, g |-> 0, labels |-> q] : k \in {"build", "pattern"}, q \in LabelSeqs(n)}
         : n \in FieldCounts}
Declared(n) == [i \in 1..n |-> i]
FieldVerdict(p) == CASE p.kind \in {"proj", "projpat"} -> IF p.g \in 1..p.n THEN "accept" ELSE "missingfield"
                     [] OTHER -> IF p.labels = Declared(p.n) THEN "accept" ELSE "labelmismatch"
FieldExit(p) == CASE p.kind \in {"proj", "projpat"} -> p.g [] p.kind = "build" -> 1 [] OTHER -> p.n
\* exactly one label sequence per record type is accepted
OneSpelling == \A n \in FieldCounts : Cardinality({q \in LabelSeqs(n) : q = Declared(n)}) = 1

(* ---- why an escape matters: the same site run at two witnesses (C01) -------------------------------------------- *)
(*   let open = fn (p : T) => (let PAT = p in (value, use)) that        -- the result type mentions the skolem           *)
(*   let (v1, f1) = open V(ints) that   let (v2, f2) = open V(pairs) that   ! exit (f2 v1)                               *)
(* with ints packed at Int64 and pairs at Int64 * Int64.  The rule rejects every such program (escape) whatever the      *)
(* nesting path; a checker that accepts one lets `f2 v1` take a pair apart that is an integer: the interpreter is stuck. *)
CrossPrograms == {[fam |-> "cross", path |-> q] : q \in Paths}

VARIABLES stage, prog
Init == stage = "pick" /\ prog \in {[pkg |-> k, path |-> <<>>, opener |-> "let", body |-> "exitconst", ctx |-> "root"] : k \in Pkgs}
Next == stage = "pick" /\ stage' = "done" /\
        \/ prog' \in {g \in Programs : g.pkg = prog.pkg /\ Valid(g)}
        \/ (prog.pkg = "box" /\ prog' \in SealPrograms)
        \/ (prog.pkg = "boxf" /\ prog' \in FieldPrograms)
        \/ (prog.pkg = "boxf" /\ prog' \in CrossPrograms)
Spec == Init /\ [][Next]_<<stage, prog>>

\* the rule is a function of the body alone: neither the nesting of the pattern nor the opening construct matters
PathIndependent == \A g, h \in {x \in Programs : Valid(x)} : (g.body = h.body) => Verdict(g) = Verdict(h)
\* an accepted opener has a closed type; every escaping body is rejected
AcceptedIsClosed == \A g \in {x \in Programs : Valid(x)} : Verdict(g) = "accept" => ~Mentions(Bodies[g.body].ty)
Inv == stage = "pick" => (PathIndependent /\ AcceptedIsClosed /\ SealMonotone /\ OneSpelling)

Report == stage = "done" =>
  IF "fam" \in DOMAIN prog /\ prog.fam = "cross"
  THEN PrintT(<<"REPLAY", ToJson(prog @@ [verdict |-> "escape", exit |-> 0])>>)
  ELSE IF "fam" \in DOMAIN prog /\ prog.fam = "field"
  THEN PrintT(<<"REPLAY", ToJson(prog @@ [verdict |-> FieldVerdict(prog), exit |-> FieldExit(prog)])>>)
  ELSE IF "fam" \in DOMAIN prog
  THEN PrintT(<<"REPLAY", ToJson(prog @@ [verdict |-> SealVerdict(prog), exit |-> 3])>>)
  ELSE PrintT(<<"REPLAY", ToJson([pkg |-> prog.pkg, path |-> prog.path, opener |-> prog.opener, body |-> prog.body,
                                  ctx |-> prog.ctx, verdict |-> Verdict(prog), exit |-> Exit(prog)])>>)
================================================================================
