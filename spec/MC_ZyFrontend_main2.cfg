\* 75 lexemes (harness/src/frontend.rs VOCAB), all sequences of length <= 2
SPECIFICATION Spec
CONSTANTS
  V = 75
  MaxLen = 2
  OpenIx = {63}
  CloseIx = {64}
  LineIx = {61, 62}
  UnknownIx = {35, 38, 65, 66}
INVARIANT Report
CHECK_DEADLOCK FALSE
