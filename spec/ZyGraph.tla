------------------------------- MODULE ZyGraph -------------------------------
(***************************************************************************)
(* Dependency analysis of `begin ... end` blocks (C08) and its             *)
(* independence from hash-map iteration order (C16).                       *)
(*                                                                         *)
(* Implementation-shaped model of lang/utils/src/graph.rs                  *)
(*   - DepGraph / SrcGraph,                                                *)
(*   - Kosaraju::run : forward DFS post-order over `order()` (HashMap key  *)
(*     order), then backward DFS over the reversed stack,                  *)
(*   - SccGraph::{new, top, release} with its five maps                    *)
(*     strongs / belongs / srcs / deps / roots, release one id at a time,  *)
(* and of lang/surface/src/scoped/arena.rs                                 *)
(*   - BindingContext::{from_bindings, ready, topological_order}           *)
(*     (level-by-level drain, source-order tie break, Recursive iff the    *)
(*     component has > 1 member or a self edge).                           *)
(* Every HashMap/HashSet iteration is a NONDETERMINISTIC order: `ord` is   *)
(* an arbitrary permutation chosen per run.  Declarative counterparts      *)
(* (mutual reachability, "all dependencies already released") are the      *)
(* oracle.  Node i has source_order i; all digraphs on N nodes (self       *)
(* loops included) are initial states, so no generality is lost.           *)
(***************************************************************************)
EXTENDS Integers, Sequences, FiniteSets, TLC, Json

CONSTANTS N,          \* number of nodes
          Orders,     \* "all" | "few": which iteration orders are explored
          Mode        \* "algorithm": Kosaraju + maps vs oracle;  "behaviours": oracle only, prints REPLAY

Nodes == 1..N
Perms == {p \in [1..N -> Nodes] : \A i, j \in 1..N : i # j => p[i] # p[j]}
Id == [i \in 1..N |-> i]
Rev(s) == [i \in 1..Len(s) |-> s[Len(s) + 1 - i]]
OrderSet == IF Orders = "all" THEN Perms
            ELSE IF Orders = "one" THEN {Id}
            ELSE {Id, Rev(Id), [i \in 1..N |-> ((i * 2) % N) + 1]} \cap Perms

VARIABLES G,         \* set of edges <<x, y>>: x depends on y
          ord,       \* the iteration order of this run (hash order)
          phase,     \* "init" | "drain"
          strongs, belongs, srcs, deps, roots,   \* SccGraph, literally
          sched      \* nodes released so far, in order
vars == <<G, ord, phase, strongs, belongs, srcs, deps, roots, sched>>

Succ(g, x) == {y \in Nodes : <<x, y>> \in g}
Pred(g, x) == {y \in Nodes : <<y, x>> \in g}
InOrder(S, o) == SelectSeq(o, LAMBDA x : x \in S)

----------------------------------------------------------------------------
(* Kosaraju, as written.                                                   *)
RECURSIVE Fwd(_, _, _, _), FwdList(_, _, _, _)
Fwd(g, o, x, st) ==
  LET st1 == FwdList(g, o, InOrder(Succ(g, x), o), [st EXCEPT !.vis = @ \cup {x}]) IN
  [st1 EXCEPT !.stack = Append(@, x)]
FwdList(g, o, xs, st) ==
  IF xs = << >> THEN st
  ELSE FwdList(g, o, Tail(xs), IF Head(xs) \in st.vis THEN st ELSE Fwd(g, o, Head(xs), st))
RECURSIVE Bwd(_, _, _, _, _), BwdList(_, _, _, _, _)
Bwd(g, o, x, idx, b) == BwdList(g, o, InOrder(Pred(g, x), o), idx, [b EXCEPT ![x] = idx])
BwdList(g, o, xs, idx, b) ==
  IF xs = << >> THEN b
  ELSE BwdList(g, o, Tail(xs), idx, IF b[Head(xs)] # 0 THEN b ELSE Bwd(g, o, Head(xs), idx, b))
RECURSIVE Assign(_, _, _, _, _)
Assign(g, o, stackRev, idx, b) ==
  IF stackRev = << >> THEN b
  ELSE IF b[Head(stackRev)] # 0 THEN Assign(g, o, Tail(stackRev), idx, b)
  ELSE Assign(g, o, Tail(stackRev), idx + 1, Bwd(g, o, Head(stackRev), idx, b))
Kosaraju(g, o) ==
  Assign(g, o, Rev(FwdList(g, o, o, [vis |-> {}, stack |-> << >>]).stack), 1, [x \in Nodes |-> 0])

(* SccGraph::new *)
StrongsOf(b) == [c \in {b[x] : x \in Nodes} |-> {x \in Nodes : b[x] = c}]
DepsOf(g, b) == [c \in {b[x] : x \in Nodes} |->
                   {b[d] : d \in UNION {Succ(g, x) : x \in {y \in Nodes : b[y] = c}}} \ {c}]
SrcsOf(g, b) == LET D == DepsOf(g, b) IN [c \in DOMAIN D |-> {k \in DOMAIN D : c \in D[k]}]
(* SrcGraph::roots as written: keys that occur in no source set.  `srcs[repr]` holds the      *)
(* components that depend on repr, so these are the components nobody ... depends on?  No:    *)
(* srcs.add(repr, [k]) records k (the dependent) under repr; roots() removes every recorded   *)
(* dependent, leaving the components that depend on nothing.                                  *)
RootsOf(g, b) == LET S == SrcsOf(g, b) IN DOMAIN S \ UNION {S[c] : c \in DOMAIN S}

----------------------------------------------------------------------------
(* Declarative oracle.                                                     *)
RECURSIVE ReachN(_, _, _)
ReachN(g, S, n) == IF n = 0 THEN S ELSE ReachN(g, S \cup UNION {Succ(g, x) : x \in S}, n - 1)
Reach(g, x) == ReachN(g, {x}, N)
SameSCC(g, x, y) == y \in Reach(g, x) /\ x \in Reach(g, y)
SCC(g, x) == {y \in Nodes : SameSCC(g, x, y)}
(* what top() must offer after `rel` has been released: the remaining parts of the components *)
(* all of whose outside dependencies are gone                                                 *)
(* a component stays in the graph until its last member is released, so a dependency counts  *)
(* as gone only when its whole component is gone                                              *)
ReadyComp(g, rel, x) == \A m \in SCC(g, x) : \A d \in Succ(g, m) : d \in SCC(g, x) \/ SCC(g, d) \subseteq rel
TopOf(g, rel) == {SCC(g, x) \ rel : x \in {y \in Nodes \ rel : ReadyComp(g, rel, y)}}

----------------------------------------------------------------------------
Released == {sched[i] : i \in 1..Len(sched)}
TopModel == {strongs[c] : c \in roots \cap DOMAIN strongs}     \* SccGraph::top, as a set of groups

Init ==
  /\ G \in SUBSET (Nodes \X Nodes)
  /\ ord = Id /\ phase = "init" /\ sched = << >>
  /\ strongs = << >> /\ belongs = << >> /\ srcs = << >> /\ deps = << >> /\ roots = {}

(* Kosaraju::run followed by SccGraph::new, under some iteration order *)
Build ==
  /\ phase = "init"
  /\ \E o \in OrderSet :
       LET b == IF Mode = "algorithm" THEN Kosaraju(G, o)
                ELSE [x \in Nodes |-> CHOOSE y \in SCC(G, x) : \A z \in SCC(G, x) : y <= z] IN
       /\ ord' = o
       /\ belongs' = b
       /\ strongs' = StrongsOf(b)
       /\ deps' = DepsOf(G, b)
       /\ srcs' = SrcsOf(G, b)
       /\ roots' = RootsOf(G, b)
  /\ phase' = "drain"
  /\ UNCHANGED <<G, sched>>

(* SccGraph::release of one id that top() currently offers *)
Release(x) ==
  /\ phase = "drain"
  /\ \E grp \in TopModel : x \in grp
  /\ LET c == belongs[x]
         scc == strongs[c] \ {x} IN
     IF scc # {}
     THEN /\ strongs' = [strongs EXCEPT ![c] = scc]
          /\ UNCHANGED <<srcs, deps, roots>>
     ELSE LET next == srcs[c]
              deps1 == [k \in DOMAIN deps |-> IF k \in next THEN deps[k] \ {c} ELSE deps[k]]
              freed == {k \in next : deps1[k] = {}} IN
          /\ strongs' = [k \in DOMAIN strongs \ {c} |-> strongs[k]]
          /\ srcs' = [k \in DOMAIN srcs \ {c} |-> srcs[k]]
          /\ deps' = deps1
          /\ roots' = (roots \ {c}) \cup freed
  /\ belongs' = [y \in DOMAIN belongs \ {x} |-> belongs[y]]
  /\ sched' = Append(sched, x)
  /\ UNCHANGED <<G, ord, phase>>

Next == Build \/ \E x \in Nodes : Release(x)
Spec == Init /\ [][Next]_vars

----------------------------------------------------------------------------
(* Invariants.                                                             *)
Drain == phase = "drain"
(* the components computed are exactly the strongly connected components, for every order *)
ComponentsCorrect == (Drain /\ sched = << >>) =>
  \A x, y \in Nodes : (belongs[x] = belongs[y]) <=> SameSCC(G, x, y)
(* top() offers exactly what the declarative definition says, after any release sequence *)
TopCorrect == Drain => TopModel = TopOf(G, Released)
(* what is offered has all its outside dependencies released; something is offered while nodes remain *)
TopSound == Drain => \A grp \in TopModel : \A m \in grp : \A d \in Succ(G, m) : SameSCC(G, m, d) \/ d \in Released
TopComplete == (Drain /\ Released # Nodes) => TopModel # {}
(* the five maps stay mutually consistent *)
MapsConsistent == Drain =>
  /\ DOMAIN belongs = Nodes \ Released
  /\ \A x \in DOMAIN belongs : belongs[x] \in DOMAIN strongs /\ x \in strongs[belongs[x]]
  /\ \A c \in DOMAIN strongs : strongs[c] # {} /\ \A x \in strongs[c] : belongs[x] = c
  /\ roots \subseteq DOMAIN strongs
  /\ \A c \in DOMAIN strongs : (c \in roots) <=> (deps[c] = {})
  /\ \A c \in DOMAIN strongs : \A k \in deps[c] : k \in DOMAIN strongs /\ c \in srcs[k]
(* every node is emitted exactly once and after everything it depends on (outside its component) *)
EmittedOnceDepsFirst ==
  /\ \A i, j \in 1..Len(sched) : i # j => sched[i] # sched[j]
  /\ \A i \in 1..Len(sched) : \A d \in Succ(G, sched[i]) :
        SameSCC(G, sched[i], d) \/ \E j \in 1..(i - 1) : sched[j] = d

----------------------------------------------------------------------------
(* BindingContext::topological_order: level-by-level drain of the          *)
(* condensation, each level sorted by source order (= least member).       *)
CompKey(g, x) == CHOOSE y \in SCC(g, x) : \A z \in SCC(g, x) : y <= z
Comps(g) == {SCC(g, x) : x \in Nodes}
MinOf(S) == CHOOSE y \in S : \A z \in S : y <= z
RECURSIVE SortByMin(_)
SortByMin(S) == IF S = {} THEN << >>
                ELSE LET c == CHOOSE c \in S : \A d \in S : MinOf(c) <= MinOf(d) IN <<c>> \o SortByMin(S \ {c})
RECURSIVE Levels(_, _)
Levels(g, rel) ==
  LET ready == {c \in Comps(g) : c \cap rel = {} /\ \A m \in c : \A d \in Succ(g, m) : d \in c \/ d \in rel} IN
  IF ready = {} THEN << >> ELSE SortByMin(ready) \o Levels(g, rel \cup UNION ready)
TopoOrder(g) == Levels(g, {})                       \* sequence of components
RECURSIVE LevelSeq(_, _)
LevelSeq(g, rel) ==                                 \* the same, level by level
  LET ready == {c \in Comps(g) : c \cap rel = {} /\ \A m \in c : \A d \in Succ(g, m) : d \in c \/ d \in rel} IN
  IF ready = {} THEN << >> ELSE <<SortByMin(ready)>> \o LevelSeq(g, rel \cup UNION ready)
Recursive(g, c) == Cardinality(c) > 1 \/ \E x \in c : <<x, x>> \in g
(* the order covers every component once and puts dependencies first *)
TopoOK(g) ==
  LET o == TopoOrder(g) IN
  /\ {o[i] : i \in 1..Len(o)} = Comps(g)
  /\ \A i, j \in 1..Len(o) : i # j => o[i] # o[j]
  /\ \A i \in 1..Len(o) : \A m \in o[i] : \A d \in Succ(g, m) : d \in o[i] \/ \E j \in 1..(i - 1) : d \in o[j]
TopoOrderOK == (phase = "init") => TopoOK(G)

(* The same order obtained from the MODEL's maps by draining whole levels (what from_bindings  *)
(* and topological_order do through top()/release()): independent of the iteration order.      *)
RECURSIVE DrainLevels(_, _, _, _)
DrainLevels(st, dp, sr, rt) ==
  IF rt = {} THEN << >>
  ELSE LET level == SortByMin({st[c] : c \in rt})
           gone == rt
           dp1 == [k \in DOMAIN dp \ gone |-> dp[k] \ gone]
           rt1 == {k \in DOMAIN dp1 : dp1[k] = {}}
       IN level \o DrainLevels([k \in DOMAIN st \ gone |-> st[k]], dp1, sr, rt1)
OrderConfluent == (Drain /\ sched = << >>) => DrainLevels(strongs, deps, srcs, roots) = TopoOrder(G)

----------------------------------------------------------------------------
(* Behaviour output for the conformance harness: one record per complete   *)
(* drain, with what top() must return after every release.                 *)
RECURSIVE Prefixes(_, _)
Prefixes(s, i) == IF i > Len(s) THEN << >> ELSE <<{s[j] : j \in 1..i}>> \o Prefixes(s, i + 1)
EdgeSeq(g) == LET RECURSIVE F(_) F(S) == IF S = {} THEN << >> ELSE LET e == CHOOSE e \in S : TRUE IN <<e>> \o F(S \ {e}) IN F(g)
SetSeq(S) == LET RECURSIVE F(_) F(T) == IF T = {} THEN << >> ELSE LET e == CHOOSE e \in T : TRUE IN <<e>> \o F(T \ {e}) IN F(S)
TopsAlong == [i \in 1..(Len(sched) + 1) |->
                SetSeq({SetSeq(grp) : grp \in TopOf(G, {sched[j] : j \in 1..(i - 1)})})]
Report == (Mode = "behaviours" /\ Drain /\ Released = Nodes) =>
  PrintT(<<"REPLAY", ToJson([n |-> N, edges |-> EdgeSeq(G), sched |-> sched, tops |-> TopsAlong,
                             order |-> [i \in 1..Len(TopoOrder(G)) |-> SetSeq(TopoOrder(G)[i])],
                             levels |-> [i \in 1..Len(LevelSeq(G, {})) |->
                                           [j \in 1..Len(LevelSeq(G, {})[i]) |-> SetSeq(LevelSeq(G, {})[i][j])]],
                             recursive |-> [i \in 1..Len(TopoOrder(G)) |-> Recursive(G, TopoOrder(G)[i])]])>>)
=============================================================================
