CONSTANTS Depth = 2
          RootPats = "all"
          Mode = "check"
SPECIFICATION Spec
INVARIANT Settles
CHECK_DEADLOCK FALSE
