CONSTANTS Depth = 2
          Mode = "check"
SPECIFICATION Spec
INVARIANT Settles
CHECK_DEADLOCK FALSE
