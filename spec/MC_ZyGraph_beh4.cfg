SPECIFICATION Spec
CONSTANTS
  N = 4
  Orders = "one"
  Mode = "behaviours"
INVARIANTS TopCorrect MapsConsistent EmittedOnceDepsFirst Report
CHECK_DEADLOCK FALSE
