\* 16 lexemes around binders, destructors and metadata (SUBVOCAB), all sequences of length <= 5
SPECIFICATION Spec
CONSTANTS
  V = 16
  MaxLen = 5
  OpenIx = {}
  CloseIx = {}
  LineIx = {}
  UnknownIx = {}
INVARIANT Report
CHECK_DEADLOCK FALSE
