CONSTANT MaxPath = 3
SPECIFICATION Spec
INVARIANTS Inv Report
CHECK_DEADLOCK FALSE
