SPECIFICATION TSpec
CONSTANTS
  MaxRows = 0
  Depth = 0
  TypeNames = {}
POSTCONDITION TraceAccepted
CHECK_DEADLOCK FALSE
