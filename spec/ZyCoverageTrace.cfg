SPECIFICATION TSpec
CONSTANTS
  MaxRows = 0
  Depth = 0
  Ordered = FALSE
  TypeNames = {}
POSTCONDITION TraceAccepted
CHECK_DEADLOCK FALSE
