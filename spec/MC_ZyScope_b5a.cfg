SPECIFICATION Spec
CONSTANTS
  MaxLen = 5
  Vocab = "blocks"
  CheckAlpha = TRUE
INVARIANTS BoundaryHygiene AlphaInvariance
CHECK_DEADLOCK FALSE
