\* fault configuration: a binder annotated with a type of the wrong sort, in functions that are defined but not applied
SPECIFICATION Spec
CONSTANTS
  MaxLen = 7
  Fuel = 80
  Prods = {"let", "app"}
  Faults = {"sortann"}
  Root = "os"
  BindTys = {"int", "tfi"}
  IntLits = {1, 2}
INVARIANTS GenSound TypeSafety Report
CHECK_DEADLOCK FALSE
