\* C20: closed returning computations over the constructs the algebra translation supports
SPECIFICATION Spec
CONSTANTS
  MaxLen = 11
  Fuel = 80
  Prods = {"app", "let", "vlet", "data", "pair"}
  Faults = {}
  Root = "retint"
  BindTys = {"int", "B", "tri", "pii"}
  IntLits = {1, 2}
INVARIANTS GenSound TypeSafety Report
CHECK_DEADLOCK FALSE
