--------------------------- MODULE ZyFrontendTrace ---------------------------
(***************************************************************************)
(* The phase monitor of C10 as a trace acceptor.  One record per input:    *)
(*   phase    : the last phase reached (lex, parse, ..., check, render)    *)
(*   outcome  : "success" | "diagnostic" | "panic" | "timeout"             *)
(*   spans_ok : every (file, range) mentioned by the diagnostics lies      *)
(*              inside the named file: 0 <= start <= end <= length         *)
(*   mustreject : the lexical must-reject predicate of ZyFrontend/ZyLexer  *)
(* A record is accepted iff the pipeline ended in Success or Diagnostic    *)
(* (never Broken), all spans are inside their files, and a must-reject     *)
(* input was not a Success.                                                *)
(***************************************************************************)
EXTENDS Json, IOUtils, TLC, Sequences, Naturals
Rec == ndJsonDeserialize(IOEnv.TRACE)
VARIABLE l
Phases == {"lex", "parse", "directives", "assemble", "desugar", "resolve", "check", "render"}
Ok(r) == /\ r.outcome \in {"success", "diagnostic"}
         /\ r.phase \in Phases
         /\ (r.outcome = "success" => r.phase = "check")
         /\ r.spans_ok
         /\ (r.mustreject => r.outcome = "diagnostic")
Init == l = 1
Next == l <= Len(Rec) /\ Ok(Rec[l]) /\ l' = l + 1
Spec == Init /\ [][Next]_l
Accepted ==
  \/ TLCGet("stats").diameter - 1 = Len(Rec)
  \/ Print(<<"TRACE-REJECTED-AT", TLCGet("stats").diameter>>, FALSE)
=============================================================================
