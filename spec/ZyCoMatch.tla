------------------------------ MODULE ZyCoMatch ------------------------------
(***************************************************************************)
(* C04, codata half: a `comatch` over a codata type with destructor list   *)
(* Dtors is accepted exactly when its arms name every destructor once.     *)
(* Every arm list of length <= MaxArms over the destructors (plus one      *)
(* undeclared name) is enumerated; the prediction [ok, missing, dups] and  *)
(* the run-time rule "a destructor selects the same-named arm" are         *)
(* replayed against the real checker and interpreter.                      *)
(***************************************************************************)
EXTENDS Integers, Sequences, TLC, FiniteSets, SequencesExt, Json
CONSTANTS MaxDtors, MaxArms

(* the codata types: destructor lists <<>>, <<p>>, <<p,q>>, ... *)
DtorLists == {SubSeq(<<"p", "q", "r", "s">>, 1, n) : n \in 0..MaxDtors}

VARIABLES dtors, arms
vars == <<dtors, arms>>

Names(ds) == {ds[i] : i \in 1..Len(ds)}
Count(seq, x) == Cardinality({i \in 1..Len(seq) : seq[i] = x})

Init == dtors \in DtorLists /\ arms = << >>
Next == /\ Len(arms) < MaxArms
        /\ \E d \in Names(dtors) \cup {"zz"} : arms' = Append(arms, d)
        /\ UNCHANGED dtors
Spec == Init /\ [][Next]_vars

Missing == {d \in Names(dtors) : Count(arms, d) = 0}
Dups    == {d \in Names(arms) : Count(arms, d) > 1}
Unknown == Names(arms) \ Names(dtors)
Ok == Missing = {} /\ Dups = {} /\ Unknown = {}

(* the statement of the property: accepted iff one arm per destructor, none twice *)
OkIsBijection == Ok <=> (Len(arms) = Len(dtors) /\ Names(arms) = Names(dtors))
(* an accepted comatch answers every destructor, with exactly one candidate arm *)
DispatchDefined == Ok => \A d \in Names(dtors) : Cardinality({i \in 1..Len(arms) : arms[i] = d}) = 1

Report == PrintT(<<"REPLAY", ToJson([dtors |-> dtors, arms |-> arms, ok |-> Ok,
                     missing |-> SetToSeq(Missing), dups |-> SetToSeq(Dups)])>>)
=============================================================================
