SPECIFICATION Spec
CONSTANTS
  MaxLen = 6
  CheckAlpha = FALSE
INVARIANTS BoundaryHygiene Report
CHECK_DEADLOCK FALSE
