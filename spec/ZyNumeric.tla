------------------------------ MODULE ZyNumeric ------------------------------
(***************************************************************************)
(* Fixed-width integer semantics and literal range checking (C05).         *)
(*                                                                         *)
(* A W-bit value is a little-endian sequence of W bits, so that 64-bit     *)
(* arithmetic needs no integers beyond TLC's 32 bits.  Operators:          *)
(*   BvAdd, BvSub, BvMul (shift-add), BvUDivRem (restoring division),      *)
(*   signed division/remainder by sign and magnitude - truncating, the     *)
(*   remainder takes the sign of the dividend, MIN / -1 wraps to MIN and   *)
(*   MIN rem -1 is 0 (Rust's wrapping_div / wrapping_rem) -, comparisons   *)
(*   respecting signedness, ToDecimal (to_string).                         *)
(* Literal acceptance is a predicate on DIGIT STRINGS (length, then        *)
(* lexicographic order against the decimal expansion of the bound), so the *)
(* 2^63 and 2^64 boundaries need no big integers either.                   *)
(* Float comparison branches: the IEEE ordering predicate on decoded       *)
(* (class, sign, magnitude-rank) triples.                                  *)
(*                                                                         *)
(* Task = "laws":    the operators equal mathematics at widths TLC can     *)
(*                   count in (all pairs at W = 4, 5; add/sub/compare and  *)
(*                   algebraic laws at W = 8).                             *)
(* Task = "table8":  every operand pair of Int8 and UInt8, every operation *)
(* Task = "wide":    boundary operand sets squared for the six wider types *)
(* Task = "literals": literal strings around every range boundary          *)
(* Task = "floats":  comparison branches over special values               *)
(* Rows are printed as REPLAY records for the conformance harness.         *)
(***************************************************************************)
EXTENDS Integers, Sequences, TLC, FiniteSets, Json
CONSTANTS Task

----------------------------------------------------------------------------
RECURSIVE ToBv(_, _)
ToBv(x, n) == IF n = 0 THEN << >> ELSE <<x % 2>> \o ToBv(x \div 2, n - 1)
RECURSIVE ToNat(_)
ToNat(b) == IF b = << >> THEN 0 ELSE b[1] + 2 * ToNat(Tail(b))
Zero(n) == [i \in 1..n |-> 0]
One(n) == [i \in 1..n |-> IF i = 1 THEN 1 ELSE 0]
Ones(n) == [i \in 1..n |-> 1]
MinS(n) == [i \in 1..n |-> IF i = n THEN 1 ELSE 0]       \* 100..0 : signed minimum
MaxS(n) == [i \in 1..n |-> IF i = n THEN 0 ELSE 1]       \* 011..1 : signed maximum
Not(a) == [i \in 1..Len(a) |-> 1 - a[i]]

RECURSIVE AddC(_, _, _)
AddC(a, b, c) == IF a = << >> THEN << >>
                 ELSE LET s == a[1] + b[1] + c IN <<s % 2>> \o AddC(Tail(a), Tail(b), s \div 2)
BvAdd(a, b) == AddC(a, b, 0)
BvNeg(a) == BvAdd(Not(a), One(Len(a)))
BvSub(a, b) == BvAdd(a, BvNeg(b))
Shl1(a) == <<0>> \o SubSeq(a, 1, Len(a) - 1)
RECURSIVE MulAcc(_, _, _)
MulAcc(a, b, acc) == IF b = << >> THEN acc
                     ELSE MulAcc(Shl1(a), Tail(b), IF b[1] = 1 THEN BvAdd(acc, a) ELSE acc)
BvMul(a, b) == MulAcc(a, b, Zero(Len(a)))
RECURSIVE ULt(_, _)
ULt(a, b) == IF a = << >> THEN FALSE
             ELSE LET n == Len(a) IN
                  IF a[n] # b[n] THEN a[n] < b[n] ELSE ULt(SubSeq(a, 1, n - 1), SubSeq(b, 1, n - 1))
RECURSIVE DivStep(_, _, _, _, _)
DivStep(a, b, i, q, r) ==
  IF i = 0 THEN <<q, r>>
  ELSE LET r1 == <<a[i]>> \o SubSeq(r, 1, Len(r) - 1)
           ge == ~ULt(r1, b)
       IN DivStep(a, b, i - 1, [q EXCEPT ![i] = IF ge THEN 1 ELSE 0], IF ge THEN BvSub(r1, b) ELSE r1)
BvUDivRem(a, b) == DivStep(a, b, Len(a), Zero(Len(a)), Zero(Len(a)))     \* b # 0

Neg(a) == a[Len(a)] = 1
Mag(a) == IF Neg(a) THEN BvNeg(a) ELSE a        \* |a| as an unsigned value (MIN maps to itself: 2^(W-1))
(* signed truncating division: divide the magnitudes, then fix the signs; MIN / -1 wraps *)
BvSDiv(a, b) == LET q == BvUDivRem(Mag(a), Mag(b))[1] IN IF Neg(a) # Neg(b) THEN BvNeg(q) ELSE q
BvSRem(a, b) == LET r == BvUDivRem(Mag(a), Mag(b))[2] IN IF Neg(a) THEN BvNeg(r) ELSE r
SLt(a, b) == IF Neg(a) # Neg(b) THEN Neg(a) ELSE ULt(a, b)

IsZero(a) == \A i \in 1..Len(a) : a[i] = 0
(* result of an arithmetic role: a bit vector, or "trap" for division/remainder by zero *)
Trap == <<2>>
ArithOp(op, signed, a, b) ==
  CASE op = "add" -> BvAdd(a, b)
    [] op = "sub" -> BvSub(a, b)
    [] op = "mul" -> BvMul(a, b)
    [] op = "div" -> IF IsZero(b) THEN Trap ELSE IF signed THEN BvSDiv(a, b) ELSE BvUDivRem(a, b)[1]
    [] op = "mod" -> IF IsZero(b) THEN Trap ELSE IF signed THEN BvSRem(a, b) ELSE BvUDivRem(a, b)[2]
(* a comparison role selects its first continuation iff the relation holds *)
BranchOp(op, signed, a, b) ==
  CASE op = "eq" -> a = b
    [] op = "lt" -> IF signed THEN SLt(a, b) ELSE ULt(a, b)
    [] op = "gt" -> IF signed THEN SLt(b, a) ELSE ULt(b, a)

(* to_string: decimal digits of the magnitude by repeated division by ten, most significant first *)
Ten(n) == ToBv(10, n)
RECURSIVE DecDigits(_)
DecDigits(a) ==        \* a unsigned, Len(a) >= 4
  IF IsZero(a) THEN << >>
  ELSE LET qr == BvUDivRem(a, Ten(Len(a))) IN Append(DecDigits(qr[1]), ToNat(SubSeq(qr[2], 1, 4)))
UDigits(a) == IF IsZero(a) THEN <<0>> ELSE DecDigits(a)
ToDecimal(signed, a) == [neg |-> signed /\ Neg(a), digits |-> UDigits(IF signed THEN Mag(a) ELSE a)]

----------------------------------------------------------------------------
(* Literal range checking on digit strings.                                *)
RECURSIVE StripZeros(_)
StripZeros(d) == IF Len(d) > 1 /\ d[1] = 0 THEN StripZeros(Tail(d)) ELSE d
RECURSIVE LexLe(_, _)
LexLe(x, y) == IF x = << >> THEN TRUE ELSE IF x[1] # y[1] THEN x[1] < y[1] ELSE LexLe(Tail(x), Tail(y))
DigitsLe(x, y) == LET a == StripZeros(x) b == StripZeros(y) IN
                  IF Len(a) # Len(b) THEN Len(a) < Len(b) ELSE LexLe(a, b)
(* decimal expansion of the largest magnitudes of a W-bit type *)
MaxPosDigits(W, signed) == UDigits(IF signed THEN MaxS(W) ELSE Ones(W))
MaxNegDigits(W, signed) == IF signed THEN UDigits(MinS(W)) ELSE <<0>>
InRange(neg, digits, W, signed) ==
  IF neg THEN DigitsLe(digits, MaxNegDigits(W, signed)) ELSE DigitsLe(digits, MaxPosDigits(W, signed))
(* decimal increment / decrement on digit sequences, for "bound + 1" literals *)
RECURSIVE DecInc(_)
DecInc(d) == IF d = << >> THEN <<1>>
             ELSE LET n == Len(d) IN
                  IF d[n] < 9 THEN [d EXCEPT ![n] = d[n] + 1] ELSE Append(DecInc(SubSeq(d, 1, n - 1)), 0)
RECURSIVE DecDec(_)
DecDec(d) == LET n == Len(d) IN      \* d > 0
             IF d[n] > 0 THEN [d EXCEPT ![n] = d[n] - 1] ELSE Append(DecDec(SubSeq(d, 1, n - 1)), 9)

----------------------------------------------------------------------------
(* Types.                                                                  *)
Types == {[n |-> "int8", w |-> 8, s |-> TRUE], [n |-> "int16", w |-> 16, s |-> TRUE],
          [n |-> "int32", w |-> 32, s |-> TRUE], [n |-> "int64", w |-> 64, s |-> TRUE],
          [n |-> "uint8", w |-> 8, s |-> FALSE], [n |-> "uint16", w |-> 16, s |-> FALSE],
          [n |-> "uint32", w |-> 32, s |-> FALSE], [n |-> "uint64", w |-> 64, s |-> FALSE]}
ArithOps == {"add", "sub", "mul", "div", "mod"}
BranchOps == {"eq", "lt", "gt"}

(* boundary operands of a W-bit type as bit patterns *)
Alt(n, first) == [i \in 1..n |-> IF i % 2 = 1 THEN first ELSE 1 - first]
HalfP(n) == [i \in 1..n |-> IF i = (n \div 2) + 1 \/ i = 1 THEN 1 ELSE 0]      \* 2^(W/2) + 1
HalfM(n) == [i \in 1..n |-> IF i <= n \div 2 THEN 1 ELSE 0]                    \* 2^(W/2) - 1
Boundary(n) == {Zero(n), One(n), ToBv(2, n), ToBv(3, n), ToBv(7, n), ToBv(10, n), Ones(n), BvNeg(ToBv(2, n)),
                MinS(n), BvAdd(MinS(n), One(n)), MaxS(n), BvSub(MaxS(n), One(n)),
                HalfP(n), HalfM(n), Alt(n, 1), Alt(n, 0), BvNeg(ToBv(10, n)), BvNeg(HalfP(n))}

----------------------------------------------------------------------------
VARIABLES grp, row
vars == <<grp, row>>
NoRow == [k |-> "none"]

(* group = unit of parallel work; the rows of a group are produced by Next *)
Groups ==
  CASE Task = "laws" -> {[k |-> "laws"]}
    [] Task = "table8" -> {[k |-> "t8", ty |-> t, a |-> a] : t \in {u \in Types : u.w = 8}, a \in 0..255}
    [] Task = "wide" -> {[k |-> "wide", ty |-> t, op |-> op] : t \in {u \in Types : u.w > 8}, op \in ArithOps \cup BranchOps \cup {"to_string"}}
    [] Task = "literals" -> {[k |-> "lit", ty |-> t] : t \in Types} \cup {[k |-> "f32lit"]} \cup {[k |-> "f32const", name |-> c] : c \in {"max", "bnd", "tie", "p128", "p127"}}
    [] Task = "floats" -> {[k |-> "flt", w |-> w] : w \in {32, 64}}

Init == grp \in Groups /\ row = NoRow

Row8(t, a, op) ==
  LET av == ToBv(a, 8) IN
  [k |-> "t8", ty |-> t.n, op |-> op, a |-> a,
   res |-> [b1 \in 1..256 |->
              LET bv == ToBv(b1 - 1, 8) IN
              IF op \in ArithOps
              THEN LET r == ArithOp(op, t.s, av, bv) IN IF r = Trap THEN -1 ELSE ToNat(r)
              ELSE IF BranchOp(op, t.s, av, bv) THEN 1 ELSE 0]]
Str8(t, a) == [k |-> "str", ty |-> t.n, a |-> ToBv(a, 8), str |-> ToDecimal(t.s, ToBv(a, 8))]

RowWide(t, op, a, b) ==
  IF op \in ArithOps THEN [k |-> "arith", ty |-> t.n, op |-> op, a |-> a, b |-> b, res |-> ArithOp(op, t.s, a, b)]
  ELSE [k |-> "branch", ty |-> t.n, op |-> op, a |-> a, b |-> b, first |-> BranchOp(op, t.s, a, b)]

(* literal texts around the boundaries of a type: [neg, digits] *)
LitCases(t) ==
  LET mp == MaxPosDigits(t.w, t.s) mn == MaxNegDigits(t.w, t.s) IN
  {[neg |-> FALSE, digits |-> mp], [neg |-> FALSE, digits |-> DecInc(mp)], [neg |-> FALSE, digits |-> DecDec(mp)],
   [neg |-> TRUE, digits |-> mn], [neg |-> TRUE, digits |-> DecInc(mn)],
   [neg |-> FALSE, digits |-> <<0>>], [neg |-> TRUE, digits |-> <<0>>], [neg |-> TRUE, digits |-> <<1>>],
   [neg |-> FALSE, digits |-> <<0, 0, 7>>], [neg |-> FALSE, digits |-> <<1, 2, 7>>], [neg |-> FALSE, digits |-> <<1, 2, 8>>],
   [neg |-> FALSE, digits |-> <<2, 5, 5>>], [neg |-> FALSE, digits |-> <<2, 5, 6>>], [neg |-> TRUE, digits |-> <<1, 2, 8>>],
   [neg |-> TRUE, digits |-> <<1, 2, 9>>],
   [neg |-> FALSE, digits |-> [i \in 1..30 |-> 9]], [neg |-> TRUE, digits |-> [i \in 1..30 |-> 9]],
   [neg |-> FALSE, digits |-> Append(mp, 0)]}
   \cup (IF mn # <<0>> THEN {[neg |-> TRUE, digits |-> DecDec(mn)]} ELSE {})

(* Float32 literals: "accepted exactly when it stays finite after narrowing".  The literal is read to the  *)
(* nearest binary64 and then narrowed to the nearest binary32 (ties to even both times).  On integer-valued  *)
(* decimal literals that is a comparison of digit strings with one constant: the largest binary32 is        *)
(* 2^128 - 2^104; everything below T = 2^128 - 2^103 narrows to it, T itself is a tie that goes to 2^128    *)
(* (the even neighbour) = infinity; and a decimal within half a binary64 ulp (2^74) of T reads as T.        *)
(* So: finite iff value < B = 2^128 - 2^103 - 2^74 (the tie B reads as T: the even binary64 neighbour).     *)
Pow2(k, n) == [i \in 1..n |-> IF i = k + 1 THEN 1 ELSE 0]
F32T == BvSub(Pow2(128, 132), Pow2(103, 132))
F32B == BvSub(F32T, Pow2(74, 132))
F32Max == BvSub(Pow2(128, 132), Pow2(104, 132))
\* their decimal expansions, written out; tied to the bit patterns by FloatConstants (Horner, checked by TLC in the
\* "literals" task: converting 132-bit patterns to decimal by repeated division takes TLC twenty minutes)
F32MaxD == <<3, 4, 0, 2, 8, 2, 3, 4, 6, 6, 3, 8, 5, 2, 8, 8, 5, 9, 8, 1, 1, 7, 0, 4, 1, 8, 3, 4, 8, 4, 5, 1, 6, 9, 2, 5, 4, 4, 0>>
F32BD == <<3, 4, 0, 2, 8, 2, 3, 5, 6, 7, 7, 9, 7, 3, 3, 6, 4, 2, 7, 4, 8, 0, 7, 3, 4, 6, 3, 9, 7, 9, 5, 6, 1, 7, 1, 3, 6, 6, 4>>
F32TD == <<3, 4, 0, 2, 8, 2, 3, 5, 6, 7, 7, 9, 7, 3, 3, 6, 6, 1, 6, 3, 7, 5, 3, 9, 3, 9, 5, 4, 5, 8, 1, 4, 2, 5, 6, 8, 4, 4, 8>>
P128D == <<3, 4, 0, 2, 8, 2, 3, 6, 6, 9, 2, 0, 9, 3, 8, 4, 6, 3, 4, 6, 3, 3, 7, 4, 6, 0, 7, 4, 3, 1, 7, 6, 8, 2, 1, 1, 4, 5, 6>>
P127D == <<1, 7, 0, 1, 4, 1, 1, 8, 3, 4, 6, 0, 4, 6, 9, 2, 3, 1, 7, 3, 1, 6, 8, 7, 3, 0, 3, 7, 1, 5, 8, 8, 4, 1, 0, 5, 7, 2, 8>>
\* Horner's rule one digit per TLC step (group "f32const": states are evaluated strictly, whereas an accumulating
\* operator or recursive function is evaluated lazily by TLC and re-evaluates its accumulator exponentially often)
Mul10(a) == BvAdd(Shl1(Shl1(Shl1(a))), Shl1(a))
F32Consts == [max |-> [d |-> F32MaxD, b |-> F32Max], bnd |-> [d |-> F32BD, b |-> F32B], tie |-> [d |-> F32TD, b |-> F32T],
              p128 |-> [d |-> P128D, b |-> Pow2(128, 132)], p127 |-> [d |-> P127D, b |-> Pow2(127, 132)]]
HornerStep(r) == [r EXCEPT !.i = r.i + 1, !.acc = BvAdd(Mul10(r.acc), ToBv(F32Consts[r.name].d[r.i + 1], 132))]
FloatConstants == (row.k = "acc" /\ row.i = Len(F32Consts[row.name].d)) => row.acc = F32Consts[row.name].b
F32Finite(digits) == DigitsLe(digits, DecDec(F32BD))
F32LitCases ==
  LET pts == {F32MaxD, F32BD, F32TD, P128D, P127D}
      around == UNION {{d, DecInc(d), DecDec(d)} : d \in pts}
      more == {<<0>>, <<1>>, <<1, 6, 7, 7, 7, 2, 1, 7>>, <<3>> \o [i \in 1..38 |-> 0], <<4>> \o [i \in 1..38 |-> 0],
               <<3, 4, 0, 2, 8, 2, 3, 5>> \o [i \in 1..31 |-> 0], <<3, 4, 0, 2, 8, 2, 3, 6>> \o [i \in 1..31 |-> 0],
               <<3, 5>> \o [i \in 1..37 |-> 0], [i \in 1..39 |-> 9], <<1>> \o [i \in 1..39 |-> 0]}
  IN {[neg |-> n, digits |-> d] : n \in BOOLEAN, d \in around \cup more}

(* IEEE-754 arithmetic on INTEGER-VALUED operands - the slice of "arithmetic at that width" that integers decide: *)
(* binary64 represents every integer below 2^53 exactly; binary32 has a 24-bit significand, so an exact integer     *)
(* result r with |r| >= 2^24 is rounded to the nearest multiple of 2^(bits(r) - 24), ties to the even multiple.     *)
(* An operation carried out at the wrong width (Float32 in binary64 or the reverse) differs exactly there.          *)
IAbs(x) == IF x < 0 THEN -x ELSE x
BitLen(a) == CHOOSE k \in 0..31 : a < 2 ^ k /\ (k = 0 \/ a >= 2 ^ (k - 1))
F32Round(n) ==
  LET a == IAbs(n) IN
  IF a < 2 ^ 24 THEN n
  ELSE LET step == 2 ^ (BitLen(a) - 24)
           q == a \div step
           rem == a % step
           up == rem * 2 > step \/ (rem * 2 = step /\ q % 2 = 1)
           r == (IF up THEN q + 1 ELSE q) * step
       IN IF n < 0 THEN -r ELSE r
FloatInts == {0, 1, 2, 3, 7, 4097, 8191, 16777215, 16777216, 16777218, 16777220, 33554430, 33554432, 50331648, 268435456,
              -1, -3, -4097, -16777215, -16777216, -16777218, -33554432}
FloatIntOps == {"add", "sub", "mul"}
Exact(op, x, y) == CASE op = "add" -> x + y [] op = "sub" -> x - y [] op = "mul" -> x * y
\* TLC's integers are 32-bit: only rows whose exact result stays below 2^30 (mul: operands below 2^15)
ArgsOk(op, x, y) == IF op = "mul" THEN IAbs(x) < 32768 /\ IAbs(y) < 32768 ELSE IAbs(x) < 2 ^ 29 /\ IAbs(y) < 2 ^ 29
FloatIntRows(w) == {[k |-> "farith", w |-> w, op |-> t[1], x |-> t[2], y |-> t[3],
                     r |-> IF w = 32 THEN F32Round(Exact(t[1], t[2], t[3])) ELSE Exact(t[1], t[2], t[3])] :
                    t \in {u \in FloatIntOps \X FloatInts \X FloatInts : ArgsOk(u[1], u[2], u[3])}}
FloatIntOk(r) == TRUE
\* rounding laws TLC checks: idempotent, monotone, exact below 2^24, error at most half a step
F32RoundLaws == \A n \in {16777215, 16777216, 16777217, 16777218, 16777219, 33554431, 33554433, 33554434, 50331649, 100000001, -16777217, -33554435} :
                  /\ F32Round(F32Round(n)) = F32Round(n)
                  /\ IAbs(F32Round(n) - n) * 2 <= 2 ^ (BitLen(IAbs(n)) - 24)
                  /\ F32Round(n + 1) >= F32Round(n)

(* IEEE comparison on special values: class, sign, rank of the magnitude *)
FloatVals == {[n |-> "pzero", c |-> "num", neg |-> FALSE, r |-> 0], [n |-> "nzero", c |-> "num", neg |-> TRUE, r |-> 0],
              [n |-> "psub", c |-> "num", neg |-> FALSE, r |-> 1], [n |-> "nsub", c |-> "num", neg |-> TRUE, r |-> 1],
              [n |-> "pone", c |-> "num", neg |-> FALSE, r |-> 2], [n |-> "none", c |-> "num", neg |-> TRUE, r |-> 2],
              [n |-> "pmax", c |-> "num", neg |-> FALSE, r |-> 3], [n |-> "nmax", c |-> "num", neg |-> TRUE, r |-> 3],
              [n |-> "pinf", c |-> "num", neg |-> FALSE, r |-> 4], [n |-> "ninf", c |-> "num", neg |-> TRUE, r |-> 4],
              [n |-> "nan", c |-> "nan", neg |-> FALSE, r |-> 0]}
Signed(x) == IF x.neg THEN -x.r ELSE x.r        \* -0 and +0 both map to 0
FloatRel(op, x, y) ==
  IF x.c = "nan" \/ y.c = "nan" THEN FALSE       \* unordered: every comparison is false
  ELSE CASE op = "eq" -> Signed(x) = Signed(y) [] op = "lt" -> Signed(x) < Signed(y) [] op = "gt" -> Signed(x) > Signed(y)

Next ==
  /\ (row = NoRow \/ (grp.k = "f32const" /\ row.k = "acc"))
  /\ UNCHANGED grp
  /\ CASE grp.k = "laws" -> row' = [k |-> "laws-done"]
       [] grp.k = "t8" -> \/ \E op \in ArithOps \cup BranchOps : row' = Row8(grp.ty, grp.a, op)
                          \/ row' = Str8(grp.ty, grp.a)
       [] grp.k = "wide" ->
            IF grp.op = "to_string"
            THEN \E a \in Boundary(grp.ty.w) : row' = [k |-> "str", ty |-> grp.ty.n, a |-> a, str |-> ToDecimal(grp.ty.s, a)]
            ELSE \E a \in Boundary(grp.ty.w), b \in Boundary(grp.ty.w) : row' = RowWide(grp.ty, grp.op, a, b)
       [] grp.k = "lit" -> \E c \in LitCases(grp.ty) :
            row' = [k |-> "lit", ty |-> grp.ty.n, neg |-> c.neg, digits |-> c.digits,
                    accept |-> InRange(c.neg, c.digits, grp.ty.w, grp.ty.s)]
       [] grp.k = "f32const" ->
            IF row = NoRow THEN row' = [k |-> "acc", name |-> grp.name, i |-> 0, acc |-> Zero(132)]
            ELSE row.i < Len(F32Consts[row.name].d) /\ row' = HornerStep(row)
       [] grp.k = "f32lit" -> \E c \in F32LitCases :
            row' = [k |-> "f32lit", neg |-> c.neg, digits |-> c.digits, accept |-> F32Finite(c.digits)]
       [] grp.k = "flt" -> \/ \E x \in FloatVals, y \in FloatVals, op \in BranchOps :
                                row' = [k |-> "flt", w |-> grp.w, op |-> op, x |-> x.n, y |-> y.n, first |-> FloatRel(op, x, y)]
                           \/ \E r \in {q \in FloatIntRows(grp.w) : FloatIntOk(q)} : row' = r
Spec == Init /\ [][Next]_vars

Report == (row # NoRow /\ row.k \notin {"laws-done", "acc"}) => PrintT(<<"REPLAY", ToJson(row)>>)

----------------------------------------------------------------------------
(* The operators equal mathematics where TLC can count.                    *)
SignedVal(x, W) == IF x >= 2 ^ (W - 1) THEN x - 2 ^ W ELSE x
Wrap(x, W) == ((x % (2 ^ W)) + 2 ^ W) % (2 ^ W)
Abs(x) == IF x < 0 THEN -x ELSE x
TDiv(a, b) == LET q == Abs(a) \div Abs(b) IN IF (a < 0) = (b < 0) THEN q ELSE -q
TRem(a, b) == a - b * TDiv(a, b)
MathAll(W) == \A x \in 0..(2 ^ W - 1), y \in 0..(2 ^ W - 1) :
   LET a == ToBv(x, W) b == ToBv(y, W) sx == SignedVal(x, W) sy == SignedVal(y, W) IN
   /\ ToNat(BvAdd(a, b)) = Wrap(x + y, W) /\ ToNat(BvSub(a, b)) = Wrap(x - y, W) /\ ToNat(BvMul(a, b)) = Wrap(x * y, W)
   /\ ULt(a, b) = (x < y) /\ SLt(a, b) = (sx < sy)
   /\ (y # 0 => /\ ToNat(BvUDivRem(a, b)[1]) = x \div y /\ ToNat(BvUDivRem(a, b)[2]) = x % y
                /\ ToNat(BvSDiv(a, b)) = Wrap(TDiv(sx, sy), W) /\ ToNat(BvSRem(a, b)) = Wrap(TRem(sx, sy), W))
MathFast8 == \A x \in 0..255, y \in 0..255 :
   LET a == ToBv(x, 8) b == ToBv(y, 8) IN
   /\ ToNat(BvAdd(a, b)) = Wrap(x + y, 8) /\ ToNat(BvSub(a, b)) = Wrap(x - y, 8)
   /\ ULt(a, b) = (x < y) /\ SLt(a, b) = (SignedVal(x, 8) < SignedVal(y, 8))
(* algebraic laws at W = 8 on a sample of pairs: (a div b) * b + (a rem b) = a ; a - b = a + (-b) *)
Laws8 == \A x \in 0..255, y \in {1, 2, 3, 7, 10, 127, 128, 129, 200, 255} :
   LET a == ToBv(x, 8) b == ToBv(y, 8) IN
   /\ BvAdd(BvMul(BvSDiv(a, b), b), BvSRem(a, b)) = a
   /\ BvAdd(BvMul(BvUDivRem(a, b)[1], b), BvUDivRem(a, b)[2]) = a
   /\ BvSub(a, b) = BvAdd(a, BvNeg(b))
   /\ (IsZero(BvSRem(a, b)) \/ Neg(BvSRem(a, b)) = Neg(a))
MinOverMinusOne == \A W \in {8, 16, 32, 64} : BvSDiv(MinS(W), Ones(W)) = MinS(W) /\ IsZero(BvSRem(MinS(W), Ones(W)))
(* the digit-string range predicate agrees with numeric comparison for all literals within +-300 at W = 8 *)
RECURSIVE NatDigits(_)
NatDigits(n) == IF n < 10 THEN <<n>> ELSE Append(NatDigits(n \div 10), n % 10)
InRange8 == \A v \in -300..300 :
   /\ InRange(v < 0, NatDigits(Abs(v)), 8, TRUE) = (v >= -128 /\ v <= 127)
   /\ InRange(v < 0, NatDigits(Abs(v)), 8, FALSE) = ((v >= 0 /\ v <= 255) \/ v = 0)
ToDecimal8 == \A x \in 0..255 : ToDecimal(FALSE, ToBv(x, 8)).digits = NatDigits(x)
                                /\ ToDecimal(TRUE, ToBv(x, 8)).digits = NatDigits(Abs(SignedVal(x, 8)))
LawsHold == (Task = "laws" /\ row.k = "laws-done") =>
   /\ MathAll(4) /\ MathAll(5) /\ MathFast8 /\ Laws8 /\ MinOverMinusOne /\ InRange8 /\ ToDecimal8 /\ F32RoundLaws
=============================================================================
