\* the design as implemented by salsa: the writer waits for running snapshots; pending slot excluded (Callers = {})
SPECIFICATION Spec
CONSTANTS
  Analysers = {a1, a2}
  Files = {f1, f2}
  Vals = {0, 1}
  MaxWrites = 2
  WriterWaits = TRUE
  Callers = {}
  Memoised = FALSE
INVARIANTS Isolation OwnAnswer
PROPERTY WriteCompletes
