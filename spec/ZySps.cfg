SPECIFICATION Spec
INVARIANTS WFReport RunReport
CHECK_DEADLOCK FALSE
