------------------------- MODULE ZyDeterminismTrace -------------------------
(***************************************************************************)
(* C16: tool output is a function of the sources.  A run is                *)
(*      Output(cmd, file, instance)                                        *)
(* where the instance (process: SipHash keys, ASLR) is hidden state; the   *)
(* property is  \A i, j : Output(c, f, i) = Output(c, f, j).               *)
(* The harness runs every command on every file of the corpus in N fresh   *)
(* processes and logs (cmd, file, run, exit status, digest of stdout,      *)
(* digest of stderr).  The trace is accepted iff all records of one        *)
(* (cmd, file) carry the same observation.  The design-level half - every  *)
(* hash-ordered iteration that reaches an output is followed by a sort on  *)
(* a source-order key, so all iteration orders give one result - is the    *)
(* invariant OrderConfluent of ZyGraph.tla (checked by the same command).  *)
(***************************************************************************)
EXTENDS Json, IOUtils, TLC, Sequences, Naturals, FiniteSets

Rec == ndJsonDeserialize(IOEnv.TRACE)
VARIABLES l, seen
vars == <<l, seen>>
Obs(e) == [cmd |-> e.cmd, file |-> e.file, exit |-> e.exit, out |-> e.out, err |-> e.err]
Init == l = 1 /\ seen = {}
Next == /\ l <= Len(Rec)
        /\ \A o \in seen : (o.cmd = Rec[l].cmd /\ o.file = Rec[l].file) => o = Obs(Rec[l])
        /\ seen' = seen \cup {Obs(Rec[l])}
        /\ l' = l + 1
Spec == Init /\ [][Next]_vars
Accepted ==
  \/ TLCGet("stats").diameter - 1 = Len(Rec)
  \/ Print(<<"TRACE-REJECTED-AT", TLCGet("stats").diameter>>, FALSE)
=============================================================================
