CONSTANTS MaxCmds = 2
SPECIFICATION Spec
INVARIANT Inv
INVARIANT Emit
PROPERTY BadUntouched
CHECK_DEADLOCK FALSE
