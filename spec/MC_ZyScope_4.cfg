SPECIFICATION Spec
CONSTANTS
  MaxLen = 4
  CheckAlpha = TRUE
INVARIANTS BoundaryHygiene AlphaInvariance Report
CHECK_DEADLOCK FALSE
