SPECIFICATION Spec
CONSTANTS
  MaxLen = 4
  Vocab = "full"
  CheckAlpha = TRUE
INVARIANTS BoundaryHygiene AlphaInvariance Report
CHECK_DEADLOCK FALSE
