\* every SET of patterns over a data type with 11 constructors (4096 matrices)
SPECIFICATION Spec
CONSTANTS
  MaxRows = 12
  Depth = 1
  Ordered = TRUE
  TypeNames = {"Wide"}
INVARIANTS Agree WitnessSound WitnessComplete ArmAlwaysFound Report
CHECK_DEADLOCK FALSE
