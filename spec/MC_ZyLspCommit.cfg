SPECIFICATION Spec
CONSTANTS
  Tasks = {t1, t2}
  MaxEdits = 3
  CheckRevision = TRUE
INVARIANTS CommitFresh UpdatedIsCurrent
CHECK_DEADLOCK FALSE
