\* scenario configuration: escaping closures re-entered in a second activation (pure closures and thunks)
SPECIFICATION Spec
CONSTANTS
  MaxLen = 29
  Fuel = 200
  Prods = {"sc-escape", "arith"}
  Faults = {}
  Root = "os"
  BindTys = {"int"}
  IntLits = {1, 2}
INVARIANTS GenSound TypeSafety Report
CHECK_DEADLOCK FALSE
