------------------------------ MODULE ZyBlocks ------------------------------
(***************************************************************************)
(* C08, language half: the meaning of a `begin ... end` block is a         *)
(* function of the dependency graph of its `that` contributions and of the *)
(* relative order of its parameters, not of the textual order.             *)
(*                                                                         *)
(* A block has N contributions.  Contribution i is one of                  *)
(*   "param"  param p_i : Int64 that                                       *)
(*   "val"    let t_i : Thk (Ret Int64) = { ...forces the vals and reads   *)
(*            the params it depends on, mentions the defs it depends on }  *)
(*   "def"    def D_i : VType = data | +C_i : Unit | +R_ij : D_j ... end   *)
(* and the edge set G says who refers to whom (vals may refer to anything, *)
(* defs to defs; self references included).  `pos` is the textual order.   *)
(* The elaboration of blocks.rs (dependency-ordered telescope; recursive   *)
(* components only among type definitions) gives:                          *)
(*   accepted  iff  no val and no transparent alias lies on a cycle,       *)
(*   argument order = parameters by dependency LEVEL (length of the        *)
(*   longest reference chain below them), then by their relative textual   *)
(*   order - the level-by-level order of BindingContext (ZyGraph),         *)
(*   result    =    a fixed arithmetic function of G and the arguments,    *)
(* independent of pos.  Every (kinds, G, pos) is printed for replay.       *)
(***************************************************************************)
EXTENDS Integers, Sequences, FiniteSets, TLC, Json
CONSTANT N

Nodes == 1..N
Kinds == {"param", "val", "def", "ty"}
Perms == {p \in [1..N -> Nodes] : \A i, j \in 1..N : i # j => p[i] # p[j]}

VARIABLES kinds, G, pos,
          site      \* where a value contribution mentions the type aliases it depends on: in its right-hand side
                    \* ("rhs"), in the annotation of the binding ("ann": let t : Thk (Ret T) = ..) or in an annotation
                    \* inside the binder PATTERN ("pat": let (t : Thk (Ret T)) = ..) - a dependency wherever it is written
vars == <<kinds, G, pos, site>>
Sites == {"rhs", "ann", "pat"}

Allowed(k) == {e \in Nodes \X Nodes :
                 \/ k[e[1]] = "val"
                 \/ k[e[1]] = "def" /\ k[e[2]] = "def"
                 \/ k[e[1]] \in {"param", "ty"} /\ k[e[2]] = "ty"}
(* an alias equals one type and a parameter has one annotation: at most one reference each *)
SingleRef(k, g) == \A x \in Nodes : k[x] \in {"param", "ty"} => Cardinality({e \in g : e[1] = x}) <= 1
(* parameters keep their relative order in the text: that order is the argument order *)
ParamsOrdered(k, p) == \A a, b \in 1..N : (a < b /\ k[p[a]] = "param" /\ k[p[b]] = "param") => p[a] < p[b]

Init == /\ kinds \in [Nodes -> Kinds]
        /\ G \in {g \in SUBSET Allowed(kinds) : SingleRef(kinds, g)}
        /\ pos \in {p \in Perms : ParamsOrdered(kinds, p)}
        /\ site \in (IF \E e \in G : kinds[e[1]] = "val" /\ kinds[e[2]] = "ty" THEN Sites ELSE {"rhs"})
Next == UNCHANGED vars
Spec == Init /\ [][Next]_vars

Succ(x) == {y \in Nodes : <<x, y>> \in G}
RECURSIVE ReachN(_, _)
ReachN(S, n) == IF n = 0 THEN S ELSE ReachN(S \cup UNION {Succ(x) : x \in S}, n - 1)
ReachPlus(x) == ReachN(Succ(x), N)                 \* nodes reachable by >= 1 edge
OnCycle(x) == x \in ReachPlus(x)

Accepted == \A x \in Nodes : kinds[x] \in {"val", "ty"} => ~OnCycle(x)

(* dependency level: longest reference chain below a node (only evaluated on acyclic parts) *)
RECURSIVE Level(_, _)
Level(x, fuel) == IF fuel = 0 \/ Succ(x) \ {x} = {} THEN 0
                  ELSE 1 + (CHOOSE m \in {Level(y, fuel - 1) : y \in Succ(x) \ {x}} :
                              \A n \in {Level(y, fuel - 1) : y \in Succ(x) \ {x}} : m >= n)
Params == {x \in Nodes : kinds[x] = "param"}
RECURSIVE SortParams(_)
SortParams(S) == IF S = {} THEN << >>
                 ELSE LET x == CHOOSE x \in S : \A y \in S : <<Level(x, N), x>> = <<Level(y, N), y>> \/ Level(x, N) < Level(y, N)
                                                              \/ (Level(x, N) = Level(y, N) /\ x < y)
                      IN <<x>> \o SortParams(S \ {x})
ArgOrder == SortParams(Params)

Arg(i) == 3 * i
RECURSIVE ValOf(_, _)
ValOf(i, fuel) ==        \* only evaluated when Accepted (vals are acyclic), fuel guards the recursion anyway
  IF fuel = 0 THEN 0 ELSE
  LET RECURSIVE Sum(_)
      Sum(S) == IF S = {} THEN 0
                ELSE LET d == CHOOSE d \in S : TRUE IN
                     (CASE kinds[d] = "val" -> ValOf(d, fuel - 1)
                        [] kinds[d] = "param" -> Arg(d)
                        [] OTHER -> 0) + Sum(S \ {d})
  IN 7 * i + Sum(Succ(i))
RECURSIVE Total(_)
Total(S) == IF S = {} THEN 0
            ELSE LET i == CHOOSE i \in S : TRUE IN
                 (CASE kinds[i] = "val" -> (i + 1) * ValOf(i, N + 1)
                    [] kinds[i] = "param" -> (i + 2) * Arg(i)
                    [] OTHER -> 0) + Total(S \ {i})
Code == Total(Nodes) % 256

(* the statement itself: the prediction does not mention pos *)
EdgeSeq == LET RECURSIVE F(_) F(S) == IF S = {} THEN << >> ELSE LET e == CHOOSE e \in S : TRUE IN <<e>> \o F(S \ {e}) IN F(G)
Report == PrintT(<<"REPLAY", ToJson([n |-> N, kinds |-> kinds, edges |-> EdgeSeq, pos |-> pos, site |-> site,
                     accepted |-> Accepted, code |-> IF Accepted THEN Code ELSE -1,
                     args |-> IF Accepted THEN ArgOrder ELSE << >>])>>)
=============================================================================
