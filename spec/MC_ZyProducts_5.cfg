CONSTANT MaxArity = 5
SPECIFICATION Spec
INVARIANTS Covers Report
CHECK_DEADLOCK FALSE
