\* all 512 digraphs on 3 nodes x all 6 iteration orders x every piecemeal release schedule
SPECIFICATION Spec
CONSTANTS
  N = 3
  Orders = "all"
  Mode = "algorithm"
INVARIANTS ComponentsCorrect TopCorrect TopSound TopComplete MapsConsistent EmittedOnceDepsFirst TopoOrderOK OrderConfluent
CHECK_DEADLOCK FALSE
