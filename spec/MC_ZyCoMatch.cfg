SPECIFICATION Spec
CONSTANTS
  MaxDtors = 3
  MaxArms = 4
INVARIANTS OkIsBijection DispatchDefined Report
CHECK_DEADLOCK FALSE
