\* generated by hand-run script in tools/; constants documented in DESIGN.md §C01-C03
SPECIFICATION Spec
CONSTANTS
  MaxLen = 9
  Fuel = 80
  Prods = {"app", "let", "arith", "div", "str", "br", "data", "pair", "codata", "fix"}
  Faults = {}
  Root = "os"
  BindTys = {"int", "str", "O", "pib", "tP", "tfi"}
  IntLits = {0, 3}
INVARIANTS GenSound TypeSafety Report
CHECK_DEADLOCK FALSE
