CONSTANT MaxArity = 7
SPECIFICATION Spec
INVARIANTS Covers Report
CHECK_DEADLOCK FALSE
