\* files a.zy a.zyi b.zy b.zyi, all exist: all 65536 import configurations
SPECIFICATION Spec
CONSTANTS
  NF = 4
  AllExist = TRUE
INVARIANTS ErrorIffMissing LoadedOnce EdgesComplete CycleIff StepsValid ProvidersOK Report
CHECK_DEADLOCK FALSE
