SPECIFICATION Spec
CONSTANT N = 3
INVARIANT Report
CHECK_DEADLOCK FALSE
