------------------------------- MODULE ZyLexer -------------------------------
(***************************************************************************)
(* The parser-facing lexer as a machine over token CLASSES (C11; also the  *)
(* lexical must-reject predicate used by C10 and C13).                     *)
(*                                                                         *)
(* Classes:  Code (an ordinary token), Open `/-`, Close `-/`, Line (a      *)
(* `--` comment: one token that swallows the rest of its line, markers     *)
(* included), Str (a string literal whose content contains comment         *)
(* markers: opaque), Unknown (a character outside the vocabulary).         *)
(* Actions mirror `impl Iterator for Lexer` (lexer.rs): line comments are  *)
(* skipped at any depth; Open increments the depth; Close decrements it;   *)
(* tokens at depth > 0 are skipped; everything else is emitted.            *)
(*                                                                         *)
(* Two design switches name the places where a lexer can end the token     *)
(* stream early:                                                           *)
(*   StrayClose = "end"   a `-/` at depth 0 ends the stream (break None)   *)
(*              = "emit"  it is handed to the grammar, which rejects it    *)
(*   AtEof      = "silent" end of input inside a comment is just the end   *)
(*              = "error"  it is reported                                  *)
(* NoSilentTruncation holds exactly for ("emit", "error"): that is the     *)
(* design the conformance check binds the code to; TLC refutes the other   *)
(* combinations (kept as MC_ZyLexer_pinned.cfg for the self test).         *)
(***************************************************************************)
EXTENDS Naturals, Sequences, TLC, Json
CONSTANTS MaxLen, StrayClose, AtEof

Classes == {"Code", "Open", "Close", "Line", "Str", "Unknown"}
Emittable == {"Code", "Str", "Unknown"}

VARIABLES input, pos, depth, emitted, ended, error
vars == <<input, pos, depth, emitted, ended, error>>

Init == /\ input \in UNION {[1..n -> Classes] : n \in 0..MaxLen}
        /\ pos = 1 /\ depth = 0 /\ emitted = << >> /\ ended = FALSE /\ error = FALSE

Tok == input[pos]
Live == ~ended /\ pos <= Len(input)
Advance == pos' = pos + 1 /\ UNCHANGED input

SkipLine  == Live /\ Tok = "Line" /\ Advance /\ UNCHANGED <<depth, emitted, ended, error>>
OpenC     == Live /\ Tok = "Open" /\ Advance /\ depth' = depth + 1 /\ UNCHANGED <<emitted, ended, error>>
CloseC    == Live /\ Tok = "Close" /\ depth > 0 /\ Advance /\ depth' = depth - 1 /\ UNCHANGED <<emitted, ended, error>>
EndOnStrayClose ==
             Live /\ Tok = "Close" /\ depth = 0 /\ StrayClose = "end"
             /\ ended' = TRUE /\ UNCHANGED <<input, pos, depth, emitted, error>>
EmitStrayClose ==
             Live /\ Tok = "Close" /\ depth = 0 /\ StrayClose = "emit"
             /\ Advance /\ emitted' = Append(emitted, pos) /\ error' = TRUE /\ UNCHANGED <<depth, ended>>
SkipInComment == Live /\ Tok \in Emittable /\ depth > 0 /\ Advance /\ UNCHANGED <<depth, emitted, ended, error>>
EmitTok   == Live /\ Tok \in Emittable /\ depth = 0 /\ Advance
             /\ emitted' = Append(emitted, pos) /\ error' = (error \/ Tok = "Unknown") /\ UNCHANGED <<depth, ended>>
(* End of input.  Inside a comment the "error" design hands the grammar one zero-width token    *)
(* at the end offset (position Len(input) + 1), which no term can contain.                     *)
Eof       == ~ended /\ pos > Len(input) /\ ended' = TRUE
             /\ error' = (error \/ (depth > 0 /\ AtEof = "error"))
             /\ emitted' = (IF depth > 0 /\ AtEof = "error" THEN Append(emitted, Len(input) + 1) ELSE emitted)
             /\ UNCHANGED <<input, pos, depth>>

Next == SkipLine \/ OpenC \/ CloseC \/ EndOnStrayClose \/ EmitStrayClose \/ SkipInComment \/ EmitTok \/ Eof
Spec == Init /\ [][Next]_vars

(* Independent reading of the same input - what the tooling lexer (LexicalTokens) sees:        *)
(* nesting depth before position i, where a stray Close does not change the depth.             *)
RECURSIVE DepthBefore(_)
DepthBefore(i) ==
  IF i = 1 THEN 0
  ELSE LET d == DepthBefore(i - 1) t == input[i - 1] IN
       IF t = "Open" THEN d + 1 ELSE IF t = "Close" /\ d > 0 THEN d - 1 ELSE d

OutsideComments == {i \in 1..Len(input) : input[i] \in Emittable /\ DepthBefore(i) = 0}
Irregular == \/ \E i \in 1..Len(input) : input[i] = "Close" /\ DepthBefore(i) = 0
             \/ DepthBefore(Len(input) + 1) > 0
             \/ \E i \in OutsideComments : input[i] = "Unknown"
Range(s) == {s[i] : i \in 1..Len(s)}

(* C11: when the stream has ended, either an error is raised or every token outside comments    *)
(* reached the parser and nothing irregular happened.                                           *)
NoSilentTruncation == ended => (error \/ (OutsideComments \subseteq Range(emitted) /\ ~Irregular))
(* an error never hides code either: up to the first irregularity everything outside comments is emitted *)
(* the machine and the independent reading agree about what is outside comments                 *)
EmittedIsOutside == (ended /\ ~error) => Range(emitted) = OutsideComments
(* the comment depth never underflows and is bounded by the number of opens                     *)
DepthSane == depth <= Len(input)

(* a file is acceptable only if it is regular and has at least one code token (the grammar      *)
(* needs a term); what the parser does with regular token streams is the grammar's business     *)
MustReject == error \/ OutsideComments = {}
Report == ended => PrintT(<<"REPLAY", ToJson([input |-> input, emitted |-> emitted, mustreject |-> MustReject])>>)
=============================================================================
