SPECIFICATION Spec
CONSTANTS
  Part = "parse"
  MaxStr = 4
  MaxOps = 4
INVARIANTS TextLaws ClosedStaysClosed NoResurrection StdHandlesPermanent Report
CHECK_DEADLOCK FALSE
