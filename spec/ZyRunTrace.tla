----------------------------- MODULE ZyRunTrace -----------------------------
(***************************************************************************)
(* Trace validation (code -> spec) for C01 beyond the generated core       *)
(* language: every run of a program the real checker accepted as an        *)
(* executable (repository sources and checker-accepted mutants of them,    *)
(* varied stdin/argv) is one trace event; the event is accepted iff the    *)
(* recorded end state is one of ZyCore's defined terminal/progress states: *)
(* an exit code, a returned value, still stepping at the bound, the        *)
(* arithmetic trap, or a host I/O failure - never a Stuck state.           *)
(* The trace file is named by the environment variable TRACE.              *)
(***************************************************************************)
EXTENDS Json, IOUtils, TLC, Sequences, Naturals

Rec == ndJsonDeserialize(IOEnv.TRACE)

VARIABLE l
vars == <<l>>

DefinedEnd(e) ==
  \/ e.class \in {"Exit", "Ret", "Running"}
  \/ e.class = "Panic" /\ e.pclass \in {"Trap", "HostIo"}

(* An accepted analysis that is not an executable (a library, a type) has  *)
(* no run: nothing to check.                                               *)
EventOk(ev) == (ev.accepted /\ ev.executable) => DefinedEnd(ev.end)

Init == l = 1
Next == /\ l <= Len(Rec)
        /\ EventOk(Rec[l])
        /\ l' = l + 1
Spec == Init /\ [][Next]_vars

(* One state per consumed event plus the initial state. *)
Accepted ==
  \/ TLCGet("stats").diameter - 1 = Len(Rec)
  \/ Print(<<"TRACE-REJECTED-AT", TLCGet("stats").diameter>>, FALSE)
=============================================================================
