------------------------- MODULE ZySessionConcTrace -------------------------
(***************************************************************************)
(* Trace validation (code -> spec) for C17.  A stress run (owner thread    *)
(* editing and taking snapshots, k analyser threads running the queries on *)
(* their snapshots under salsa::Cancelled::catch, allocator threads) is    *)
(* logged as events:                                                       *)
(*   snapshot : id, the effective contents (ZySession variants) the owner  *)
(*              had installed when it took the snapshot                    *)
(*   result   : id, the abstracted answers the analyser obtained, or       *)
(*              "cancelled"                                                *)
(*   keyspaces: the key-space ids obtained by one allocator thread         *)
(* The sequential oracle is ZySession's from-scratch Answer evaluated on   *)
(* the SNAPSHOT's contents: a result is accepted iff it is "cancelled" or  *)
(* equals that answer (never a mixture of two revisions, never a panic).   *)
(* Key spaces must be pairwise distinct across all threads.                *)
(***************************************************************************)
EXTENDS ZySession, IOUtils

Rec == ndJsonDeserialize(IOEnv.TRACE)
VARIABLES l, snaps, spaces
tvars == <<start, disk, overlay, hist, pend, l, snaps, spaces>>
Ev == Rec[l]

TInit == /\ l = 1 /\ start = "trace" /\ hist = << >> /\ pend = NoOp
         /\ disk = [f \in Files |-> ABSENT] /\ overlay = [f \in Files |-> NONE]
         /\ snaps = << >> /\ spaces = {}

(* install the snapshot's contents as the model state so that Answer speaks about them *)
Snapshot == /\ l <= Len(Rec) /\ Ev.ev = "snapshot"
            /\ disk' = [f \in Files |-> Ev.eff[f]] /\ overlay' = [f \in Files |-> NONE]
            /\ l' = l + 1 /\ UNCHANGED <<start, hist, pend, snaps, spaces>>
AnswerMatches(a) ==
  LET m == Answer IN
  /\ a.graph = m.graph.k
  /\ (m.graph.k \in {"missing", "parse"} => a.at = m.graph.at)
  /\ (m.graph.k = "ok" => {a.files[i] : i \in 1..Len(a.files)} = m.graph.files)
  /\ a.analyze = m.analyze
  /\ a.exe = m.exe
(* results are logged right after the snapshot event they belong to (the harness groups them) *)
Result == /\ l <= Len(Rec) /\ Ev.ev = "result"
          /\ (Ev.cancelled \/ AnswerMatches(Ev.answer))
          /\ l' = l + 1 /\ UNCHANGED <<start, disk, overlay, hist, pend, snaps, spaces>>
KeySpaces == /\ l <= Len(Rec) /\ Ev.ev = "keyspaces"
             /\ LET new == {Ev.ids[i] : i \in 1..Len(Ev.ids)} IN
                /\ Cardinality(new) = Len(Ev.ids)          \* distinct within the thread
                /\ new \cap spaces = {}                     \* and across threads
                /\ 0 \notin new
                /\ spaces' = spaces \cup new
             /\ l' = l + 1 /\ UNCHANGED <<start, disk, overlay, hist, pend, snaps>>
TNext == Snapshot \/ Result \/ KeySpaces
TSpec == TInit /\ [][TNext]_tvars

TraceAccepted ==
  \/ TLCGet("stats").diameter - 1 = Len(Rec)
  \/ Print(<<"TRACE-REJECTED-AT", TLCGet("stats").diameter>>, FALSE)
=============================================================================
