SPECIFICATION Spec
CONSTANTS
  Part = "text"
  MaxStr = 3
  MaxOps = 4
INVARIANTS TextLaws ClosedStaysClosed NoResurrection StdHandlesPermanent Report
CHECK_DEADLOCK FALSE
