SPECIFICATION TSpec
CONSTANTS
  MaxOps = 0
  Starts = {}
POSTCONDITION TraceAccepted
CHECK_DEADLOCK FALSE
