SPECIFICATION Spec
CONSTANTS
  MaxRows = 4
  Depth = 2
  Ordered = FALSE
  TypeNames = {"Bool", "Opt", "One", "Pair", "Unit", "Empty"}
INVARIANTS Agree WitnessSound WitnessComplete ArmAlwaysFound RowOrderIrrelevant Report
CHECK_DEADLOCK FALSE
