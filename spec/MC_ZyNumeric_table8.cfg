SPECIFICATION Spec
CONSTANT Task = "table8"
INVARIANTS LawsHold Report
CHECK_DEADLOCK FALSE
