CONSTANTS Depth = 1
          RootPats = "all"
          Mode = "emit"
SPECIFICATION Spec
INVARIANT Emit
INVARIANT AnchoringLaws
CHECK_DEADLOCK FALSE
