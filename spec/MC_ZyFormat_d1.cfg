CONSTANTS Depth = 1
          Mode = "emit"
SPECIFICATION Spec
INVARIANT Emit
INVARIANT AnchoringLaws
CHECK_DEADLOCK FALSE
