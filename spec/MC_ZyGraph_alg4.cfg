\* all 65536 digraphs on 4 nodes x three representative iteration orders
SPECIFICATION Spec
CONSTANTS
  N = 4
  Orders = "few"
  Mode = "algorithm"
INVARIANTS ComponentsCorrect TopCorrect TopSound TopComplete MapsConsistent EmittedOnceDepsFirst TopoOrderOK OrderConfluent
CHECK_DEADLOCK FALSE
