\* files a.zy a.zyi b.zy: all 512 import configurations x all existence sets containing the root
SPECIFICATION Spec
CONSTANTS
  NF = 3
  AllExist = FALSE
INVARIANTS ErrorIffMissing LoadedOnce EdgesComplete CycleIff StepsValid ProvidersOK Report
CHECK_DEADLOCK FALSE
