\* simulation over the larger types (deeper patterns, more rows than BFS can afford)
SPECIFICATION Spec
CONSTANTS
  MaxRows = 4
  Depth = 3
  Ordered = FALSE
  TypeNames = {"Triple", "PairOpt", "Tri", "Rec"}
INVARIANTS Agree WitnessSound WitnessComplete ArmAlwaysFound RowOrderIrrelevant Report
CHECK_DEADLOCK FALSE
