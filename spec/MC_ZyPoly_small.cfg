SPECIFICATION Spec
CONSTANT Size = "small"
INVARIANT Inv
INVARIANT Report
CHECK_DEADLOCK FALSE
