SPECIFICATION Spec
CONSTANTS
  N = 5
  Orders = "one"
  Mode = "behaviours"
INVARIANTS TopCorrect MapsConsistent EmittedOnceDepsFirst Report
CHECK_DEADLOCK FALSE
