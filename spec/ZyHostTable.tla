----------------------------- MODULE ZyHostTable -----------------------------
(***************************************************************************)
(* Validation of the role table dumped from the implementation (C06):      *)
(* one record per host role with arity(), host_name(), the source-name     *)
(* round trip and the ABI classifier BuiltinOperationAbi::for_role as a    *)
(* term over                                                               *)
(*   value:        atom(a) | thunk(C)                                      *)
(*   computation:  os | bound(i) | ret(V) | arrow(V, C) | forall(C)        *)
(* The specification states what a well-formed role is:                    *)
(*   - the classifier is a thunk of (optionally `forall R : CType .`) a    *)
(*     chain of arrows; the role's arity is the number of those arrows;    *)
(*   - a role either RETURNS a value (result `ret atom`, no thunk          *)
(*     parameter), or SELECTS a continuation (under `forall`, result       *)
(*     `bound 0`, every thunk parameter answers in `bound 0`), or RUNS in  *)
(*     OS (result `os`, every thunk parameter answers in `os`);            *)
(*   - host names are pairwise distinct, source names round-trip.          *)
(***************************************************************************)
EXTENDS Json, IOUtils, TLC, Sequences, Naturals, FiniteSets

Rec == ndJsonDeserialize(IOEnv.TRACE)
VARIABLES l, names
vars == <<l, names>>

RECURSIVE Arrows(_), Result(_), Params(_), Answer(_)
Arrows(c) == IF c.k = "arrow" THEN 1 + Arrows(c.b) ELSE 0
Result(c) == IF c.k = "arrow" THEN Result(c.b) ELSE c
Params(c) == IF c.k = "arrow" THEN <<c.a>> \o Params(c.b) ELSE << >>
(* what a continuation parameter finally answers in *)
Answer(c) == IF c.k = "arrow" THEN Answer(c.b) ELSE c

Body(cls) == IF cls.c.k = "forall" THEN cls.c.b ELSE cls.c
ThunkParams(cls) == SelectSeq(Params(Body(cls)), LAMBDA p : p.k = "thunk")
WellFormed(r) ==
  LET cls == r.cls IN
  /\ cls.k = "thunk"
  /\ r.arity = Arrows(Body(cls))
  /\ r.roundtrip
  /\ LET res == Result(Body(cls)) tps == ThunkParams(cls) IN
     \/ /\ res.k = "ret" /\ cls.c.k # "forall"                      \* returns a value
        /\ \A i \in 1..Len(tps) : Answer(tps[i].c).k = "ret"        \*   (a callback parameter, if any, is pure)
     \/ /\ res.k = "bound" /\ cls.c.k = "forall" /\ res.i = 0        \* selects a continuation
        /\ Len(tps) >= 2
        /\ \A i \in 1..Len(tps) : Answer(tps[i].c) = res
     \/ /\ res.k = "os" /\ cls.c.k # "forall"                        \* runs in OS
        /\ \A i \in 1..Len(tps) : Answer(tps[i].c).k = "os"

Init == l = 1 /\ names = {}
Next == /\ l <= Len(Rec)
        /\ WellFormed(Rec[l])
        /\ Rec[l].host_name \notin names
        /\ names' = names \cup {Rec[l].host_name}
        /\ l' = l + 1
Spec == Init /\ [][Next]_vars
Accepted ==
  \/ TLCGet("stats").diameter - 1 = Len(Rec)
  \/ Print(<<"TRACE-REJECTED-AT", TLCGet("stats").diameter>>, FALSE)
=============================================================================
