\* scenario configuration: a fix in eliminated position (applied / destructed) that re-enters itself
SPECIFICATION Spec
CONSTANTS
  MaxLen = 19
  Fuel = 300
  Prods = {"sc-fixrec", "sc-fixco", "arith"}
  Faults = {}
  Root = "os"
  BindTys = {"int"}
  IntLits = {1, 2}
INVARIANTS GenSound TypeSafety Report
CHECK_DEADLOCK FALSE
