SPECIFICATION Spec
CONSTANTS
  N = 3
  Orders = "one"
  Mode = "behaviours"
INVARIANTS TopCorrect MapsConsistent EmittedOnceDepsFirst Report
CHECK_DEADLOCK FALSE
