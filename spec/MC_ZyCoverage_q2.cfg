SPECIFICATION Spec
CONSTANTS
  MaxRows = 2
  Depth = 3
  Ordered = FALSE
  TypeNames = {"Triple", "PairOpt"}
INVARIANTS Agree WitnessSound WitnessComplete ArmAlwaysFound RowOrderIrrelevant Report
CHECK_DEADLOCK FALSE
