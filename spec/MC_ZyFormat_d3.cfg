CONSTANTS Depth = 3
          RootPats = "var"
          Mode = "emit"
SPECIFICATION Spec
INVARIANT Emit
INVARIANT AnchoringLaws
CHECK_DEADLOCK FALSE
