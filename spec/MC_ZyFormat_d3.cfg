CONSTANTS Depth = 3
          Mode = "emit"
SPECIFICATION Spec
INVARIANT Emit
INVARIANT AnchoringLaws
CHECK_DEADLOCK FALSE
