\* the same one constructor down: +X(+Di(_)) (8192 matrices)
SPECIFICATION Spec
CONSTANTS
  MaxRows = 13
  Depth = 2
  Ordered = TRUE
  TypeNames = {"WideIn"}
INVARIANTS Agree WitnessSound WitnessComplete ArmAlwaysFound Report
CHECK_DEADLOCK FALSE
