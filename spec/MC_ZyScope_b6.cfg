SPECIFICATION Spec
CONSTANTS
  MaxLen = 6
  Vocab = "blocks"
  CheckAlpha = FALSE
INVARIANTS BoundaryHygiene Report
CHECK_DEADLOCK FALSE
