------------------------------ MODULE ZySession ------------------------------
(***************************************************************************)
(* A long-lived compiler session as a state machine over {disk, overlay}   *)
(* (C15).  One action per public mutator of CompilerSession; the ANSWER of *)
(* every query is defined FROM SCRATCH from the effective contents         *)
(*     Eff(f) = overlay[f] if there is one, else disk[f]                   *)
(* - the specification deliberately has no memo tables, no revisions, no   *)
(* "known inputs": it is the statement of the property.  BFS enumerates    *)
(* every history of MaxOps operations from adversarial start states and    *)
(* prints it with the expected answer after every operation; simulation    *)
(* produces long histories.                                                *)
(*                                                                         *)
(* Files: root.zy, lib.zy, lib.zyi (companion of lib.zy), other.zy.        *)
(* Content variants are abstract records interpreted by Imports / Parses / *)
(* Ty / Val below and concretised by the harness (harness/src/session.rs). *)
(* The source graph semantics is ZySources' (DFS load order: import sites, *)
(* then the companion; first error wins; cycle check after loading).       *)
(***************************************************************************)
EXTENDS Integers, Sequences, FiniteSets, TLC, Json
CONSTANTS MaxOps, Starts

Files == {"root", "lib", "sig", "oth"}
ABSENT == "absent"
NONE == "none"
(*  R1 imports lib            R2 imports lib twice      R3 `ret 1` (no import)   R4 syntax error          *)
(*  R5 imports other          R6 EXECUTABLE: exits with the integer that lib denotes                        *)
(*  L1 ()   L2 1   L3 syntax error   L4 imports root (cycle)   L5 type error   L6 imports other            *)
(*  L7 2                                                                                                   *)
(*  S1 type Unit   S2 type Int64   S3 syntax error   S4 `()` (not a type)                                  *)
(*  O1 ()   O2 2   O3 imports lib (cycle with L6)                                                          *)
Variants == [ root |-> {"R1", "R2", "R3", "R4", "R5", "R6"},
              lib  |-> {"L1", "L2", "L3", "L4", "L5", "L6", "L7"},
              sig  |-> {"S1", "S2", "S3", "S4"},
              oth  |-> {"O1", "O2", "O3"} ]
Imports(v) == CASE v \in {"R1", "R6"} -> <<"lib">> [] v = "R2" -> <<"lib", "lib">> [] v = "R5" -> <<"oth">>
                [] v = "L4" -> <<"root">> [] v = "L6" -> <<"oth">> [] v = "O3" -> <<"lib">> [] OTHER -> << >>
Parses(v) == v \notin {"R4", "L3", "S3"}
Companion(f) == IF f = "lib" THEN "sig" ELSE NONE

VARIABLES start, disk, overlay, hist, pend
vars == <<start, disk, overlay, hist, pend>>
NoOp == [o |-> "none", f |-> "root", v |-> NONE, sp |-> "canonical"]
Eff(f) == IF overlay[f] # NONE THEN overlay[f] ELSE disk[f]

OK(seen) == [err |-> "none", at |-> NONE, seen |-> seen]
RECURSIVE Visit(_, _), VisitAll(_, _)
VisitAll(fs, seen) ==
  IF fs = << >> THEN OK(seen)
  ELSE LET r == Visit(Head(fs), seen) IN IF r.err # "none" THEN r ELSE VisitAll(Tail(fs), r.seen)
Visit(f, seen) ==
  IF f \in seen THEN OK(seen)
  ELSE LET v == Eff(f) IN
       IF v = ABSENT THEN [err |-> "missing", at |-> f, seen |-> seen]
       ELSE IF ~Parses(v) THEN [err |-> "parse", at |-> f, seen |-> seen]
       ELSE LET r == VisitAll(Imports(v), seen \cup {f}) IN
            IF r.err # "none" THEN r
            ELSE LET c == Companion(f) IN
                 IF c # NONE /\ Eff(c) # ABSENT THEN Visit(c, r.seen) ELSE r

Edges(seen) == {<<f, g>> \in seen \X seen :
                  (\E i \in 1..Len(Imports(Eff(f))) : Imports(Eff(f))[i] = g) \/ (Companion(f) = g)}
RECURSIVE ReachFrom(_, _, _)
ReachFrom(S, E, n) == IF n = 0 THEN S ELSE ReachFrom(S \cup {e[2] : e \in {x \in E : x[1] \in S}}, E, n - 1)
Cyclic(seen) == LET E == Edges(seen) IN
                \E f \in seen : f \in ReachFrom({e[2] : e \in {x \in E : x[1] = f}}, E, 4)

Graph == LET r == Visit("root", {}) IN
         IF r.err # "none" THEN [k |-> r.err, at |-> r.at, files |-> {}]
         ELSE IF Cyclic(r.seen) THEN [k |-> "cycle", at |-> NONE, files |-> {}]
         ELSE [k |-> "ok", at |-> NONE, files |-> r.seen]

(* static and dynamic meaning of provider files; only used on an acyclic, loaded graph *)
RECURSIVE Ty(_, _), Val(_, _)
Ty(f, n) == LET v == Eff(f) IN
  IF n = 0 THEN "?" ELSE
  CASE v \in {"L1", "O1"} -> "unit" [] v \in {"L2", "L7", "O2"} -> "int" [] v = "L5" -> "tyerr"
    [] v = "L6" -> Ty("oth", n - 1) [] v = "O3" -> Ty("lib", n - 1) [] OTHER -> "?"
Val(f, n) == LET v == Eff(f) IN
  IF n = 0 THEN 0 ELSE
  CASE v = "L2" -> 1 [] v \in {"L7", "O2"} -> 2 [] v = "L6" -> Val("oth", n - 1) [] OTHER -> 0
SigTy == CASE Eff("sig") = "S1" -> "unit" [] Eff("sig") = "S2" -> "int" [] OTHER -> "nottype"
LibBad(g) == "lib" \in g.files /\ (Ty("lib", 4) = "tyerr" \/ ("sig" \in g.files /\ SigTy # Ty("lib", 4)))
Analyze == LET g == Graph IN
  IF g.k # "ok" THEN g.k
  ELSE IF LibBad(g) THEN "rejected"
  ELSE IF Eff("root") = "R6" /\ Ty("lib", 4) # "int" THEN "rejected"     \* the executable needs an Int64
  ELSE "checked"
(* behaviour of the executable: only R6 is one *)
Exe == IF Analyze = "checked" /\ Eff("root") = "R6" THEN Val("lib", 4) ELSE -1
Answer == [graph |-> Graph, analyze |-> Analyze, exe |-> Exe]

StartState(s) ==
  CASE s = "lib-absent" -> [f \in Files |-> IF f = "root" THEN "R1" ELSE ABSENT]
    [] s = "all-present" -> [root |-> "R6", lib |-> "L2", sig |-> "S2", oth |-> "O2"]
    [] s = "companion-mismatch" -> [root |-> "R1", lib |-> "L1", sig |-> "S2", oth |-> ABSENT]
    \* nothing on disk: the harness does not even create the files' directory; it appears with the first disk write
    \* (paths with two missing components; an overlay set before the directory exists must survive its appearance)
    [] s = "nothing" -> [f \in Files |-> ABSENT]
Init == /\ start \in Starts /\ disk = StartState(start)
        /\ overlay = [f \in Files |-> NONE] /\ hist = << >> /\ pend = NoOp

(* the state change and the observation are separate steps: the answer is computed on unprimed *)
(* variables (TLC does not cache LET values in a primed context)                               *)
(* An edit names its file by a PATH, and a file has many spellings (`dir/f`, `dir/./f`, `dir/sub/../f`, through a    *)
(* symlinked directory).  The state is per FILE: no transition and no answer depends on the spelling - that is the   *)
(* statement.  To make the replay exercise it without multiplying the histories, the spelling of the k-th operation  *)
(* alternates (canonical / another), the phase depending on the start state.                                         *)
Rot == IF start \in {"lib-absent", "companion-mismatch"} THEN 0 ELSE 1
SpellOf(k) == IF (k + Rot) % 2 = 1 THEN "other" ELSE "canonical"
Log(op) == pend' = (op @@ [sp |-> SpellOf(Len(hist) + 1)]) /\ UNCHANGED hist
Observe == /\ pend.o # "none"
           /\ hist' = Append(hist, [op |-> pend, expect |-> Answer])
           /\ pend' = NoOp /\ UNCHANGED <<start, disk, overlay>>
SetOverlay(f, v) == /\ overlay[f] # v
                    /\ overlay' = [overlay EXCEPT ![f] = v] /\ UNCHANGED <<start, disk>>
                    /\ Log([o |-> "set_overlay", f |-> f, v |-> v])
ClearOverlay(f)  == /\ overlay[f] # NONE
                    /\ overlay' = [overlay EXCEPT ![f] = NONE] /\ UNCHANGED <<start, disk>>
                    /\ Log([o |-> "clear_overlay", f |-> f, v |-> NONE])
WriteRefresh(f, v) == /\ disk[f] # v
                      /\ disk' = [disk EXCEPT ![f] = v] /\ UNCHANGED <<start, overlay>>
                      /\ Log([o |-> "write_refresh", f |-> f, v |-> v])
DeleteRefresh(f) == /\ disk[f] # ABSENT
                    /\ disk' = [disk EXCEPT ![f] = ABSENT] /\ UNCHANGED <<start, overlay>>
                    /\ Log([o |-> "delete_refresh", f |-> f, v |-> NONE])
Edit == /\ Len(hist) < MaxOps /\ pend.o = "none"
        /\ \E f \in Files : \/ ClearOverlay(f) \/ DeleteRefresh(f)
                            \/ \E v \in Variants[f] : SetOverlay(f, v) \/ WriteRefresh(f, v)
Next == Observe \/ Edit
Spec == Init /\ [][Next]_vars

----------------------------------------------------------------------------
(* Sanity of the statement itself.                                         *)
(* an overlay that equals the disk contents changes no answer ("overlay reverting to disk")   *)
TypeOK == /\ \A f \in Files : disk[f] \in Variants[f] \cup {ABSENT}
          /\ \A f \in Files : overlay[f] \in Variants[f] \cup {NONE}
(* a checked executable always has a defined exit code *)
ExeDefined == (Analyze = "checked" /\ Eff("root") = "R6") => Exe \in {1, 2}

Report == (Len(hist) = MaxOps /\ pend.o = "none") =>
  PrintT(<<"REPLAY", ToJson([start |-> start, init |-> StartState(start), hist |-> hist])>>)
=============================================================================
