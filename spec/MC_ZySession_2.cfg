SPECIFICATION Spec
CONSTANTS
  MaxOps = 2
  Starts = {"lib-absent", "all-present", "companion-mismatch", "nothing"}
INVARIANTS TypeOK ExeDefined Report
CHECK_DEADLOCK FALSE
