SPECIFICATION Spec
CONSTANTS
  Threads = {t1, t2, t3}
  PerThread = 2
  Atomic = FALSE
INVARIANTS UniqueKeySpaces NonZero
CHECK_DEADLOCK FALSE
