SPECIFICATION Spec
CONSTANTS
  MaxOps = 3
  Starts = {"lib-absent", "all-present", "companion-mismatch"}
INVARIANTS TypeOK ExeDefined Report
CHECK_DEADLOCK FALSE
