SPECIFICATION Spec
CONSTANTS
  MaxOps = 3
  Starts = {"lib-absent", "all-present", "companion-mismatch", "nothing"}
INVARIANTS TypeOK ExeDefined Report
CHECK_DEADLOCK FALSE
