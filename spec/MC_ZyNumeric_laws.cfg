SPECIFICATION Spec
CONSTANT Task = "laws"
INVARIANTS LawsHold Report
CHECK_DEADLOCK FALSE
