SPECIFICATION Spec
CONSTANTS
  Analysers = {a1, a2, a3}
  Files = {f1, f2}
  Vals = {0, 1}
  MaxWrites = 3
  WriterWaits = TRUE
  Callers = {}
  Memoised = FALSE
INVARIANTS Isolation OwnAnswer
PROPERTY WriteCompletes
