SPECIFICATION Spec
CONSTANTS
  MaxRows = 3
  Depth = 2
  Ordered = FALSE
  TypeNames = {"Bool", "Tri", "Opt", "Empty", "One", "Unit", "Pair", "Rec"}
INVARIANTS Agree WitnessSound WitnessComplete ArmAlwaysFound RowOrderIrrelevant Report
CHECK_DEADLOCK FALSE
