\* the shared pending slot of check_resolved with two callers (1 and 2), as implemented (memoised): OwnAnswer is REFUTED
SPECIFICATION Spec
CONSTANTS
  Analysers = {}
  Files = {f1}
  Vals = {0}
  MaxWrites = 0
  WriterWaits = TRUE
  Callers = {1, 2}
  Memoised = TRUE
INVARIANTS OwnAnswer
