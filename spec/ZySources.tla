------------------------------ MODULE ZySources ------------------------------
(***************************************************************************)
(* The source graph of a root (C09, graph half; reused by ZySession for    *)
(* C15): loading with de-duplication, companion signatures, cycle          *)
(* detection, provider order.                                              *)
(*                                                                         *)
(* Files are numbered; odd files are implementations (`a.zy`, `b.zy`), the *)
(* following even number is the adjacent signature (`a.zyi`, `b.zyi`).     *)
(* A configuration says which files exist and what each imports (import    *)
(* sites in ascending order of the target).  File 1 is the root.           *)
(*                                                                         *)
(* Implementation-shaped operators (session/src/source/{loader,graph}.rs): *)
(*   Load / LoadImports / LoadSig : `seen` is filled BEFORE recursing,     *)
(*        import sites first, then the optional companion;                 *)
(*   Detect : the DFS with Active/Complete marks and the two stacks; the   *)
(*        reported cycle is dependencies[start..] ++ [closing edge];       *)
(*   Providers : post-order DFS, signature before imports.                 *)
(* Declarative counterparts: reachability, transitive closure, "providers  *)
(* first".                                                                 *)
(***************************************************************************)
EXTENDS Integers, Sequences, FiniteSets, TLC, Json
CONSTANTS NF,        \* number of files
          AllExist   \* TRUE: every file exists (only edges vary)

Files == 1..NF
IsImpl(f) == f % 2 = 1
HasCompanionSlot(f) == IsImpl(f) /\ f + 1 <= NF
Comp(f) == f + 1
None == [kind |-> "none"]

VARIABLES imp, ex
vars == <<imp, ex>>

Init == /\ imp \in [Files -> SUBSET Files]
        /\ ex \in (IF AllExist THEN {Files} ELSE {S \in SUBSET Files : 1 \in S})
Next == UNCHANGED vars
Spec == Init /\ [][Next]_vars

RECURSIVE SortedSeq(_)
SortedSeq(S) == IF S = {} THEN << >> ELSE LET m == CHOOSE m \in S : \A x \in S : m <= x IN <<m>> \o SortedSeq(S \ {m})
Range(s) == {s[i] : i \in 1..Len(s)}

----------------------------------------------------------------------------
(* The loader.  st = [order: files in allocation order (= seen), edges: import edges in        *)
(* allocation order, sigs: set of <<implementation, signature>>, err]                          *)
RECURSIVE Load(_, _), LoadImports(_, _, _), LoadSig(_, _)
Load(f, st) ==
  LET st1 == [st EXCEPT !.order = Append(@, f)]              \* seen.insert before recursion
      st2 == LoadImports(f, SortedSeq(imp[f]), st1)
  IN IF st2.err # None THEN st2 ELSE LoadSig(f, st2)
LoadImports(f, sites, st) ==
  IF sites = << >> \/ st.err # None THEN st
  ELSE LET t == Head(sites)
           st1 == IF t \in Range(st.order) THEN st
                  ELSE IF t \notin ex THEN [st EXCEPT !.err = [kind |-> "import", importer |-> f, requested |-> t]]
                  ELSE Load(t, st)
           st2 == IF st1.err = None THEN [st1 EXCEPT !.edges = Append(@, <<f, t>>)] ELSE st1
       IN LoadImports(f, Tail(sites), st2)
LoadSig(f, st) ==
  IF ~HasCompanionSlot(f) THEN st
  ELSE LET s == Comp(f) IN
       IF s \in Range(st.order) THEN [st EXCEPT !.sigs = @ \cup {<<f, s>>}]
       ELSE IF s \notin ex THEN st                            \* load_optional: absent companion is fine
       ELSE LET st1 == Load(s, st) IN
            IF st1.err = None THEN [st1 EXCEPT !.sigs = @ \cup {<<f, s>>}] ELSE st1
Loaded == Load(1, [order |-> << >>, edges |-> << >>, sigs |-> {}, err |-> None])

(* dependencies(source): the signature first, then the imports in site order *)
Deps(L, f) ==
  (IF \E p \in L.sigs : p[1] = f THEN <<[kind |-> "sig", from |-> f, to |-> Comp(f)]>> ELSE << >>)
  \o [i \in 1..Len(SelectSeq(L.edges, LAMBDA e : e[1] = f)) |->
        [kind |-> "import", from |-> f, to |-> SelectSeq(L.edges, LAMBDA e : e[1] = f)[i][2]]]

(* SourceCycleDetector: returns [found, steps, active, complete] *)
RECURSIVE Visit(_, _, _), VisitDeps(_, _, _, _)
Visit(L, f, d) ==      \* d = [active: seq of sources on the DFS path, deps: seq of dependencies, complete: set]
  LET d1 == [d EXCEPT !.active = Append(@, f)]
      r == VisitDeps(L, f, Deps(L, f), d1)
  IN IF r.found THEN r
     ELSE [r EXCEPT !.active = SubSeq(@, 1, Len(@) - 1), !.complete = @ \cup {f}]
VisitDeps(L, f, ds, d) ==
  IF ds = << >> THEN [d EXCEPT !.found = FALSE]
  ELSE LET dep == Head(ds) t == dep.to IN
       IF t \in Range(d.active)
       THEN LET start == CHOOSE i \in 1..Len(d.active) : d.active[i] = t IN
            [d EXCEPT !.found = TRUE, !.steps = SubSeq(d.deps, start, Len(d.deps)) \o <<dep>>]
       ELSE IF t \in d.complete THEN VisitDeps(L, f, Tail(ds), d)
       ELSE LET r == Visit(L, t, [d EXCEPT !.deps = Append(@, dep)]) IN
            IF r.found THEN r
            ELSE VisitDeps(L, f, Tail(ds), [r EXCEPT !.deps = SubSeq(@, 1, Len(@) - 1)])
Detect(L) == Visit(L, 1, [active |-> << >>, deps |-> << >>, complete |-> {}, found |-> FALSE, steps |-> << >>])

(* ProviderOrder *)
RECURSIVE PVisit(_, _, _), PVisitAll(_, _, _)
PVisit(L, f, acc) ==       \* acc = [visited, order]
  IF f \in acc.visited THEN acc
  ELSE LET a1 == PVisitAll(L, [i \in 1..Len(Deps(L, f)) |-> Deps(L, f)[i].to], [acc EXCEPT !.visited = @ \cup {f}])
       IN [a1 EXCEPT !.order = Append(@, f)]
PVisitAll(L, ts, acc) == IF ts = << >> THEN acc ELSE PVisitAll(L, Tail(ts), PVisit(L, Head(ts), acc))
Providers(L) == PVisit(L, 1, [visited |-> {}, order |-> << >>]).order

----------------------------------------------------------------------------
(* Declarative oracle.                                                     *)
EdgeRel == {<<f, t>> \in Files \X Files : f \in ex /\ t \in imp[f]}
           \cup {<<f, Comp(f)>> : f \in {g \in ex : HasCompanionSlot(g) /\ Comp(g) \in ex}}
RECURSIVE ReachN(_, _)
ReachN(S, n) == IF n = 0 THEN S ELSE ReachN(S \cup {t \in Files : \E f \in S : <<f, t>> \in EdgeRel}, n - 1)
Reach == ReachN({1}, NF)
MissingReachable == \E f \in Reach \cap ex : \E t \in imp[f] : t \notin ex
PlusReach(f) == ReachN({t \in Files : <<f, t>> \in EdgeRel}, NF)
Cyclic == \E f \in Reach : f \in PlusReach(f)

L == Loaded
(* a missing import target that is reachable is an error, and only that *)
ErrorIffMissing == (L.err # None) <=> MissingReachable
(* every reachable file is loaded exactly once *)
LoadedOnce == L.err = None =>
  /\ Range(L.order) = Reach
  /\ \A i, j \in 1..Len(L.order) : i # j => L.order[i] # L.order[j]
(* one edge per import site of every loaded file; signature links exactly for existing companions *)
EdgesComplete == L.err = None =>
  /\ {<<e[1], e[2]>> : e \in Range(L.edges)} = {<<f, t>> \in Files \X Files : f \in Reach /\ t \in imp[f]}
  /\ Len(L.edges) = Cardinality({<<f, t>> \in Files \X Files : f \in Reach /\ t \in imp[f]})
  /\ L.sigs = {<<f, Comp(f)>> : f \in {g \in Reach : HasCompanionSlot(g) /\ Comp(g) \in ex}}
(* the DFS reports a cycle iff the reachable graph has one; a back edge to a completed node is not a cycle *)
CycleIff == L.err = None => (Detect(L).found <=> Cyclic)
(* the reported steps are edges of the configuration and close up *)
StepsValid == (L.err = None /\ Detect(L).found) =>
  LET s == Detect(L).steps IN
  /\ Len(s) >= 1
  /\ \A i \in 1..Len(s) : <<s[i].from, s[i].to>> \in EdgeRel
  /\ \A i \in 1..(Len(s) - 1) : s[i].to = s[i + 1].from
  /\ s[Len(s)].to = s[1].from
(* providers come before their consumers, everything reachable is listed once *)
ProvidersOK == (L.err = None /\ ~Cyclic) =>
  LET o == Providers(L) IN
  /\ Range(o) = Reach
  /\ \A i, j \in 1..Len(o) : i # j => o[i] # o[j]
  /\ \A i \in 1..Len(o) : \A t \in Files : <<o[i], t>> \in EdgeRel => \E j \in 1..(i - 1) : o[j] = t

Outcome == IF L.err # None THEN "import" ELSE IF Cyclic THEN "cycle" ELSE "ok"
Report == PrintT(<<"REPLAY", ToJson([nf |-> NF, imp |-> [f \in Files |-> SortedSeq(imp[f])], ex |-> SortedSeq(ex),
            outcome |-> Outcome,
            importer |-> IF L.err # None THEN L.err.importer ELSE 0,
            requested |-> IF L.err # None THEN L.err.requested ELSE 0,
            sources |-> IF L.err = None THEN SortedSeq(Range(L.order)) ELSE << >>,
            sigs |-> IF L.err = None THEN SortedSeq({p[1] : p \in L.sigs}) ELSE << >>,
            edges |-> IF L.err = None THEN L.edges ELSE << >>])>>)
=============================================================================
