---------------------------- MODULE ZySessionConc ----------------------------
(***************************************************************************)
(* Concurrent analyses on snapshots of one session (C17).                  *)
(*                                                                         *)
(* Owner: Snapshot(a) hands analyser a a handle on the shared storage;     *)
(* BeginWrite sets salsa's cancellation flag; CommitWrite is enabled only  *)
(* when no other handle is running (the writer blocks until readers are    *)
(* gone) and bumps the revision.  Analyser: ReadInput steps observe the    *)
(* CURRENT contents (snapshots share storage - isolation is not by         *)
(* copying), may Cancel once the flag is set, Finish with what they read,  *)
(* Drop the handle.  WriterWaits = FALSE is the deliberately wrong design  *)
(* (writer does not wait): TLC then produces a mixed-revision result.      *)
(*                                                                         *)
(* Pending slot (check_resolved): SetPending(c) and InternPending(c) are   *)
(* two separately locked steps; Memoised = TRUE models the input-less      *)
(* tracked query that is computed once per revision.                       *)
(***************************************************************************)
EXTENDS Integers, FiniteSets, TLC
CONSTANTS Analysers, Files, Vals, MaxWrites, WriterWaits,
          Callers, Memoised      \* pending-slot part

None == -1
NoWrite == [on |-> FALSE, f |-> CHOOSE f \in Files : TRUE, v |-> 0]
VARIABLES content, rev, cancel, pending, writes, an,
          slot, memo, got, pc
vars == <<content, rev, cancel, pending, writes, an, slot, memo, got, pc>>
svars == <<content, rev, cancel, pending, writes, an>>
pvars == <<slot, memo, got, pc>>

Idle == [st |-> "idle", snap |-> [f \in Files |-> 0], read |-> [f \in Files |-> None],
         result |-> [f \in Files |-> None]]

Init == /\ content = [f \in Files |-> 0] /\ rev = 0 /\ cancel = FALSE /\ pending = NoWrite /\ writes = 0
        /\ an = [a \in Analysers |-> Idle]
        /\ slot = None /\ memo = None /\ got = [c \in Callers |-> None] /\ pc = [c \in Callers |-> "start"]

Snapshot(a) == /\ an[a].st = "idle" /\ ~pending.on
               /\ an' = [an EXCEPT ![a] = [st |-> "running", snap |-> content,
                                            read |-> [f \in Files |-> None], result |-> [f \in Files |-> None]]]
               /\ UNCHANGED <<content, rev, cancel, pending, writes>> /\ UNCHANGED pvars
BeginWrite(f, v) == /\ ~pending.on /\ writes < MaxWrites /\ content[f] # v
                    /\ pending' = [on |-> TRUE, f |-> f, v |-> v] /\ cancel' = TRUE /\ writes' = writes + 1
                    /\ UNCHANGED <<content, rev, an>> /\ UNCHANGED pvars
CommitWrite == /\ pending.on
               /\ (WriterWaits => \A a \in Analysers : an[a].st # "running")
               /\ content' = [content EXCEPT ![pending.f] = pending.v] /\ rev' = rev + 1
               /\ cancel' = FALSE /\ pending' = NoWrite /\ UNCHANGED <<writes, an>> /\ UNCHANGED pvars
ReadInput(a, f) == /\ an[a].st = "running" /\ an[a].read[f] = None /\ ~cancel
                   /\ an' = [an EXCEPT ![a].read[f] = content[f]]
                   /\ UNCHANGED <<content, rev, cancel, pending, writes>> /\ UNCHANGED pvars
Cancel(a) == /\ an[a].st = "running" /\ cancel /\ \E f \in Files : an[a].read[f] = None
             /\ an' = [an EXCEPT ![a].st = "cancelled"]
             /\ UNCHANGED <<content, rev, cancel, pending, writes>> /\ UNCHANGED pvars
Finish(a) == /\ an[a].st = "running" /\ \A f \in Files : an[a].read[f] # None
             /\ an' = [an EXCEPT ![a].st = "done", ![a].result = an[a].read]
             /\ UNCHANGED <<content, rev, cancel, pending, writes>> /\ UNCHANGED pvars
Drop(a) == /\ an[a].st \in {"done", "cancelled"} /\ an' = [an EXCEPT ![a] = Idle]
           /\ UNCHANGED <<content, rev, cancel, pending, writes>> /\ UNCHANGED pvars
AnStep(a) == (\E f \in Files : ReadInput(a, f)) \/ Cancel(a) \/ Finish(a) \/ Drop(a)

(* check_resolved(program c): lock; slot := c; unlock ... lock; take/intern; unlock *)
SetPending(c) == /\ pc[c] = "start" /\ slot' = c /\ pc' = [pc EXCEPT ![c] = "set"]
                 /\ UNCHANGED <<memo, got>> /\ UNCHANGED svars
InternPending(c) == /\ pc[c] = "set"
                    /\ LET answer == IF Memoised /\ memo # None THEN memo ELSE slot IN
                       /\ got' = [got EXCEPT ![c] = answer]
                       /\ memo' = IF Memoised THEN answer ELSE memo
                    /\ pc' = [pc EXCEPT ![c] = "done"] /\ UNCHANGED slot /\ UNCHANGED svars
PendStep(c) == SetPending(c) \/ InternPending(c)

Next == \/ \E a \in Analysers : Snapshot(a) \/ AnStep(a)
        \/ \E f \in Files, v \in Vals : BeginWrite(f, v)
        \/ CommitWrite
        \/ \E c \in Callers : PendStep(c)
Spec == Init /\ [][Next]_vars /\ WF_vars(CommitWrite) /\ \A a \in Analysers : WF_vars(AnStep(a))

(* a completed analysis reports exactly the contents its snapshot saw: never two revisions mixed *)
Isolation == \A a \in Analysers : an[a].st = "done" => an[a].result = an[a].snap
(* a write is never blocked forever and cancelled analysers do not deadlock the owner *)
WriteCompletes == pending.on ~> ~pending.on
(* every caller of check_resolved is answered with the result of ITS program *)
OwnAnswer == \A c \in Callers : pc[c] = "done" => got[c] = c
=============================================================================
