\* generated by hand-run script in tools/; constants documented in DESIGN.md §C01-C03
SPECIFICATION Spec
CONSTANTS
  MaxLen = 9
  Fuel = 80
  Prods = {"app", "let", "arith", "div", "str", "br", "data", "pair", "codata", "fix", "vfn", "vlet"}
  Faults = {}
  Root = "os"
  BindTys = {"int", "unit", "gi"}
  IntLits = {1, 2}
INVARIANTS GenSound TypeSafety Report
CHECK_DEADLOCK FALSE
