------------------------------ MODULE ZyProducts ------------------------------
(* C18 / C19: n-ary products and PARTIAL product patterns.  ZyCore has pairs only; the lowering of a tuple      *)
(* `(v1, .., vn)` matched by `(x1, .., xk, rest)` produces the product layouts <product:E/A> with E < A that    *)
(* the stack-parity bookkeeping of the AMD64 emitter, the assembly lowering and SPS-low all treat specially.     *)
(* A program is a point of: arity n, split k (the pattern names k components and binds the rest), where the      *)
(* unpack sits (entry code or inside a continuation), and what follows it (exit, a data match, an allocation,    *)
(* a second unpack of the rest).  The reference semantics is arithmetic: the program exits with the sum of the   *)
(* components it names.  Every program must be accepted, lower through every stage without internal error,       *)
(* run to the predicted exit in the interpreter, and its real SPS-low program must do the same in ZySps.tla.     *)
EXTENDS Naturals, Sequences, TLC, Json
CONSTANT MaxArity,
         Family      \* "lower": the C18/C19 programs; "mon": the C20 programs (tuples built and taken apart inside a monadic block)
Arities == 2..MaxArity
Where == {"entry", "afterdo", "inthunk"}
Then == {"exit", "match", "alloc", "unpackrest"}
\* "boxed": the first component is +Bx(1) of the single-constructor type `data | +Bx : Int64 end` and the pattern takes it
\* apart in place, `(+Bx(x1), x2, .., rest)`: an irrefutable constructor pattern NESTED in the product pattern
First == {"int", "boxed"}
Programs == {[n |-> n, k |-> k, where |-> w, then |-> t, first |-> f] : n \in Arities, k \in 1..(MaxArity - 1), w \in Where, t \in Then, f \in First}
\* the rest can only be unpacked again when it is itself a product (at least two components left)
Valid(p) == p.k < p.n /\ (p.then = "unpackrest" => p.n - p.k >= 2)
RECURSIVE Sum(_, _)
Sum(lo, hi) == IF lo > hi THEN 0 ELSE lo + Sum(lo + 1, hi)
\* component i has the value i; the named components are 1..k; with "unpackrest" all n are named
Exit(p) == IF p.then = "unpackrest" THEN Sum(1, p.n)
           ELSE IF p.n - p.k = 1 THEN Sum(1, p.n)           \* the rest is the last component itself: an Int64, added too
           ELSE Sum(1, p.k)
Elements(p) == p.k + 1      \* words the pattern takes apart
Partial(p) == Elements(p) < p.n
(* ---- C20: the same tuples inside an @[monadic] block ------------------------------------------------------------ *)
(* The block builds (1, .., n) - as the operand of `ret` bound by `do`, by `let`, directly as the scrutinee, as the     *)
(* payload of a constructor, or as the argument of a function of the block -, takes it apart with a full or partial     *)
(* tuple pattern and returns ONE named component.  Component i has the value i, so the reference value is the index:    *)
(* a translation that permutes the items of a tuple value (or of a tuple pattern) returns another number.               *)
MonBuild == {"doret", "let", "direct", "ctor", "arg"}
MonPrograms == {[fam |-> "mon", n |-> n, k |-> k, build |-> b, pick |-> j] :
                  n \in Arities, k \in 1..MaxArity, b \in MonBuild, j \in 1..MaxArity}
\* k = n: the pattern names every component; k < n: (x1, .., xk, rest); only a named component can be returned
\* (a constructor payload is matched in full)
MonValid(p) == p.k <= p.n /\ p.pick <= p.k /\ (p.build = "ctor" => p.k = p.n)
MonValue(p) == p.pick
VARIABLES stage, prog
Init == stage = "pick" /\ prog \in {[n |-> n, k |-> 1, where |-> "entry", then |-> "exit"] : n \in Arities}
Next == stage = "pick" /\ stage' = "done" /\
        IF Family = "mon" THEN prog' \in {p \in MonPrograms : p.n = prog.n /\ MonValid(p)}
        ELSE prog' \in {p \in Programs : p.n = prog.n /\ Valid(p)}
Spec == Init /\ [][Next]_<<stage, prog>>
\* both parities of (arity - elements) occur for every `then`: the generator is not blind to the odd case
Covers == stage = "pick" => \A t \in Then : \E p, q \in {x \in Programs : Valid(x)} :
            p.then = t /\ q.then = t /\ Partial(p) /\ Partial(q) /\ (p.n - Elements(p)) % 2 = 0 /\ (q.n - Elements(q)) % 2 = 1
\* every position of every arity is returned by some program, under every way of building the tuple
MonCovers == stage = "pick" => \A n \in Arities, j \in 1..MaxArity, b \in MonBuild : j <= n =>
               \E p \in MonPrograms : MonValid(p) /\ p.n = n /\ p.pick = j /\ p.build = b
Report == stage = "done" => IF Family = "mon" THEN PrintT(<<"REPLAY", ToJson(prog @@ [val |-> MonValue(prog)])>>) ELSE PrintT(<<"REPLAY", ToJson([n |-> prog.n, k |-> prog.k, where |-> prog.where, then |-> prog.then, first |-> prog.first,
                                                      exit |-> Exit(prog), partial |-> Partial(prog)])>>)
================================================================================
