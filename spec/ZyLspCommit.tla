------------------------------ MODULE ZyLspCommit ------------------------------
(***************************************************************************)
(* The LSP server's revision-checked commit of an analysis (C17,           *)
(* editor/cajun/src/lib.rs: refresh_with_progress / commit_analysis).      *)
(*                                                                         *)
(* One open document.  SetDocument installs new text and bumps the         *)
(* document revision (under the session lock).  A refresh task takes the   *)
(* lock to READ the revision, releases it, takes it again for a SNAPSHOT   *)
(* (two separate critical sections, as in the code), analyses the snapshot *)
(* outside any lock and finally commits under the lock only if the         *)
(* document revision still equals the one it read - otherwise the result   *)
(* is Superseded.  Text of revision r is modelled as r itself.             *)
(* CheckRevision = FALSE is the deliberately wrong variant.                *)
(***************************************************************************)
EXTENDS Integers, FiniteSets, TLC
CONSTANTS Tasks, MaxEdits, CheckRevision

NoCache == [rev |-> -1, proj |-> -1]
VARIABLES docRev, text, cache, task
vars == <<docRev, text, cache, task>>
Fresh == [pc |-> "idle", rev0 |-> -1, snap |-> -1, result |-> -1, outcome |-> "none"]

Init == docRev = 1 /\ text = 1 /\ cache = NoCache /\ task = [t \in Tasks |-> Fresh]

SetDocument == /\ docRev <= MaxEdits
               /\ docRev' = docRev + 1 /\ text' = docRev + 1
               /\ UNCHANGED <<cache, task>>
ReadRevision(t) == /\ task[t].pc = "idle"
                   /\ task' = [task EXCEPT ![t] = [Fresh EXCEPT !.pc = "read", !.rev0 = docRev]]
                   /\ UNCHANGED <<docRev, text, cache>>
FastPath(t) == /\ task[t].pc = "read" /\ cache.rev = task[t].rev0
               /\ task' = [task EXCEPT ![t].pc = "done", ![t].outcome = "updated"]
               /\ UNCHANGED <<docRev, text, cache>>
TakeSnapshot(t) == /\ task[t].pc = "read" /\ cache.rev # task[t].rev0
                   /\ task' = [task EXCEPT ![t].pc = "snap", ![t].snap = text]
                   /\ UNCHANGED <<docRev, text, cache>>
Analyse(t) == /\ task[t].pc = "snap"
              /\ task' = [task EXCEPT ![t].pc = "analysed", ![t].result = task[t].snap]
              /\ UNCHANGED <<docRev, text, cache>>
Cancelled(t) == /\ task[t].pc = "snap" /\ docRev # task[t].rev0     \* a write overtook the analysis
                /\ task' = [task EXCEPT ![t].pc = "done", ![t].outcome = "superseded"]
                /\ UNCHANGED <<docRev, text, cache>>
Commit(t) == /\ task[t].pc = "analysed"
             /\ IF ~CheckRevision \/ docRev = task[t].rev0
                THEN /\ cache' = [rev |-> task[t].rev0, proj |-> task[t].result]
                     /\ task' = [task EXCEPT ![t].pc = "done", ![t].outcome = "updated"]
                ELSE /\ task' = [task EXCEPT ![t].pc = "done", ![t].outcome = "superseded"]
                     /\ UNCHANGED cache
             /\ UNCHANGED <<docRev, text>>
Recycle(t) == task[t].pc = "done" /\ task' = [task EXCEPT ![t] = Fresh] /\ UNCHANGED <<docRev, text, cache>>

Next == SetDocument \/ \E t \in Tasks : ReadRevision(t) \/ FastPath(t) \/ TakeSnapshot(t) \/ Analyse(t) \/ Cancelled(t) \/ Commit(t) \/ Recycle(t)
Spec == Init /\ [][Next]_vars

(* a committed project was computed from the text of the revision it is filed under *)
CommitFresh == cache # NoCache => (cache.proj = cache.rev /\ cache.rev <= docRev)
(* an "updated" outcome always refers to a project of the revision the task read *)
UpdatedIsCurrent == \A t \in Tasks : (task[t].pc = "done" /\ task[t].outcome = "updated") => cache.rev >= task[t].rev0
=============================================================================
