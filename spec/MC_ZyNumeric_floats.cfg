SPECIFICATION Spec
CONSTANT Task = "floats"
INVARIANTS LawsHold Report
CHECK_DEADLOCK FALSE
