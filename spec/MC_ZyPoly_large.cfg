SPECIFICATION Spec
CONSTANT Size = "large"
INVARIANT Inv
INVARIANT Report
CHECK_DEADLOCK FALSE
