----------------------------- MODULE ZyLspTrace -----------------------------
(* C17, the editor half: "an analysis overtaken by an edit is either completed against its own snapshot or   *)
(* cancelled; it is never reported with results that mix two revisions".  Code -> spec for the cajun binary  *)
(* over stdio (the design is ZyLspCommit.tla: read revision / snapshot / analyse / revision-checked commit).  *)
(* A round opens a document and sends k-1 full-text changes without waiting; every publishDiagnostics the     *)
(* server sends for the document is one record:                                                               *)
(*   version  the document version the server attached to the notification                                    *)
(*   got      digest of the published diagnostics ("none" = empty list)                                       *)
(*   want     digest of what a server that has only ever seen that version's text publishes (sequential       *)
(*            oracle, taken from the same binary before the burst)                                            *)
(*   last     k, the newest version of the round;   final: this is the last notification of the round          *)
(* Accepted iff every notification carries either the diagnostics of exactly its own version or none (an       *)
(* overtaken analysis is reported empty - the repository's own test                                             *)
(* stdio_server_treats_overlapping_open_analyses_as_superseded fixes that design), and the newest version,      *)
(* which nothing overtakes, is reported with its own diagnostics.  NOT demanded: that the newest version's      *)
(* notification arrives last (an overtaken version's empty list can arrive after it; a client has to compare    *)
(* versions) - observed in about one burst in four, noted in DESIGN.md as an observation, not a finding.        *)
EXTENDS Json, IOUtils, TLC, Sequences, Naturals
Rec == ndJsonDeserialize(IOEnv.TRACE)
VARIABLE l
Ok(r) == /\ r.version \in 1..r.last
         /\ (r.got = r.want \/ r.got = "none")
         /\ (r.version = r.last => r.got = r.want)
Init == l = 1
Next == l <= Len(Rec) /\ Ok(Rec[l]) /\ l' = l + 1
Spec == Init /\ [][Next]_l
Accepted ==
  \/ TLCGet("stats").diameter - 1 = Len(Rec)
  \/ Print(<<"TRACE-REJECTED-AT", TLCGet("stats").diameter>>, FALSE)
=============================================================================
