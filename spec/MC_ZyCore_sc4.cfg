\* scenario configuration: a three-arm match in synthesis position, well-typed and with one fault in any hole
SPECIFICATION Spec
CONSTANTS
  MaxLen = 14
  Fuel = 200
  Prods = {"sc-arms3", "data", "arith"}
  Faults = {"wrongty"}
  Root = "os"
  BindTys = {"int"}
  IntLits = {1, 2}
INVARIANTS GenSound TypeSafety Report
CHECK_DEADLOCK FALSE
