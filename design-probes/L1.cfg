SPECIFICATION Spec
CONSTANTS MaxLen = 7
 Fuel = 60
 Faults = {"lit", "ctorpayload", "missingarm", "dtorty"}
INVARIANTS TypeSafety Report ReportStuck
CHECK_DEADLOCK FALSE
