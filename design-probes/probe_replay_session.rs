// Throw-away probe: replay TLC-generated edit histories (ZySessionSketch.tla) on one long-lived CompilerSession (C15).
use std::collections::BTreeSet;
use std::path::{Path, PathBuf};
use serde_json::Value as J;
use zydeco_session::{CompilerSession, AnalysisOutcome, AnalysisError, SourceLoadError};
fn text(v: &str) -> &'static str { match v {
    "R1" => "@(import(\"lib.zy\"))", "R2" => "(@(import(\"lib.zy\")), @(import(\"lib.zy\")))", "R3" => "ret 1", "R4" => "(", "R5" => "@(import(\"other.zy\"))",
    "L1" => "()", "L2" => "1", "L3" => "(", "L4" => "@(import(\"root.zy\"))", "L5" => "(1 : @[intrinsic(unit)] _)", "L6" => "@(import(\"other.zy\"))",
    "S1" => "@[intrinsic(unit)] _", "S2" => "@[intrinsic(i64)] _", "S3" => "(", "S4" => "()",
    "O1" => "()", "O2" => "2", "O3" => "@(import(\"lib.zy\"))", _ => panic!("variant {v}") } }
fn fname(f: &str) -> &'static str { match f { "root" => "root.zy", "lib" => "lib.zy", "sig" => "lib.zyi", "oth" => "other.zy", _ => panic!() } }
fn short(p: &Path) -> String { let n = p.file_name().map(|s| s.to_string_lossy().to_string()).unwrap_or_default(); match n.as_str() { "root.zy" => "root", "lib.zy" => "lib", "lib.zyi" => "sig", "other.zy" => "oth", o => return o.to_string() }.to_string() }
fn load_err(e: &SourceLoadError) -> (String, String) { match e {
    SourceLoadError::RootPath { path, .. } => ("missing".into(), short(path)),
    SourceLoadError::ImportPath { requested, .. } => ("missing".into(), short(requested)),
    SourceLoadError::Read { path, .. } => ("missing".into(), short(path)),
    SourceLoadError::Parse(zydeco_session::source::SourceParseError::Parse { path, .. }) => ("parse".into(), short(path)),
    SourceLoadError::Parse(_) => ("parse-directive".into(), String::new()),
    SourceLoadError::Cycle(_) => ("cycle".into(), "none".into()),
    other => (format!("other:{other}"), String::new()) } }
fn main() {
    let cases = std::fs::read_to_string(std::env::args().nth(1).unwrap()).unwrap();
    let limit: usize = std::env::args().nth(2).map(|s| s.parse().unwrap()).unwrap_or(usize::MAX);
    let (mut hists, mut queries, mut bad) = (0usize, 0usize, 0usize);
    let mut reasons: std::collections::BTreeMap<String, (usize, String)> = Default::default();
    for (ci, line) in cases.lines().enumerate().take(limit) {
        let hist: J = serde_json::from_str(line).unwrap();
        let dir = PathBuf::from(format!("/tmp/p8/w/{ci}")); let _ = std::fs::remove_dir_all(&dir); std::fs::create_dir_all(&dir).unwrap();
        std::fs::write(dir.join("root.zy"), text("R1")).unwrap();
        let mut session = CompilerSession::default();
        let root = dir.join("root.zy");
        hists += 1; let mut log = vec![];
        for step in hist.as_array().unwrap() {
            let (o, f, v) = (step["op"]["o"].as_str().unwrap(), step["op"]["f"].as_str().unwrap(), step["op"]["v"].as_str().unwrap());
            let p = dir.join(fname(f));
            let opres = match o { "set_overlay" => session.set_overlay(&p, text(v).to_string()).is_ok(), "clear_overlay" => session.clear_overlay(&p).is_ok(),
                "write_refresh" => { std::fs::write(&p, text(v)).unwrap(); session.refresh_disk(&p).is_ok() }, "delete_refresh" => { let _ = std::fs::remove_file(&p); session.refresh_disk(&p).is_ok() }, _ => panic!() };
            log.push(format!("{o} {f} {v}{}", if opres { "" } else { " [op returned Err]" }));
            let (gk, gat, gfiles) = match session.graph(&root) { Ok(g) => ("ok".to_string(), "none".to_string(), g.sources.iter().map(|(_, s)| short(&s.path)).collect::<BTreeSet<_>>()), Err(e) => { let (k, at) = load_err(&e); (k, at, BTreeSet::new()) } };
            let an = match session.analyze(&root) { Ok(a) => match a.outcome() { AnalysisOutcome::Checked { .. } => "checked".to_string(), AnalysisOutcome::Rejected { .. } => "rejected".to_string() }, Err(AnalysisError::Source { error }) => load_err(&error).0, Err(e) => format!("other:{e}") };
            let ex = &step["expect"]; let exfiles: BTreeSet<String> = ex["graph"]["files"].as_array().unwrap().iter().map(|x| x.as_str().unwrap().to_string()).collect();
            queries += 1;
            let mut why = vec![];
            if gk != ex["graph"]["k"].as_str().unwrap() { why.push(format!("graph kind {gk} vs {}", ex["graph"]["k"])); }
            else if gk != "ok" && gk != "cycle" && gat != ex["graph"]["at"].as_str().unwrap() { why.push(format!("culprit {gat} vs {}", ex["graph"]["at"])); }
            if gk == "ok" && gfiles != exfiles { why.push(format!("files {gfiles:?} vs {exfiles:?}")); }
            if an != ex["analyze"].as_str().unwrap() { why.push(format!("analyze {an} vs {}", ex["analyze"])); }
            if !why.is_empty() { bad += 1; let key = format!("{}{}", if log.iter().any(|l| l.contains("returned Err")) { "[F9] " } else { "[NOERR] " }, why.join("; ")); let e = reasons.entry(key).or_insert((0, log.join(" → "))); e.0 += 1; break; }
        }
        let _ = std::fs::remove_dir_all(&dir);
    }
    println!("histories={hists} queries={queries} mismatching_histories={bad}");
    for (k, (n, ex)) in reasons.iter().take(12) { println!("{n:6}  {k}\n          e.g. {ex}"); }
}
