// Throw-away probe: source graph loader with companion signatures on all import graphs over {a.zy, a.zyi, b.zy, b.zyi} (C09).
use std::collections::{BTreeSet, HashMap};
use std::path::PathBuf;
use zydeco_session::{CompilerSession, SourceLoadError};
fn main() {
    let n = 4usize;
    let dir = PathBuf::from("/tmp/p5/g"); let _ = std::fs::remove_dir_all(&dir); std::fs::create_dir_all(&dir).unwrap();
    let fnames = ["a.zy", "a.zyi", "b.zy", "b.zyi"];
    let names: Vec<PathBuf> = fnames.iter().map(|f| dir.join(f)).collect();
    for p in &names { std::fs::write(p, "()").unwrap(); }   // files exist, so identities are canonical (avoids F9)
    let idx: HashMap<PathBuf, usize> = names.iter().enumerate().map(|(i, p)| (p.canonicalize().unwrap(), i)).collect();
    let mut session = CompilerSession::default();
    let (mut checked, mut bad, mut cyc) = (0u64, 0u64, 0u64);
    for mask in 0u64..(1u64 << (n * n)) {
        let mut imp = vec![vec![false; n]; n];
        for i in 0..n { for j in 0..n { if mask >> (i * n + j) & 1 == 1 { imp[i][j] = true; } } }
        for i in 0..n {
            let imps: Vec<String> = (0..n).filter(|&j| imp[i][j]).map(|j| format!("@(import(\"{}\"))", fnames[j])).collect();
            let text = if imps.is_empty() { "()".to_string() } else { format!("({}, ())", imps.join(", ")) };
            session.set_overlay(&names[i], text).unwrap();
        }
        let mut adj = imp.clone(); adj[0][1] = true; adj[2][3] = true;      // companion edges
        let mut seen = vec![false; n]; let mut st = vec![0]; seen[0] = true;
        while let Some(i) = st.pop() { for j in 0..n { if adj[i][j] && !seen[j] { seen[j] = true; st.push(j); } } }
        let mut r = adj.clone(); for k in 0..n { for i in 0..n { for j in 0..n { if r[i][k] && r[k][j] { r[i][j] = true; } } } }
        let cyclic = (0..n).any(|i| seen[i] && r[i][i]);
        let mut ok = true; let mut why = String::new();
        match session.graph(&names[0]) {
            Ok(g) => {
                if cyclic { ok = false; why = "cycle missed".into(); }
                let srcs: BTreeSet<usize> = g.sources.iter().map(|(_, f)| idx[&f.path]).collect();
                let want: BTreeSet<usize> = (0..n).filter(|&i| seen[i]).collect();
                if srcs != want || g.sources.len() != want.len() { ok = false; why = format!("sources {srcs:?} want {want:?}"); }
                for (_, f) in g.sources.iter() { let i = idx[&f.path]; let has = f.signature.is_some(); if has != (i == 0 || i == 2) { ok = false; why = format!("signature link wrong for {i}"); } }
                let order: Vec<usize> = g.provider_order().iter().map(|s| idx[&g.sources[s].path]).collect();
                for (pos, &i) in order.iter().enumerate() { for j in 0..n { if adj[i][j] && !order[..pos].contains(&j) { ok = false; why = format!("order {order:?}"); } } }
            }
            Err(e) => match &*e {
                SourceLoadError::Cycle(c) => { cyc += 1; if !cyclic { ok = false; why = "spurious cycle".into(); }
                    let steps: Vec<(usize, usize)> = c.steps.iter().map(|s| (idx[&s.dependent], idx[&s.dependency])).collect();
                    for (k, &(a, b)) in steps.iter().enumerate() { if !adj[a][b] { ok = false; why = format!("non-edge {a}->{b}"); } if b != steps[(k + 1) % steps.len()].0 { ok = false; why = format!("not closed {steps:?}"); } } }
                other => { ok = false; why = format!("other error {other}"); }
            },
        }
        checked += 1; if !ok { bad += 1; if bad <= 5 { println!("BAD imp={imp:?} {why}"); } }
    }
    println!("checked={checked} cyclic={cyc} bad={bad}");
}
