SPECIFICATION Spec
CONSTANT MaxLen = 5
INVARIANT Report
CHECK_DEADLOCK FALSE
