---- MODULE ZyLexerSketch ----
(* Sketch for C11: the parser-facing lexer as a machine over token CLASSES.
   StrayClose = "end"  models the pinned code (`break None` on `-/` at depth 0),
   StrayClose = "emit" models the intended design (the token reaches the grammar, which rejects it).
   AtEof = "silent" models the pinned code (end of input inside a comment is just end of input),
   AtEof = "error"  models the intended design. *)
EXTENDS Naturals, Sequences, TLC
CONSTANTS MaxLen, StrayClose, AtEof

Classes == {"Code", "Open", "Close", "Line", "Unknown"}

VARIABLES input, pos, depth, emitted, ended, error
vars == <<input, pos, depth, emitted, ended, error>>

Init == /\ input \in UNION {[1..n -> Classes] : n \in 0..MaxLen}
        /\ pos = 1 /\ depth = 0 /\ emitted = << >> /\ ended = FALSE /\ error = FALSE

Tok == input[pos]
Advance == pos' = pos + 1 /\ UNCHANGED input

SkipLine  == ~ended /\ pos <= Len(input) /\ Tok = "Line" /\ Advance /\ UNCHANGED <<depth, emitted, ended, error>>
OpenC     == ~ended /\ pos <= Len(input) /\ Tok = "Open" /\ Advance /\ depth' = depth + 1 /\ UNCHANGED <<emitted, ended, error>>
CloseC    == ~ended /\ pos <= Len(input) /\ Tok = "Close" /\ depth > 0 /\ Advance /\ depth' = depth - 1 /\ UNCHANGED <<emitted, ended, error>>
EndOnStrayClose ==
             ~ended /\ pos <= Len(input) /\ Tok = "Close" /\ depth = 0 /\ StrayClose = "end"
             /\ ended' = TRUE /\ UNCHANGED <<input, pos, depth, emitted, error>>
EmitStrayClose ==
             ~ended /\ pos <= Len(input) /\ Tok = "Close" /\ depth = 0 /\ StrayClose = "emit"
             /\ Advance /\ emitted' = Append(emitted, pos) /\ error' = TRUE /\ UNCHANGED <<depth, ended>>
SkipInComment == ~ended /\ pos <= Len(input) /\ Tok \in {"Code", "Unknown"} /\ depth > 0 /\ Advance /\ UNCHANGED <<depth, emitted, ended, error>>
EmitTok   == ~ended /\ pos <= Len(input) /\ Tok \in {"Code", "Unknown"} /\ depth = 0 /\ Advance
             /\ emitted' = Append(emitted, pos) /\ error' = (error \/ Tok = "Unknown") /\ UNCHANGED <<depth, ended>>
Eof       == ~ended /\ pos > Len(input) /\ ended' = TRUE
             /\ error' = (error \/ (depth > 0 /\ AtEof = "error")) /\ UNCHANGED <<input, pos, depth, emitted>>

Next == SkipLine \/ OpenC \/ CloseC \/ EndOnStrayClose \/ EmitStrayClose \/ SkipInComment \/ EmitTok \/ Eof
        \/ (ended /\ UNCHANGED vars)
Spec == Init /\ [][Next]_vars

(* Independent reading of the same input (what the tooling lexer sees): nesting depth before position i,
   where a stray Close does not change depth. *)
RECURSIVE DepthBefore(_)
DepthBefore(i) ==
  IF i = 1 THEN 0
  ELSE LET d == DepthBefore(i - 1) t == input[i - 1] IN
       IF t = "Open" THEN d + 1 ELSE IF t = "Close" /\ d > 0 THEN d - 1 ELSE d

OutsideComments == {i \in 1..Len(input) : input[i] \in {"Code", "Unknown"} /\ DepthBefore(i) = 0}
Irregular == \/ \E i \in 1..Len(input) : input[i] = "Close" /\ DepthBefore(i) = 0
             \/ DepthBefore(Len(input) + 1) > 0
             \/ \E i \in OutsideComments : input[i] = "Unknown"
Range(s) == {s[i] : i \in 1..Len(s)}

\* C11: when the stream has ended, either an error is raised or every token outside comments reached the parser.
NoSilentTruncation == ended => (error \/ (OutsideComments \subseteq Range(emitted) /\ ~Irregular))
====
