import re, json, os, sys
AR={"var":0,"unit":0,"fn":1,"fnp":1,"fix":1,"do":2,"let":2,"pair":2,"match":3,"block":3}
class R:
    def __init__(s): s.buf=[]; s.pos=0; s.use={}; s.bind={}
    def w(s,t): s.buf.append(t); s.pos+=len(t)
    def name(s,n,key,table): table[key]=s.pos; s.w(n)
def render(toks):
    r=R()
    def go(i):
        t=toks[i]; k=t["k"]; j=i+1
        if k=="var": r.name(t["n"],i,r.use); return j
        if k=="unit": r.w("()"); return j
        r.w("(")
        if k=="fn": r.w("fn "); r.name(t["n1"],(i,1),r.bind); r.w(" => "); j=go(j)
        elif k=="fix": r.w("fix "); r.name(t["n1"],(i,1),r.bind); r.w(" => "); j=go(j)
        elif k=="fnp": r.w("fn ("); r.name(t["n1"],(i,1),r.bind); r.w(", "); r.name(t["n2"],(i,2),r.bind); r.w(") => "); j=go(j)
        elif k=="do": r.w("do "); r.name(t["n1"],(i,1),r.bind); r.w(" <- "); j=go(j); r.w("; "); j=go(j)
        elif k=="let": r.w("let "); r.name(t["n1"],(i,1),r.bind); r.w(" = "); j=go(j); r.w(" in "); j=go(j)
        elif k=="pair": j=go(j); r.w(", "); j=go(j)
        elif k=="match": r.w("match "); j=go(j); r.w(" | +A("); r.name(t["n1"],(i,1),r.bind); r.w(") => "); j=go(j); r.w(" | +B("); r.name(t["n2"],(i,2),r.bind); r.w(") => "); j=go(j); r.w(" end")
        elif k=="block": r.w("begin let "); r.name(t["n1"],(i,1),r.bind); r.w(" = "); j=go(j); r.w(" that let "); r.name(t["n2"],(i,2),r.bind); r.w(" = "); j=go(j); r.w(" that "); j=go(j); r.w(" end")
        r.w(")"); return j
    go(0)
    return "".join(r.buf), r.use, r.bind
out=sys.argv[2]; os.makedirs(out,exist_ok=True); exp=[]; i=0
for line in open(sys.argv[1]):
    if "REPLAY" not in line: continue
    m=re.search(r'"REPLAY", "(.*)">>',line); c=json.loads(json.loads('"'+m.group(1)+'"'))
    src,use,bind=render(c["prog"])
    mp={}; unbound=[]
    for e in c["res"]:
        u=use[e["use"]-1]
        if e["tok"]==0: unbound.append(c["prog"][e["use"]-1]["n"])
        else: mp[str(u)]=bind[(e["tok"]-1,e["slot"])]
    open("%s/p%d.zy"%(out,i),"w").write(src+"\n"); exp.append({"map":mp,"unbound":sorted(set(unbound)),"dup":c["dup"]}); i+=1
json.dump(exp,open(out+"/expected.json","w")); print(i)
