---- MODULE Sps ----
EXTENDS Integers, Sequences, TLC, FiniteSets, Json, SequencesExt

P == JsonDeserialize("prog.json")
C(id) == P.compus[id]
V(id) == P.values[id]
S(id) == P.stacks[id]
VP(id) == P.vpats[id]

VARIABLES ctl, venv, stk, out, res, steps
vars == <<ctl, venv, stk, out, res, steps>>

Ext(env, d, v) == [x \in (DOMAIN env) \cup {d} |-> IF x = d THEN v ELSE env[x]]

\* runtime values: lit / triv / ctor / prod(fs) / clo(env, code) / block(label, body)
Fields(v) == IF v.k = "prod" THEN v.fs ELSE <<v>>

RECURSIVE EvalV(_, _)
EvalV(id, env) ==
  LET n == V(id) IN
  CASE n.k = "var" -> env[n.d]
    [] n.k = "lit" -> [k |-> "lit", v |-> n.lit]
    [] n.k = "triv" -> [k |-> "triv"]
    [] n.k = "ctor" -> [k |-> "ctor", idx |-> n.idx, a |-> EvalV(n.v, env)]
    [] n.k = "block" -> [k |-> "block", label |-> n.label, body |-> n.body]
    [] n.k = "clo" -> [k |-> "clo", env |-> EvalV(n.env, env), code |-> EvalV(n.code, env)]
    [] n.k = "vcons" ->
         LET m == Len(n.vs)
             vs == [i \in 1..m |-> EvalV(n.vs[i], env)]
         IN [k |-> "prod", fs |-> IF m < n.arity THEN SubSeq(vs, 1, m - 1) \o Fields(vs[m]) ELSE vs]

RECURSIVE EvalS(_, _, _)
EvalS(id, env, amb) ==
  LET n == S(id) IN
  CASE n.k = "bullet" -> amb
    [] n.k = "arg" -> <<[t |-> "arg", v |-> EvalV(n.v, env)]>> \o EvalS(n.s, env, amb)
    [] n.k = "tag" -> <<[t |-> "tag", idx |-> n.idx]>> \o EvalS(n.s, env, amb)
    [] n.k = "kont" -> <<[t |-> "kont", code |-> EvalV(n.code, env), rest |-> EvalS(n.s, env, amb)]>>

\* pattern matching: returns [ok, env]
RECURSIVE Bind(_, _, _), BindAll(_, _, _)
Bind(pid, v, env) ==
  LET p == VP(pid) IN
  CASE p.k = "hole" -> [ok |-> TRUE, env |-> env]
    [] p.k = "var" -> [ok |-> TRUE, env |-> Ext(env, p.d, v)]
    [] p.k = "triv" -> [ok |-> v.k = "triv", env |-> env]
    [] p.k = "ctor" -> IF v.k = "ctor" /\ v.idx = p.idx THEN Bind(p.p, v.a, env) ELSE [ok |-> FALSE, env |-> env]
    [] p.k = "alias" -> BindAll(p.ps, [i \in 1..Len(p.ps) |-> v], env)
    [] p.k = "vcons" ->
         IF v.k # "prod" THEN [ok |-> FALSE, env |-> env]
         ELSE LET m == Len(p.ps) f == v.fs
                  vals == IF m < p.arity THEN SubSeq(f, 1, m - 1) \o <<[k |-> "prod", fs |-> SubSeq(f, m, Len(f))]>> ELSE f
              IN IF Len(vals) # m THEN [ok |-> FALSE, env |-> env] ELSE BindAll(p.ps, vals, env)
BindAll(ps, vs, env) ==
  IF ps = << >> THEN [ok |-> TRUE, env |-> env]
  ELSE LET r == Bind(Head(ps), Head(vs), env) IN IF r.ok THEN BindAll(Tail(ps), Tail(vs), r.env) ELSE r

Enter(code, stack) == /\ ctl' = code.body /\ venv' = (code.label :> code) /\ stk' = stack
IntOf(v) == v.v.n
LitInt(n) == [k |-> "lit", v |-> [l |-> "int", n |-> n]]

Init == ctl = P.root /\ venv = << >> /\ stk = << >> /\ out = << >> /\ res = "none" /\ steps = 0

Step ==
  /\ res = "none"
  /\ steps' = steps + 1
  /\ LET n == C(ctl) IN
     CASE n.k = "jump" ->
            LET b == EvalV(n.v, venv) IN Enter(b, EvalS(n.s, venv, stk)) /\ UNCHANGED <<out, res>>
       [] n.k = "letv" ->
            LET r == Bind(n.p, EvalV(n.v, venv), venv) IN
            /\ Assert(r.ok, "letv bind") /\ venv' = r.env /\ ctl' = n.c /\ UNCHANGED <<stk, out, res>>
       [] n.k = "pmatch" ->
            LET r == Bind(n.p, EvalV(n.v, venv), venv) IN
            /\ Assert(r.ok, "pmatch bind") /\ venv' = r.env /\ ctl' = n.c /\ UNCHANGED <<stk, out, res>>
       [] n.k = "lets" -> /\ stk' = EvalS(n.s, venv, stk) /\ ctl' = n.c /\ UNCHANGED <<venv, out, res>>
       [] n.k = "leta" ->
            LET s == EvalS(n.s, venv, stk) r == Bind(n.p, Head(s).v, venv) IN
            /\ Assert(s # << >> /\ Head(s).t = "arg" /\ r.ok, "leta")
            /\ venv' = r.env /\ stk' = Tail(s) /\ ctl' = n.c /\ UNCHANGED <<out, res>>
       [] n.k = "cmatch" ->
            LET v == EvalV(n.v, venv)
                hits == SelectSeq(n.arms, LAMBDA a : Bind(a.p, v, venv).ok) IN
            /\ Assert(hits # << >>, "no arm") /\ venv' = Bind(hits[1].p, v, venv).env /\ ctl' = hits[1].c /\ UNCHANGED <<stk, out, res>>
       [] n.k = "cocase" ->
            LET s == EvalS(n.s, venv, stk)
                hits == SelectSeq(n.arms, LAMBDA a : a.idx = Head(s).idx) IN
            /\ Assert(s # << >> /\ Head(s).t = "tag" /\ hits # << >>, "cocase")
            /\ stk' = Tail(s) /\ ctl' = hits[1].c /\ UNCHANGED <<venv, out, res>>
       [] n.k = "openclo" ->
            LET v == EvalV(n.v, venv) r1 == Bind(n.pe, v.env, venv) r2 == Bind(n.pc, v.code, r1.env) IN
            /\ Assert(v.k = "clo" /\ r1.ok /\ r2.ok, "openclo") /\ venv' = r2.env /\ ctl' = n.c /\ UNCHANGED <<stk, out, res>>
       [] n.k = "openkont" ->
            LET s == EvalS(n.s, venv, stk) r == Bind(n.pc, Head(s).code, venv) IN
            /\ Assert(s # << >> /\ Head(s).t = "kont" /\ r.ok, "openkont")
            /\ venv' = r.env /\ stk' = Head(s).rest /\ ctl' = n.c /\ UNCHANGED <<out, res>>
       [] n.k = "extern" ->
            LET s == EvalS(n.s, venv, stk)
                a(i) == s[i].v
                rest == SubSeq(s, n.arity + 1, Len(s))
                Return(v) == /\ Assert(rest # << >> /\ Head(rest).t = "kont", "extern return")
                             /\ Enter(Head(rest).code, <<[t |-> "arg", v |-> v]>> \o Head(rest).rest) /\ UNCHANGED <<out, res>>
                Force(c) == Enter(c.code, <<[t |-> "arg", v |-> c.env]>> \o rest)
            IN CASE n.f = "int64_add" -> Return(LitInt(IntOf(a(1)) + IntOf(a(2))))
                 [] n.f = "int64_sub" -> Return(LitInt(IntOf(a(1)) - IntOf(a(2))))
                 [] n.f = "int64_mul" -> Return(LitInt(IntOf(a(1)) * IntOf(a(2))))
                 [] n.f = "int64_lt_branch" -> Force(IF IntOf(a(1)) < IntOf(a(2)) THEN a(3) ELSE a(4)) /\ UNCHANGED <<out, res>>
                 [] n.f = "int64_eq_branch" -> Force(IF IntOf(a(1)) = IntOf(a(2)) THEN a(3) ELSE a(4)) /\ UNCHANGED <<out, res>>
                 [] n.f = "exit" -> res' = IntOf(a(1)) /\ UNCHANGED <<ctl, venv, stk, out>>

Next == Step \/ (res # "none" /\ UNCHANGED vars)
Spec == Init /\ [][Next]_vars
Report == res # "none" => PrintT(<<"RESULT", res, steps>>)
====
