---- MODULE ZySessionConcSketch ----
(* Sketch for C17: owner + analysers on snapshots that SHARE storage (reads see the current contents),
   salsa-style cancellation, and a writer that must wait until no snapshot is running.
   WriterWaits = FALSE is the deliberately wrong variant: TLC then finds a mixed-revision result. *)
EXTENDS Integers, FiniteSets, TLC
CONSTANTS Analysers, Files, Vals, MaxWrites, WriterWaits

None == -1
NoWrite == [on |-> FALSE, f |-> CHOOSE f \in Files : TRUE, v |-> 0]
VARIABLES content, rev, cancel, pending, writes, an
vars == <<content, rev, cancel, pending, writes, an>>

Idle == [st |-> "idle", snap |-> [f \in Files |-> 0], read |-> [f \in Files |-> None], result |-> [f \in Files |-> None]]

Init == /\ content = [f \in Files |-> 0] /\ rev = 0 /\ cancel = FALSE /\ pending = NoWrite /\ writes = 0
        /\ an = [a \in Analysers |-> Idle]

Snapshot(a) == /\ an[a].st = "idle" /\ ~pending.on
               /\ an' = [an EXCEPT ![a] = [st |-> "running", snap |-> content, read |-> [f \in Files |-> None], result |-> [f \in Files |-> None]]]
               /\ UNCHANGED <<content, rev, cancel, pending, writes>>
BeginWrite(f, v) == /\ ~pending.on /\ writes < MaxWrites /\ content[f] # v
                    /\ pending' = [on |-> TRUE, f |-> f, v |-> v] /\ cancel' = TRUE /\ writes' = writes + 1
                    /\ UNCHANGED <<content, rev, an>>
CommitWrite == /\ pending.on
               /\ (WriterWaits => \A a \in Analysers : an[a].st # "running")
               /\ content' = [content EXCEPT ![pending.f] = pending.v] /\ rev' = rev + 1
               /\ cancel' = FALSE /\ pending' = NoWrite /\ UNCHANGED <<writes, an>>
ReadInput(a, f) == /\ an[a].st = "running" /\ an[a].read[f] = None /\ ~cancel
                   /\ an' = [an EXCEPT ![a].read[f] = content[f]]          \* shared storage: sees CURRENT contents
                   /\ UNCHANGED <<content, rev, cancel, pending, writes>>
Cancel(a) == /\ an[a].st = "running" /\ cancel /\ \E f \in Files : an[a].read[f] = None
             /\ an' = [an EXCEPT ![a].st = "cancelled"] /\ UNCHANGED <<content, rev, cancel, pending, writes>>
Finish(a) == /\ an[a].st = "running" /\ \A f \in Files : an[a].read[f] # None
             /\ an' = [an EXCEPT ![a].st = "done", ![a].result = an[a].read]
             /\ UNCHANGED <<content, rev, cancel, pending, writes>>
Drop(a) == /\ an[a].st \in {"done", "cancelled"} /\ an' = [an EXCEPT ![a] = Idle]
           /\ UNCHANGED <<content, rev, cancel, pending, writes>>

AnStep(a) == (\E f \in Files : ReadInput(a, f)) \/ Cancel(a) \/ Finish(a) \/ Drop(a)
Next == (\E a \in Analysers : Snapshot(a) \/ AnStep(a)) \/ (\E f \in Files, v \in Vals : BeginWrite(f, v)) \/ CommitWrite
Spec == Init /\ [][Next]_vars /\ WF_vars(CommitWrite) /\ \A a \in Analysers : WF_vars(AnStep(a))

Isolation == \A a \in Analysers : an[a].st = "done" => an[a].result = an[a].snap
WriteCompletes == pending.on ~> ~pending.on
====
