// Throw-away probe: real occurrence -> binder map by source offsets (C07 observation).
use std::path::Path;
use zydeco_syntax::SpanView;
use zydeco_surface::scoped::syntax::Term;
fn main() {
    let p = std::env::args().nth(1).unwrap();
    let session = zydeco_session::CompilerSession::default();
    match session.analyze(Path::new(&p)) {
        Ok(a) => {
            let ctx = (a.spans(), a.scoped());
            let mut rows = vec![];
            for (id, term) in a.scoped().terms.iter() {
                if let Term::Var(def) = term {
                    rows.push((id.span(&ctx).get_cursor1(), def.span(&ctx).get_cursor1(), a.scoped().defs[def].0.clone()));
                }
            }
            rows.sort();
            for r in rows { println!("use {:?} -> binder {:?} ({})", r.0, r.1, r.2); }
            println!("outcome checked={}", a.outcome().root().is_some()); // map is available for Rejected analyses too
        }
        Err(e) => println!("ERR {e}"), // e.g. "Resolution error: Unbound variable: x (/…/s4.zy:1:9 - 1:10)"
    }
}
