---- MODULE ZySessionSketch ----
(* Sketch for C15: the session as a state machine over {disk, overlay}; answers are defined FROM SCRATCH
   (no memo tables in the spec). BFS enumerates every history of MaxOps operations and prints it with the
   expected answer after every operation. *)
EXTENDS Integers, Sequences, FiniteSets, TLC, Json
CONSTANT MaxOps

Files == {"root", "lib", "sig", "oth"}
ABSENT == "absent"
NONE == "none"
Variants == [ root |-> {"R1", "R2", "R3", "R4", "R5"},
              lib  |-> {"L1", "L2", "L3", "L4", "L5", "L6"},
              sig  |-> {"S1", "S2", "S3", "S4"},
              oth  |-> {"O1", "O2", "O3"} ]
Imports(v) == CASE v = "R1" -> <<"lib">> [] v = "R2" -> <<"lib", "lib">> [] v = "R5" -> <<"oth">>
                [] v = "L4" -> <<"root">> [] v = "L6" -> <<"oth">> [] v = "O3" -> <<"lib">> [] OTHER -> << >>
Parses(v) == v \notin {"R4", "L3", "S3"}
Companion(f) == IF f = "lib" THEN "sig" ELSE NONE

VARIABLES disk, overlay, hist, pend
vars == <<disk, overlay, hist, pend>>
NoOp == [o |-> "none", f |-> "root", v |-> NONE]
Eff(f) == IF overlay[f] # NONE THEN overlay[f] ELSE disk[f]

OK(seen) == [err |-> "none", at |-> NONE, seen |-> seen]
\* DFS in the loader's order: imports in site order, then the companion; `seen` is filled before recursion.
RECURSIVE Visit(_, _), VisitAll(_, _)
VisitAll(fs, seen) ==
  IF fs = << >> THEN OK(seen)
  ELSE LET r == Visit(Head(fs), seen) IN IF r.err # "none" THEN r ELSE VisitAll(Tail(fs), r.seen)
Visit(f, seen) ==
  IF f \in seen THEN OK(seen)
  ELSE LET v == Eff(f) IN
       IF v = ABSENT THEN [err |-> "missing", at |-> f, seen |-> seen]
       ELSE IF ~Parses(v) THEN [err |-> "parse", at |-> f, seen |-> seen]
       ELSE LET r == VisitAll(Imports(v), seen \cup {f}) IN
            IF r.err # "none" THEN r
            ELSE LET c == Companion(f) IN
                 IF c # NONE /\ Eff(c) # ABSENT THEN Visit(c, r.seen) ELSE r

Edges(seen) == {<<f, g>> \in seen \X seen : (\E i \in 1..Len(Imports(Eff(f))) : Imports(Eff(f))[i] = g) \/ (Companion(f) = g)}
RECURSIVE ReachFrom(_, _, _)
ReachFrom(S, E, n) == IF n = 0 THEN S ELSE ReachFrom(S \cup {e[2] : e \in {x \in E : x[1] \in S}}, E, n - 1)
Cyclic(seen) == LET E == Edges(seen) IN \E f \in seen : f \in ReachFrom({e[2] : e \in {x \in E : x[1] = f}}, E, 4)

Graph == LET r == Visit("root", {}) IN
         IF r.err # "none" THEN [k |-> r.err, at |-> r.at, files |-> {}]
         ELSE IF Cyclic(r.seen) THEN [k |-> "cycle", at |-> NONE, files |-> {}]
         ELSE [k |-> "ok", at |-> NONE, files |-> r.seen]

\* types of provider files, only meaningful on an acyclic, loaded graph
RECURSIVE Ty(_, _)
Ty(f, n) == LET v == Eff(f) IN
  IF n = 0 THEN "?" ELSE
  CASE v \in {"L1", "O1"} -> "unit" [] v \in {"L2", "O2"} -> "int" [] v = "L5" -> "tyerr"
    [] v = "L6" -> Ty("oth", n - 1) [] v = "O3" -> Ty("lib", n - 1) [] OTHER -> "?"
SigTy == CASE Eff("sig") = "S1" -> "unit" [] Eff("sig") = "S2" -> "int" [] OTHER -> "nottype"
Analyze == LET g == Graph IN
  IF g.k # "ok" THEN g.k
  ELSE IF "lib" \in g.files /\ (Ty("lib", 4) = "tyerr" \/ ("sig" \in g.files /\ SigTy # Ty("lib", 4))) THEN "rejected"
  ELSE "checked"
Answer == LET g == Graph IN [graph |-> g, analyze |-> Analyze]

Init == /\ disk = [f \in Files |-> IF f = "root" THEN "R1" ELSE ABSENT]
        /\ overlay = [f \in Files |-> NONE] /\ hist = << >> /\ pend = NoOp
Log(op) == pend' = op /\ UNCHANGED hist
Observe == pend.o # "none" /\ hist' = Append(hist, [op |-> pend, expect |-> Answer]) /\ pend' = NoOp /\ UNCHANGED <<disk, overlay>>
SetOverlay(f, v) == overlay' = [overlay EXCEPT ![f] = v] /\ UNCHANGED disk /\ Log([o |-> "set_overlay", f |-> f, v |-> v])
ClearOverlay(f)  == overlay[f] # NONE /\ overlay' = [overlay EXCEPT ![f] = NONE] /\ UNCHANGED disk /\ Log([o |-> "clear_overlay", f |-> f, v |-> NONE])
Write(f, v)      == disk[f] # v /\ disk' = [disk EXCEPT ![f] = v] /\ UNCHANGED overlay /\ Log([o |-> "write_refresh", f |-> f, v |-> v])
Delete(f)        == disk[f] # ABSENT /\ disk' = [disk EXCEPT ![f] = ABSENT] /\ UNCHANGED overlay /\ Log([o |-> "delete_refresh", f |-> f, v |-> NONE])
Next == \/ Observe
        \/ /\ Len(hist) < MaxOps /\ pend.o = "none"
           /\ \E f \in Files : ClearOverlay(f) \/ Delete(f) \/ \E v \in Variants[f] : SetOverlay(f, v) \/ Write(f, v)
Spec == Init /\ [][Next]_vars
Report == (Len(hist) = MaxOps /\ pend.o = "none") => PrintT(<<"REPLAY", ToJson(hist)>>)
====
