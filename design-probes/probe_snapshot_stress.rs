use std::path::PathBuf;
use std::sync::mpsc;
use std::time::{Duration, Instant};
use zydeco_session::{CompilerSession, AnalysisOutcome};
struct Rng(u64);
impl Rng { fn next(&mut self) -> u64 { self.0 ^= self.0 << 13; self.0 ^= self.0 >> 7; self.0 ^= self.0 << 17; self.0 } fn pick(&mut self, n: usize) -> usize { (self.next() % n as u64) as usize } }
fn classify(s: &CompilerSession, root: &PathBuf) -> String {
    match s.analyze(root) { Ok(a) => match a.outcome() { AnalysisOutcome::Checked { .. } => "checked".into(), AnalysisOutcome::Rejected { .. } => "rejected".into() }, Err(e) => format!("err:{}", format!("{e}").replace("\n"," ").chars().take(160).collect::<String>()) }
}
fn main() {
    let seed: u64 = std::env::args().nth(1).unwrap().parse().unwrap();
    let workers: usize = std::env::args().nth(2).unwrap().parse().unwrap();
    let secs: u64 = std::env::args().nth(3).unwrap().parse().unwrap();
    std::panic::set_hook(Box::new(|_| {}));
    let dir = PathBuf::from("/tmp/p1/cc"); let _ = std::fs::remove_dir_all(&dir); std::fs::create_dir_all(&dir).unwrap();
    let root = dir.join("root.zy"); let lib = dir.join("lib.zy");
    // lib variants with known outcome for root = import lib with big prelude to make analysis non-trivial
    let prelude = "param ((/core; /numeric; /system) : @(import(\"/repo/lib/std/builtin.zy\"))) in let (/process) = system in ";
    let root_src = format!("{prelude} ! (process/exit) (@(import(\"lib.zy\")))");
    let variants = [("1", "checked"), ("2", "checked"), ("()", "rejected"), ("(", "err"), ("\"s\"", "rejected")];
    std::fs::write(&root, &root_src).unwrap(); std::fs::write(&lib, "1").unwrap();
    let mut session = CompilerSession::default();
    let (res_tx, res_rx) = mpsc::channel::<(usize, &'static str, String)>();
    let mut txs = vec![];
    for w in 0..workers {
        let (tx, rx) = mpsc::channel::<(CompilerSession, &'static str)>();
        txs.push(tx);
        let res_tx = res_tx.clone(); let root = root.clone();
        std::thread::spawn(move || {
            for (snap, want) in rx {
                let r = salsa::Cancelled::catch(std::panic::AssertUnwindSafe(|| classify(&snap, &root)));
                drop(snap);
                let got = match r { Ok(s) => s, Err(c) => format!("cancelled:{c:?}") };
                let _ = res_tx.send((w, want, got));
            }
        });
    }
    let mut rng = Rng(seed.wrapping_mul(0x9E3779B97F4A7C15) | 1);
    let t0 = Instant::now(); let mut cur = variants[0].1; let mut sent = 0usize; let mut writes = 0usize; let mut maxblock = Duration::ZERO;
    while t0.elapsed() < Duration::from_secs(secs) {
        for _ in 0..(1 + rng.pick(workers)) { let w = rng.pick(workers); txs[w].send((session.snapshot(), cur)).unwrap(); sent += 1; }
        if rng.pick(3) == 0 { std::thread::sleep(Duration::from_micros(rng.pick(30000) as u64)); }
        let v = variants[rng.pick(variants.len())];
        let t1 = Instant::now();
        session.set_overlay(&lib, v.0.to_string()).unwrap();
        maxblock = maxblock.max(t1.elapsed()); writes += 1; cur = v.1;
    }
    drop(txs);
    let mut ok = 0; let mut cancelled = 0; let mut wrong = vec![]; let mut n = 0;
    while n < sent { match res_rx.recv_timeout(Duration::from_secs(30)) { Ok((w, want, got)) => { n += 1; if got.starts_with("cancelled") { cancelled += 1 } else if got.starts_with(want) { ok += 1 } else { wrong.push((w, want, got)); } } Err(_) => { println!("TIMEOUT waiting for results: {n}/{sent}"); break; } } }
    println!("seed={seed} workers={workers} sent={sent} writes={writes} ok={ok} cancelled={cancelled} wrong={} max_write_block={:?}", wrong.len(), maxblock);
    for w in wrong.iter().take(5) { println!("  WRONG {w:?}"); }
}
