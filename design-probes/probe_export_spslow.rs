// Throw-away probe: export the real SpsLowProgram as JSON for Sps.tla (C18/C19). usage: probe FILE.zy OUT.json
use std::path::Path;
use serde_json::{json, Value as J, Map};
use zydeco_stackir::sps_low::syntax::*;
fn k<T: std::fmt::Debug>(id: &T) -> String { format!("{id:?}").replace(' ', "") }
fn lit(l: &Literal) -> J { match l { Literal::Integer(i) => json!({"l":"int","n": i.value() as i64}), Literal::String(s) => json!({"l":"str","s": s.as_str()}), Literal::Char(c) => json!({"l":"char","s": c.to_string()}), Literal::Float(f) => json!({"l":"float","s": format!("{f:?}")}) } }
fn main() {
    let path = std::env::args().nth(1).unwrap();
    let out = std::env::args().nth(2).unwrap();
    let b = zydeco_cli::CommandCompiler::default().lower(Path::new(&path)).unwrap();
    let arena = b.sps_low.arena();
    let inner = &arena.inner;
    let ids = |v: Vec<String>| v;
    let mut vp = Map::new();
    for (id, p) in inner.vpats.iter() {
        vp.insert(k(id), match p {
            ValuePattern::Hole(_) => json!({"k":"hole"}),
            ValuePattern::Var(d) => json!({"k":"var","d":k(d)}),
            ValuePattern::Ctor(Ctor(c, p)) => json!({"k":"ctor","idx":c.idx,"p":k(p)}),
            ValuePattern::Alias(Alias(ps)) => json!({"k":"alias","ps": ids(ps.iter().map(k).collect())}),
            ValuePattern::Triv(_) => json!({"k":"triv"}),
            ValuePattern::VCons(VCons { items, layout }) => json!({"k":"vcons","ps": ids(items.iter().map(k).collect()), "arity": layout.arity}),
        });
    }
    let mut vals = Map::new();
    for (id, v) in inner.values.iter() {
        vals.insert(k(id), match v {
            Value::Hole(_) => json!({"k":"hole"}),
            Value::Var(d) => json!({"k":"var","d":k(d)}),
            Value::Block(Block { label, body }) => json!({"k":"block","label":k(label),"body":k(body)}),
            Value::ClosurePackage(ClosurePackage { environment, code }) => json!({"k":"clo","env":k(environment),"code":k(code)}),
            Value::Ctor(Ctor(c, v)) => json!({"k":"ctor","idx":c.idx,"v":k(v)}),
            Value::Triv(_) => json!({"k":"triv"}),
            Value::VCons(VCons { items, layout }) => json!({"k":"vcons","vs": ids(items.iter().map(k).collect()), "arity": layout.arity}),
            Value::Literal(l) => json!({"k":"lit","lit": lit(l)}),
            Value::Complex(Complex { operator, operands }) => json!({"k":"complex","op":operator,"vs": ids(operands.iter().map(k).collect())}),
        });
    }
    let mut stks = Map::new();
    for (id, s) in inner.stacks.iter() {
        stks.insert(k(id), match s {
            Stack::Var(_) => json!({"k":"bullet"}),
            Stack::Arg(Cons(v, s)) => json!({"k":"arg","v":k(v),"s":k(s)}),
            Stack::Tag(Cons(d, s)) => json!({"k":"tag","idx":d.idx,"s":k(s)}),
            Stack::ContinuationPackage(ContinuationPackage { code, residual }) => json!({"k":"kont","code":k(code),"s":k(residual)}),
        });
    }
    let mut cs = Map::new();
    for (id, c) in inner.compus.iter() {
        cs.insert(k(id), match c {
            Computation::Hole(SHole(s)) => json!({"k":"hole","s":k(s)}),
            Computation::Jump(Jump { target, stack }) => json!({"k":"jump","v":k(target),"s":k(stack)}),
            Computation::ProductMatch(SProductMatch { scrut, binder, body }) => json!({"k":"pmatch","v":k(scrut),"p":k(binder),"c":k(body)}),
            Computation::CoprodMatch(SCoprodMatch { scrut, arms }) => json!({"k":"cmatch","v":k(scrut),"arms": arms.iter().map(|m| json!({"p":k(&m.binder),"c":k(&m.tail)})).collect::<Vec<_>>()}),
            Computation::LetValue(LetValue { binder, bindee, body }) => json!({"k":"letv","p":k(binder),"v":k(bindee),"c":k(body)}),
            Computation::LetStack(LetStack { bindee, body }) => json!({"k":"lets","s":k(bindee),"c":k(body)}),
            Computation::LetArg(LetArg { binder, bindee, body }) => json!({"k":"leta","p":k(binder),"s":k(bindee),"c":k(body)}),
            Computation::CoCase(SCoMatch { scrut, arms }) => json!({"k":"cocase","s":k(scrut),"arms": arms.iter().map(|m| json!({"idx":m.dtor.0.idx,"c":k(&m.tail)})).collect::<Vec<_>>()}),
            Computation::OpenClosure(OpenClosure { package, environment, code, body }) => json!({"k":"openclo","v":k(package),"pe":k(environment),"pc":k(code),"c":k(body)}),
            Computation::OpenContinuation(OpenContinuation { package, code, body }) => json!({"k":"openkont","s":k(package),"pc":k(code),"c":k(body)}),
            Computation::ExternCall(ExternCall { function, stack }) => json!({"k":"extern","f":function,"arity": arena.admin.builtins[function].arity, "s":k(stack)}),
        });
    }
    let prog = json!({"root": k(&b.sps_low.root()), "vpats": vp, "values": vals, "stacks": stks, "compus": cs});
    std::fs::write(&out, serde_json::to_string(&prog).unwrap()).unwrap();
}
