---- MODULE L1 ----
EXTENDS Integers, Sequences, TLC, FiniteSets, Json
CONSTANTS MaxLen, Fuel, Faults

TInt == [t |-> "int"]
TUnit == [t |-> "unit"]
OS == [t |-> "os"]
Thk(C) == [t |-> "thk", c |-> C]
Ret(A) == [t |-> "ret", a |-> A]
Fn(A, C) == [t |-> "fn", a |-> A, c |-> C]
TB == [t |-> "data", n |-> "B"]          \* data | +T : Unit | +F : Int64 end
TPair(A, B) == [t |-> "pair", a |-> A, b |-> B]
TS == [t |-> "codata", n |-> "S"]        \* codata | .fst : Ret Int64 | .snd : Int64 -> Ret Int64 end
DtorTy(d) == IF d = "fst" THEN Ret(TInt) ELSE Fn(TInt, Ret(TInt))
ArgTys == {TInt, TB, TPair(TInt, TInt), Thk(TS)}

VARIABLES phase, out, todo, faulty, ctl, env, stk, res, steps
vars == <<phase, out, todo, faulty, ctl, env, stk, res, steps>>
Ob(s, ty, ctx) == [s |-> s, ty |-> ty, ctx |-> ctx]

Arity(tok) ==
  CASE tok.k \in {"var", "int", "unit"} -> 0
    [] tok.k \in {"thunk", "ret", "lam", "force", "exit", "ctor", "dtor", "fix"} -> 1
    [] tok.k \in {"do", "app", "let", "add", "pair", "matchP", "comatch", "matchB1"} -> 2
    [] tok.k \in {"matchB"} -> 3

RECURSIVE Parse(_, _)
Parse(toks, i) ==
  LET tok == toks[i] n == Arity(tok) IN
  IF n = 0 THEN <<tok, i + 1>>
  ELSE IF n = 1 THEN LET a == Parse(toks, i + 1) IN <<tok @@ [x1 |-> a[1]], a[2]>>
  ELSE IF n = 2 THEN LET a == Parse(toks, i + 1) b == Parse(toks, a[2]) IN <<tok @@ [x1 |-> a[1], x2 |-> b[1]], b[2]>>
  ELSE LET a == Parse(toks, i + 1) b == Parse(toks, a[2]) c == Parse(toks, b[2]) IN <<tok @@ [x1 |-> a[1], x2 |-> b[1], x3 |-> c[1]], c[2]>>

RECURSIVE EvalV(_, _)
EvalV(v, e) ==
  CASE v.k = "var" -> e[v.i]
    [] v.k = "int" -> [k |-> "int", n |-> v.n]
    [] v.k = "unit" -> [k |-> "unit"]
    [] v.k = "thunk" -> [k |-> "clo", b |-> v.x1, e |-> e]
    [] v.k = "ctor" -> [k |-> "ctor", c |-> v.c, a |-> EvalV(v.x1, e)]
    [] v.k = "pair" -> [k |-> "pair", a |-> EvalV(v.x1, e), b |-> EvalV(v.x2, e)]

Stuck ==
  /\ phase = "run"
  /\ \/ ctl.k = "lam" /\ (stk = << >> \/ Head(stk).t # "arg")
     \/ ctl.k = "ret" /\ stk # << >> /\ Head(stk).t # "kont"
     \/ ctl.k = "force" /\ EvalV(ctl.x1, env).k # "clo"
     \/ ctl.k = "add" /\ (EvalV(ctl.x1, env).k # "int" \/ EvalV(ctl.x2, env).k # "int")
     \/ ctl.k = "exit" /\ EvalV(ctl.x1, env).k # "int"
     \/ ctl.k \in {"matchB", "matchB1"} /\ EvalV(ctl.x1, env).k # "ctor"
     \/ ctl.k = "matchB1" /\ EvalV(ctl.x1, env).c # "T"
     \/ ctl.k = "matchP" /\ EvalV(ctl.x1, env).k # "pair"
     \/ ctl.k = "comatch" /\ (stk = << >> \/ Head(stk).t # "dtor")

Init ==
  /\ phase = "gen" /\ out = << >> /\ todo = <<Ob("c", OS, << >>)>> /\ faulty = "none"
  /\ ctl = [k |-> "none"] /\ env = << >> /\ stk = << >> /\ res = "none" /\ steps = 0

Emit(tok, obs) == /\ out' = Append(out, tok) /\ todo' = obs \o Tail(todo)
                  /\ UNCHANGED <<phase, ctl, env, stk, res, steps>>
Good(tok, obs) == Emit(tok, obs) /\ UNCHANGED faulty
Bad(f, tok, obs) == f \in Faults /\ faulty = "none" /\ faulty' = f /\ Emit(tok, obs)

Gen ==
  /\ phase = "gen" /\ todo # << >>
  /\ Len(out) + Len(todo) <= MaxLen
  /\ LET o == Head(todo) ty == o.ty ctx == o.ctx IN
     IF o.s = "v" THEN
        \/ \E i \in 1..Len(ctx) : ctx[i] = ty /\ Good([k |-> "var", i |-> i], << >>)
        \/ ty = TInt /\ \E n \in {1, 2} : Good([k |-> "int", n |-> n], << >>)
        \/ ty = TUnit /\ Good([k |-> "unit"], << >>)
        \/ ty.t = "thk" /\ Good([k |-> "thunk", c |-> ty.c], <<Ob("c", ty.c, ctx)>>)
        \/ ty = TB /\ Good([k |-> "ctor", c |-> "T"], <<Ob("v", TUnit, ctx)>>)
        \/ ty = TB /\ Good([k |-> "ctor", c |-> "F"], <<Ob("v", TInt, ctx)>>)
        \/ ty.t = "pair" /\ Good([k |-> "pair", a |-> ty.a, b |-> ty.b], <<Ob("v", ty.a, ctx), Ob("v", ty.b, ctx)>>)
        \/ ty = TInt /\ Bad("lit", [k |-> "unit"], << >>)
        \/ ty = TB /\ Bad("ctorpayload", [k |-> "ctor", c |-> "F"], <<Ob("v", TUnit, ctx)>>)
     ELSE
        \/ ty.t = "ret" /\ Good([k |-> "ret", a |-> ty.a], <<Ob("v", ty.a, ctx)>>)
        \/ ty.t = "fn" /\ Good([k |-> "lam", a |-> ty.a, c |-> ty.c], <<Ob("c", ty.c, Append(ctx, ty.a))>>)
        \/ \E A \in ArgTys : Good([k |-> "do", a |-> A, c |-> ty], <<Ob("c", Ret(A), ctx), Ob("c", ty, Append(ctx, A))>>)
        \/ \E A \in {TInt} : Good([k |-> "app", a |-> A, c |-> ty], <<Ob("c", Fn(A, ty), ctx), Ob("v", A, ctx)>>)
        \/ Good([k |-> "force", c |-> ty], <<Ob("v", Thk(ty), ctx)>>)
        \/ \E A \in ArgTys : Good([k |-> "let", a |-> A, c |-> ty], <<Ob("v", A, ctx), Ob("c", ty, Append(ctx, A))>>)
        \/ ty = Ret(TInt) /\ Good([k |-> "add"], <<Ob("v", TInt, ctx), Ob("v", TInt, ctx)>>)
        \/ ty = OS /\ Good([k |-> "exit"], <<Ob("v", TInt, ctx)>>)
        \/ Good([k |-> "matchB", c |-> ty], <<Ob("v", TB, ctx), Ob("c", ty, Append(ctx, TUnit)), Ob("c", ty, Append(ctx, TInt))>>)
        \/ Good([k |-> "matchP", c |-> ty], <<Ob("v", TPair(TInt, TInt), ctx), Ob("c", ty, ctx \o <<TInt, TInt>>)>>)
        \/ ty = TS /\ Good([k |-> "comatch"], <<Ob("c", DtorTy("fst"), ctx), Ob("c", DtorTy("snd"), ctx)>>)
        \/ \E d \in {"fst", "snd"} : ty = DtorTy(d) /\ Good([k |-> "dtor", d |-> d], <<Ob("c", TS, ctx)>>)
        \/ ty # OS /\ Good([k |-> "fix", c |-> ty], <<Ob("c", ty, Append(ctx, Thk(ty)))>>)
        \/ Bad("missingarm", [k |-> "matchB1", c |-> ty], <<Ob("v", TB, ctx), Ob("c", ty, Append(ctx, TUnit))>>)
        \/ ty = Fn(TInt, Ret(TInt)) /\ Bad("dtorty", [k |-> "dtor", d |-> "fst"], <<Ob("c", TS, ctx)>>)

Start ==
  /\ phase = "gen" /\ todo = << >>
  /\ phase' = "run" /\ ctl' = Parse(out, 1)[1] /\ env' = << >> /\ stk' = << >>
  /\ UNCHANGED <<out, todo, faulty, res, steps>>

Goto(c, e, s) == ctl' = c /\ env' = e /\ stk' = s /\ UNCHANGED <<phase, res>>
Run ==
  /\ phase = "run" /\ ~Stuck
  /\ UNCHANGED <<out, todo, faulty>>
  /\ IF steps >= Fuel THEN phase' = "done" /\ res' = "fuel" /\ UNCHANGED <<ctl, env, stk, steps>>
     ELSE
     /\ steps' = steps + 1
     /\ CASE ctl.k = "ret" ->
              LET v == EvalV(ctl.x1, env) IN
              IF stk = << >> THEN phase' = "done" /\ res' = "ret" /\ UNCHANGED <<ctl, env, stk>>
              ELSE Goto(Head(stk).b, Append(Head(stk).e, v), Tail(stk))
         [] ctl.k = "do" -> Goto(ctl.x1, env, <<[t |-> "kont", b |-> ctl.x2, e |-> env]>> \o stk)
         [] ctl.k = "force" -> LET v == EvalV(ctl.x1, env) IN Goto(v.b, v.e, stk)
         [] ctl.k = "lam" -> Goto(ctl.x1, Append(env, Head(stk).v), Tail(stk))
         [] ctl.k = "app" -> Goto(ctl.x1, env, <<[t |-> "arg", v |-> EvalV(ctl.x2, env)]>> \o stk)
         [] ctl.k = "let" -> Goto(ctl.x2, Append(env, EvalV(ctl.x1, env)), stk)
         [] ctl.k = "add" -> Goto([k |-> "ret", x1 |-> [k |-> "int", n |-> EvalV(ctl.x1, env).n + EvalV(ctl.x2, env).n]], env, stk)
         [] ctl.k = "exit" -> phase' = "done" /\ res' = EvalV(ctl.x1, env).n /\ UNCHANGED <<ctl, env, stk>>
         [] ctl.k = "matchB" -> LET v == EvalV(ctl.x1, env) IN Goto(IF v.c = "T" THEN ctl.x2 ELSE ctl.x3, Append(env, v.a), stk)
         [] ctl.k = "matchB1" -> LET v == EvalV(ctl.x1, env) IN Goto(ctl.x2, Append(env, v.a), stk)
         [] ctl.k = "matchP" -> LET v == EvalV(ctl.x1, env) IN Goto(ctl.x2, env \o <<v.a, v.b>>, stk)
         [] ctl.k = "comatch" -> Goto(IF Head(stk).d = "fst" THEN ctl.x1 ELSE ctl.x2, env, Tail(stk))
         [] ctl.k = "dtor" -> Goto(ctl.x1, env, <<[t |-> "dtor", d |-> ctl.d]>> \o stk)
         [] ctl.k = "fix" -> Goto(ctl.x1, Append(env, [k |-> "clo", b |-> ctl, e |-> env]), stk)

Next == Gen \/ Start \/ Run \/ (phase = "done" /\ UNCHANGED vars)
Spec == Init /\ [][Next]_vars

TypeSafety == faulty \in {"none"} => ~Stuck
Report == phase = "done" => PrintT(<<"REPLAY", ToJson([prog |-> out, res |-> ToString(res), faulty |-> faulty, steps |-> steps])>>)
ReportStuck == (Stuck /\ faulty # "none") => PrintT(<<"REPLAY", ToJson([prog |-> out, res |-> "stuck", faulty |-> faulty, steps |-> steps])>>)
====
