// Throw-away probe: call one host role through a hand-built DynamicsProgram in a real Runtime (C05/C06).
use std::rc::Rc;
use zydeco_dynamics::{Runtime, ProgKont};
use zydeco_dynamics::syntax::*;
fn lit(l: Literal) -> RcValue { Rc::new(Value::Lit(l)) }
fn thunk_ret(code: i64, nargs: usize) -> RcValue { // { fn _ .. _ => ret code }
    let mut body: Computation = Return(lit(Literal::Integer(IntegerLiteral::Int64(code)))).into();
    for _ in 0..nargs { body = Abs(Rc::new(ValuePattern::Hole(Hole)), Rc::new(body)).into(); }
    Rc::new(Value::Thunk(Thunk(Rc::new(body))))
}
fn run(role: BuiltinValueRole, args: Vec<RcValue>) -> String {
    let mut c: Computation = Prim { arity: role.arity() as u64, role }.into();
    for a in args { c = App(Rc::new(c), a).into(); }           // first element = first declared argument
    let program = DynamicsProgram { defs: Default::default(), root: Rc::new(c) };
    let mut input = std::io::BufReader::new(std::io::empty());
    let mut output: Vec<u8> = Vec::new();
    let argv: Vec<String> = vec![];
    match std::panic::catch_unwind(std::panic::AssertUnwindSafe(|| Runtime::new(&mut input, &mut output, &argv, program).run())) {
        Ok(ProgKont::Ret(v)) => format!("ret {v:?}"), Ok(ProgKont::ExitCode(c)) => format!("exit {c}"), Ok(ProgKont::Dry) => "dry".into(), Err(_) => "panic".into() }
}
fn main() {
    std::panic::set_hook(Box::new(|_| {}));
    let i8l = |n: i8| lit(Literal::Integer(IntegerLiteral::Int8(n)));
    let i64l = |n: i64| lit(Literal::Integer(IntegerLiteral::Int64(n)));
    println!("{}", run(BuiltinValueRole::Integer(IntegerType::Int8, IntegerOperation::Add), vec![i8l(127), i8l(1)]));    // ret -128
    println!("{}", run(BuiltinValueRole::Integer(IntegerType::Int8, IntegerOperation::Div), vec![i8l(-128), i8l(-1)])); // ret -128
    println!("{}", run(BuiltinValueRole::Integer(IntegerType::Int8, IntegerOperation::Div), vec![i8l(1), i8l(0)]));     // panic (trap)
    println!("{}", run(BuiltinValueRole::Integer(IntegerType::Int8, IntegerOperation::Lt), vec![i8l(-1), i8l(1), thunk_ret(1,0), thunk_ret(0,0)])); // ret 1
    let s = lit(Literal::String("éλ🙂".into()));
    println!("{}", run(BuiltinValueRole::StrGet, vec![s.clone(), i64l(2), thunk_ret(100,0), thunk_ret(200,1)])); // ret 200 (some)
    println!("{}", run(BuiltinValueRole::StrGet, vec![s.clone(), i64l(3), thunk_ret(100,0), thunk_ret(200,1)])); // ret 100 (none)
    println!("{}", run(BuiltinValueRole::StrScalarLength, vec![s.clone()]));                                      // 3
    println!("{}", run(BuiltinValueRole::StrByteLength, vec![s]));                                                // 8
}
