SPECIFICATION Spec
CONSTANTS MaxLen = 9
 Fuel = 200
INVARIANTS TypeSafety Report
CHECK_DEADLOCK FALSE
