---- MODULE Bv ----
(* Sketch for C05: W-bit arithmetic on little-endian bit sequences; checked against mathematics at W = 8. *)
EXTENDS Integers, Sequences, TLC, FiniteSets
CONSTANTS W, N

RECURSIVE ToBv(_, _)
ToBv(x, n) == IF n = 0 THEN << >> ELSE <<x % 2>> \o ToBv(x \div 2, n - 1)
RECURSIVE ToNat(_)
ToNat(b) == IF b = << >> THEN 0 ELSE b[1] + 2 * ToNat(Tail(b))

RECURSIVE AddC(_, _, _)
AddC(a, b, c) == IF a = << >> THEN << >> ELSE LET s == a[1] + b[1] + c IN <<s % 2>> \o AddC(Tail(a), Tail(b), s \div 2)
BvAdd(a, b) == AddC(a, b, 0)
Not(a) == [i \in 1..Len(a) |-> 1 - a[i]]
One(n) == [i \in 1..n |-> IF i = 1 THEN 1 ELSE 0]
Zero(n) == [i \in 1..n |-> 0]
BvNeg(a) == BvAdd(Not(a), One(Len(a)))
BvSub(a, b) == BvAdd(a, BvNeg(b))
Shl1(a) == <<0>> \o SubSeq(a, 1, Len(a) - 1)
RECURSIVE MulAcc(_, _, _)
MulAcc(a, b, acc) == IF b = << >> THEN acc ELSE MulAcc(Shl1(a), Tail(b), IF b[1] = 1 THEN BvAdd(acc, a) ELSE acc)
BvMul(a, b) == MulAcc(a, b, Zero(Len(a)))
\* unsigned comparison, most significant bit first
RECURSIVE ULt(_, _)
ULt(a, b) == IF a = << >> THEN FALSE ELSE LET n == Len(a) IN IF a[n] # b[n] THEN a[n] < b[n] ELSE ULt(SubSeq(a, 1, n - 1), SubSeq(b, 1, n - 1))
\* restoring division: returns <<q, r>>
RECURSIVE DivStep(_, _, _, _, _)
DivStep(a, b, i, q, r) ==
  IF i = 0 THEN <<q, r>>
  ELSE LET r1 == <<a[i]>> \o SubSeq(r, 1, Len(r) - 1)
           ge == ~ULt(r1, b)
       IN DivStep(a, b, i - 1, [q EXCEPT ![i] = IF ge THEN 1 ELSE 0], IF ge THEN BvSub(r1, b) ELSE r1)
BvUDivRem(a, b) == DivStep(a, b, Len(a), Zero(Len(a)), Zero(Len(a)))

\* (1) exhaustive agreement with mathematics at W = 8
M == 256
Check8 == \A x \in 0..255, y \in 0..255 :
   LET a == ToBv(x, 8) b == ToBv(y, 8) IN
   /\ ToNat(BvAdd(a, b)) = (x + y) % M /\ ToNat(BvSub(a, b)) = (x - y + M) % M /\ ToNat(BvMul(a, b)) = (x * y) % M
   /\ (y # 0 => LET qr == BvUDivRem(a, b) IN ToNat(qr[1]) = x \div y /\ ToNat(qr[2]) = x % y)
   /\ ULt(a, b) = (x < y)
\* (2) throughput at width W: N pseudo-random operand pairs built from bit patterns
Pat(k, n) == [i \in 1..n |-> ((k * 7 + i * i * 3 + (k \div 3) * i) % 5) % 2]
Bench == \A k \in 1..N : LET a == Pat(k, W) b == Pat(k + 17, W) qr == BvUDivRem(BvMul(a, b), [b EXCEPT ![1] = 1]) IN Len(qr[1]) = W
ASSUME PrintT(<<"start">>)
ASSUME PrintT(<<"Check8", Check8, JavaTime>>)
ASSUME PrintT(<<"Bench", W, N, Bench, JavaTime>>)
====
