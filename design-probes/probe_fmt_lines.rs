// Throw-away probe: format sources under several options and compare the desugared structure before/after (C12),
// idempotence (C14), panics. Structure dump = Debug of bitter nodes with ids recursively expanded.
use std::collections::HashMap;
use std::sync::Arc;
use regex::Regex;
use zydeco_surface::textual::{Lexer, SourceUnitParser, syntax::Parser, fmt::{PrettyFormatter, PrettyOptions, LayoutIntentions, Parentheses}};
use zydeco_surface::bitter::{SourceUnitDesugarer, syntax as b};
use zydeco_utils::span::{FileInfo, LocationCtx};
use zydeco_utils::pass::CompilerPass;
struct Dump { terms: HashMap<String, String>, pats: HashMap<String, String>, defs: HashMap<String, String>, re: Regex }
impl Dump {
    fn go(&self, s: &str, depth: usize) -> String {
        if depth > 400 { return "<deep>".into(); }
        self.re.replace_all(s, |c: &regex::Captures| { let key = c[0].to_string();
            if key.starts_with("TermId") { self.terms.get(&key).map(|t| self.go(t, depth + 1)).unwrap_or(key) }
            else if key.starts_with("PatId") { self.pats.get(&key).map(|t| self.go(t, depth + 1)).unwrap_or(key) }
            else { self.defs.get(&key).cloned().unwrap_or(key) } }).into_owned()
    }
}
fn structure(src: &str) -> Result<String, String> {
    let info = FileInfo::new(src, Some(Arc::new(std::path::PathBuf::from("mem.zy"))));
    let loc = LocationCtx::File(info);
    let mut parser = Parser::new();
    let unit = SourceUnitParser::new().parse(src, &loc, &mut parser, Lexer::new(src)).map_err(|e| format!("parse: {e:?}").chars().take(120).collect::<String>())?;
    let (spans, arena) = parser.finish();
    let d = SourceUnitDesugarer::new(&spans, &arena, unit).run().map_err(|e| format!("desugar: {e}"))?;
    let a: &b::BitterArena = &d.arena;
    let dump = Dump { terms: a.terms.iter().map(|(id, t)| (format!("{id:?}"), format!("{t:?}"))).collect(), pats: a.pats.iter().map(|(id, t)| (format!("{id:?}"), format!("{t:?}"))).collect(), defs: a.defs.iter().map(|(id, t)| (format!("{id:?}"), format!("{t:?}"))).collect(), re: Regex::new(r"(TermId|PatId|DefId)\(\d+, \d+\)").unwrap() };
    Ok(dump.go(&format!("{:?}", d.root), 0))
}
fn fmt(src: &str, opt: PrettyOptions) -> Result<String, String> {
    let info = FileInfo::new(src, Some(Arc::new(std::path::PathBuf::from("mem.zy"))));
    let loc = LocationCtx::File(info);
    let mut parser = Parser::new();
    let unit = SourceUnitParser::new().parse(src, &loc, &mut parser, Lexer::new(src)).map_err(|e| format!("parse: {e:?}").chars().take(120).collect::<String>())?;
    std::panic::catch_unwind(std::panic::AssertUnwindSafe(|| PrettyFormatter::with_options_source(&parser.arena, &parser.spans, opt, src).render_unit(unit))).map_err(|e| format!("PANIC {:?}", e.downcast_ref::<String>().cloned().or(e.downcast_ref::<&str>().map(|s| s.to_string()))))
}
fn main() {
    std::panic::set_hook(Box::new(|_| {}));
    let file = std::env::args().nth(1).unwrap();
    let text = std::fs::read_to_string(&file).unwrap();
    let (mut n, mut skipped, mut panics, mut changed, mut nonidem, mut reparse) = (0, 0, 0, 0, 0, 0);
    if std::env::args().nth(2).as_deref() == Some("dump") { for src in text.lines() { println!("{}\n  {:?}", src, structure(&src.replace("\\n", "\n"))); } return; }
    for src in text.lines() {
        let src = src.replace("\\n", "\n");
        let Ok(s0) = structure(&src) else { skipped += 1; if skipped <= 5 { println!("INPUT DOES NOT PARSE: {src} :: {:?}", structure(&src).err()); } continue };
        for w in [1usize, 20, 100] { for lay in [LayoutIntentions::Preserve, LayoutIntentions::Ignore] { for par in [Parentheses::Minimal, Parentheses::Preserve] {
            let opt = PrettyOptions::default().with_line_width(w).with_layout_intentions(lay).with_parentheses(par); n += 1;
            match fmt(&src, opt) {
                Err(e) => { panics += 1; println!("PANIC\t{src}\tw={w} {lay:?} {par:?}\t{e}"); }
                Ok(o1) => { match structure(&o1) { Err(e) => { reparse += 1; println!("UNPARSABLE\t{src}\tw={w} {lay:?} {par:?}\t{}\t{e}", o1.replace("\n", "\\n")); } Ok(s1) => if s1 != s0 { changed += 1; println!("CHANGED\t{src}\tw={w} {lay:?} {par:?}\t{}", o1.replace("\n", "\\n")); } }
                    if let Ok(o2) = fmt(&o1, opt) { if o2 != o1 { nonidem += 1; println!("NONIDEM\t{src}\tw={w} {lay:?} {par:?}\t{}\t{}", o1.replace("\n", "\\n"), o2.replace("\n", "\\n")); } } }
            }
        }}}
    }
    println!("inputs_skipped={skipped} configs={n} panics={panics} output_unparsable={reparse} structure_changed={changed} nonidempotent={nonidem}");
}
