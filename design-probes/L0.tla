---- MODULE L0 ----
EXTENDS Integers, Sequences, TLC, FiniteSets, Json
CONSTANTS MaxLen, Fuel

TInt == [t |-> "int"]
Unit == [t |-> "unit"]
OS == [t |-> "os"]
Thk(C) == [t |-> "thk", c |-> C]
Ret(A) == [t |-> "ret", a |-> A]
Fn(A, C) == [t |-> "fn", a |-> A, c |-> C]
ArgTys == {TInt, Thk(Ret(TInt))}

VARIABLES phase, out, todo, ctl, env, stk, res, steps
vars == <<phase, out, todo, ctl, env, stk, res, steps>>

Ob(s, ty, ctx) == [s |-> s, ty |-> ty, ctx |-> ctx]

(* ---------- decoding prefix tokens into a tree ---------- *)
Arity(tok) ==
  CASE tok.k \in {"var", "int", "unit"} -> 0
    [] tok.k \in {"thunk", "ret", "lam", "force", "exit"} -> 1
    [] tok.k \in {"do", "app", "let", "add"} -> 2

RECURSIVE Parse(_, _)
\* returns <<tree, next index>>
Parse(toks, i) ==
  LET tok == toks[i] n == Arity(tok) IN
  IF n = 0 THEN <<tok, i + 1>>
  ELSE IF n = 1 THEN LET a == Parse(toks, i + 1) IN <<[tok EXCEPT !.k = tok.k] @@ [x1 |-> a[1]], a[2]>>
  ELSE LET a == Parse(toks, i + 1) b == Parse(toks, a[2]) IN <<tok @@ [x1 |-> a[1], x2 |-> b[1]], b[2]>>

(* ---------- machine ---------- *)
RECURSIVE EvalV(_, _)
EvalV(v, e) ==
  CASE v.k = "var" -> e[v.i]
    [] v.k = "int" -> [k |-> "int", n |-> v.n]
    [] v.k = "unit" -> [k |-> "unit"]
    [] v.k = "thunk" -> [k |-> "clo", b |-> v.x1, e |-> e]

Stuck ==
  /\ phase = "run"
  /\ \/ ctl.k = "lam" /\ (stk = << >> \/ Head(stk).t # "arg")
     \/ ctl.k = "ret" /\ stk # << >> /\ Head(stk).t # "kont"
     \/ ctl.k = "force" /\ EvalV(ctl.x1, env).k # "clo"
     \/ ctl.k = "add" /\ (EvalV(ctl.x1, env).k # "int" \/ EvalV(ctl.x2, env).k # "int")
     \/ ctl.k = "exit" /\ EvalV(ctl.x1, env).k # "int"

Init ==
  /\ phase = "gen" /\ out = << >> /\ todo = <<Ob("c", OS, << >>)>>
  /\ ctl = [k |-> "none"] /\ env = << >> /\ stk = << >> /\ res = "none" /\ steps = 0

Emit(tok, obs) == /\ out' = Append(out, tok) /\ todo' = obs \o Tail(todo)
                  /\ UNCHANGED <<phase, ctl, env, stk, res, steps>>

Gen ==
  /\ phase = "gen" /\ todo # << >>
  /\ Len(out) + Len(todo) <= MaxLen
  /\ LET o == Head(todo) ty == o.ty ctx == o.ctx IN
     IF o.s = "v" THEN
        \/ \E i \in 1..Len(ctx) : ctx[i] = ty /\ Emit([k |-> "var", i |-> i], << >>)
        \/ ty = TInt /\ \E n \in {1, 2} : Emit([k |-> "int", n |-> n], << >>)
        \/ ty = Unit /\ Emit([k |-> "unit"], << >>)
        \/ ty.t = "thk" /\ Emit([k |-> "thunk", c |-> ty.c], <<Ob("c", ty.c, ctx)>>)
     ELSE
        \/ ty.t = "ret" /\ Emit([k |-> "ret", a |-> ty.a], <<Ob("v", ty.a, ctx)>>)
        \/ ty.t = "fn" /\ Emit([k |-> "lam", a |-> ty.a, c |-> ty.c], <<Ob("c", ty.c, Append(ctx, ty.a))>>)
        \/ \E A \in ArgTys : Emit([k |-> "do", a |-> A, c |-> ty], <<Ob("c", Ret(A), ctx), Ob("c", ty, Append(ctx, A))>>)
        \/ \E A \in ArgTys : Emit([k |-> "app", a |-> A, c |-> ty], <<Ob("c", Fn(A, ty), ctx), Ob("v", A, ctx)>>)
        \/ Emit([k |-> "force", c |-> ty], <<Ob("v", Thk(ty), ctx)>>)
        \/ \E A \in ArgTys : Emit([k |-> "let", a |-> A, c |-> ty], <<Ob("v", A, ctx), Ob("c", ty, Append(ctx, A))>>)
        \/ ty = Ret(TInt) /\ Emit([k |-> "add"], <<Ob("v", TInt, ctx), Ob("v", TInt, ctx)>>)
        \/ ty = OS /\ Emit([k |-> "exit"], <<Ob("v", TInt, ctx)>>)

Start ==
  /\ phase = "gen" /\ todo = << >>
  /\ phase' = "run" /\ ctl' = Parse(out, 1)[1] /\ env' = << >> /\ stk' = << >>
  /\ UNCHANGED <<out, todo, res, steps>>

Run ==
  /\ phase = "run" /\ ~Stuck /\ steps < Fuel
  /\ steps' = steps + 1
  /\ UNCHANGED <<out, todo>>
  /\ CASE ctl.k = "ret" ->
            LET v == EvalV(ctl.x1, env) IN
            IF stk = << >> THEN phase' = "done" /\ res' = "ret" /\ UNCHANGED <<ctl, env, stk>>
            ELSE LET f == Head(stk) IN
                 ctl' = f.b /\ env' = Append(f.e, v) /\ stk' = Tail(stk) /\ UNCHANGED <<phase, res>>
       [] ctl.k = "do" ->
            ctl' = ctl.x1 /\ stk' = <<[t |-> "kont", b |-> ctl.x2, e |-> env]>> \o stk /\ UNCHANGED <<env, phase, res>>
       [] ctl.k = "force" ->
            LET v == EvalV(ctl.x1, env) IN ctl' = v.b /\ env' = v.e /\ UNCHANGED <<stk, phase, res>>
       [] ctl.k = "lam" ->
            ctl' = ctl.x1 /\ env' = Append(env, Head(stk).v) /\ stk' = Tail(stk) /\ UNCHANGED <<phase, res>>
       [] ctl.k = "app" ->
            ctl' = ctl.x1 /\ stk' = <<[t |-> "arg", v |-> EvalV(ctl.x2, env)]>> \o stk /\ UNCHANGED <<env, phase, res>>
       [] ctl.k = "let" ->
            ctl' = ctl.x2 /\ env' = Append(env, EvalV(ctl.x1, env)) /\ UNCHANGED <<stk, phase, res>>
       [] ctl.k = "add" ->
            ctl' = [k |-> "ret", x1 |-> [k |-> "int", n |-> EvalV(ctl.x1, env).n + EvalV(ctl.x2, env).n]]
            /\ UNCHANGED <<env, stk, phase, res>>
       [] ctl.k = "exit" ->
            phase' = "done" /\ res' = EvalV(ctl.x1, env).n /\ UNCHANGED <<ctl, env, stk>>

Next == Gen \/ Start \/ Run \/ (phase = "done" /\ UNCHANGED vars)
Spec == Init /\ [][Next]_vars

TypeSafety == ~Stuck
Report == phase = "done" => PrintT(<<"REPLAY", ToJson([prog |-> out, res |-> res, steps |-> steps])>>)
====
