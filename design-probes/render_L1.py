import json, sys, re
PRELUDE = '''param (
  (/core; /numeric; /system) :
  @(import("/repo/lib/std/builtin.zy"))
) in
let (/VType; /CType; /Thk; /Ret; /Unit) = core in
let (Scalar = Int64, int64) = numeric/int64 in
let (/process; /OS) = system in
let B = data | +T : Unit | +F : Int64 end in
let S = codata | .fst : Ret Int64 | .snd : Int64 -> Ret Int64 end in
'''
def ty(t):
    k=t["t"]
    if k=="int": return "Int64"
    if k=="unit": return "Unit"
    if k=="os": return "OS"
    if k=="data": return "B"
    if k=="codata": return "S"
    if k=="pair": return "(%s * %s)"%(ty(t["a"]),ty(t["b"]))
    if k=="thk": return "Thk (%s)"%ty(t["c"])
    if k=="ret": return "Ret (%s)"%ty(t["a"])
    if k=="fn": return "(%s) -> %s"%(ty(t["a"]), ty(t["c"]))
AR={"var":0,"int":0,"unit":0,"thunk":1,"ret":1,"lam":1,"force":1,"exit":1,"ctor":1,"dtor":1,"fix":1,"do":2,"app":2,"let":2,"add":2,"pair":2,"matchP":2,"comatch":2,"matchB1":2,"matchB":3}
def parse(toks,i):
    t=toks[i]; kids=[]; j=i+1
    for _ in range(AR[t["k"]]):
        c,j=parse(toks,j); kids.append(c)
    return (t,kids),j
TB={"t":"data","n":"B"}; TS={"t":"codata","n":"S"}
def dt(d): return {"t":"ret","a":{"t":"int"}} if d=="fst" else {"t":"fn","a":{"t":"int"},"c":{"t":"ret","a":{"t":"int"}}}
def rv(n,ctx,an):
    t,k=n; kd=t["k"]
    if kd=="var": return ctx[t["i"]-1]
    if kd=="int": return str(t["n"])
    if kd=="unit": return "()"
    if kd=="thunk":
        b=rc(k[0],ctx,an); return "({ %s } : Thk (%s))"%(b,ty(t["c"])) if an else "{ %s }"%b
    if kd=="ctor":
        s="+%s(%s)"%(t["c"],rv(k[0],ctx,an)); return "(%s : B)"%s if an else s
    if kd=="pair":
        s="(%s, %s)"%(rv(k[0],ctx,an),rv(k[1],ctx,an)); return "(%s : %s * %s)"%(s,ty(t["a"]),ty(t["b"])) if an else s
def wrap(s,t,an): return "(%s : %s)"%(s,ty(t)) if an else "(%s)"%s
def rc(n,ctx,an):
    t,k=n; kd=t["k"]; x="x%d"%len(ctx)
    if kd=="ret": return "ret %s"%rv(k[0],ctx,an)
    if kd=="lam": return "fn (%s : %s) => %s"%(x,ty(t["a"]),rc(k[0],ctx+[x],an))
    if kd=="do": return "do %s <- %s; %s"%(x,wrap(rc(k[0],ctx,an),{"t":"ret","a":t["a"]},an),rc(k[1],ctx+[x],an))
    if kd=="app": return "%s %s"%(wrap(rc(k[0],ctx,an),{"t":"fn","a":t["a"],"c":t["c"]},an),rv(k[1],ctx,an))
    if kd=="force":
        v=rv(k[0],ctx,an); return "! (%s : Thk (%s))"%(v,ty(t["c"])) if an else "! %s"%v
    if kd=="let": return "let %s : %s = %s in %s"%(x,ty(t["a"]),rv(k[0],ctx,an),rc(k[1],ctx+[x],an))
    if kd=="add": return "! (int64/add) %s %s"%(rv(k[0],ctx,an),rv(k[1],ctx,an))
    if kd=="exit": return "! (process/exit) %s"%rv(k[0],ctx,an)
    if kd=="matchB":
        s="match %s | +T(%s) => %s | +F(%s) => %s end"%(rv(k[0],ctx,an),x,rc(k[1],ctx+[x],an),x,rc(k[2],ctx+[x],an)); return wrap(s,t["c"],an) if an else s
    if kd=="matchB1":
        s="match %s | +T(%s) => %s end"%(rv(k[0],ctx,an),x,rc(k[1],ctx+[x],an)); return wrap(s,t["c"],an) if an else s
    if kd=="matchP":
        y="x%d"%(len(ctx)+1)
        s="match %s | (%s, %s) => %s end"%(rv(k[0],ctx,an),x,y,rc(k[1],ctx+[x,y],an)); return wrap(s,t["c"],an) if an else s
    if kd=="comatch":
        s="comatch | .fst => %s | .snd => %s end"%(rc(k[0],ctx,an),rc(k[1],ctx,an)); return wrap(s,TS,an) if an else s
    if kd=="dtor": return "%s .%s"%(wrap(rc(k[0],ctx,an),TS,an),t["d"])
    if kd=="fix": return "fix (%s : Thk (%s)) => %s"%(x,ty(t["c"]),rc(k[0],ctx+[x],an))
an=sys.argv[2]=="1"; outdir=sys.argv[3]; exp=[]; i=0; seen=set()
for line in open(sys.argv[1]):
    if "REPLAY" not in line: continue
    m=re.search(r'"REPLAY", "(.*)">>',line)
    case=json.loads(json.loads('"'+m.group(1)+'"'))
    key=json.dumps(case["prog"])
    if key in seen: continue
    seen.add(key)
    tree,_=parse(case["prog"],0)
    open("%s/p%d.zy"%(outdir,i),"w").write(PRELUDE+"("+rc(tree,[],an)+" : OS)\n")
    exp.append({"res":case["res"],"faulty":case["faulty"]}); i+=1
json.dump(exp,open("%s/expected.json"%outdir,"w")); print(i)
