import itertools, random, sys
random.seed(7)
def wrap(s): return ["("+s+")", s]
V0 = ["x", "()", "1"]
C0 = ["ret x", "! x"]
T0 = ["A", "Unit"]
def types(d):
    if d == 0: return T0
    sub = types(d-1)
    out = list(sub)
    for a in sub:
        for wa in wrap(a):
            out += [f"Thk {wa}", f"Ret {wa}", f"forall (X : VType) . {wa}", f"exists (X : VType) . {wa}", f"F {wa}", f"F {wa} {wa}"]
    for a, b in itertools.product(sub, sub):
        for wa in wrap(a):
            for wb in wrap(b):
                out += [f"{wa} -> {wb}", f"{wa} * {wb}"]
    return list(dict.fromkeys(out))
def vals(d, C):
    if d == 0: return V0
    sub = vals(d-1, C)
    out = list(sub)
    for a in sub:
        for wa in wrap(a):
            out += [f"+A {wa}", f"+A({a})", f"({a} : T)", f"{wa}/f", f"(f = {a})"]
    for a, b in itertools.product(sub, sub):
        for wa in wrap(a):
            for wb in wrap(b):
                out += [f"({wa}, {wb})"]
    for c in C: out += ["{ "+c+" }"]
    return list(dict.fromkeys(out))
def comps(d):
    if d == 0: return C0
    sub = comps(d-1)
    V = vals(d-1, sub) if d-1 >= 0 else V0
    out = list(sub)
    for m in sub:
        for wm in wrap(m):
            out += [f"fn x => {wm}", f"fn (x : T) => {wm}", f"fix x => {wm}", f"{wm} .a", f"({m} : T)", f"{wm} : T",
                    f"comatch | .a => {wm} end", f"comatch | .a => {wm} | .b => {wm} end", f"fn (X : VType) => {wm}", f"{wm} T"]
            for v in V[:6]:
                for wv in wrap(v):
                    out += [f"{wm} {wv}", f"let y = {wv} in {wm}", f"match {wv} | +A(z) => {wm} | +B(w) => {wm} end"]
    for m, n in itertools.product(sub, sub):
        for wm in wrap(m):
            for wn in wrap(n):
                out += [f"do y <- {wm}; {wn}", f"do y : T <- {wm}; {wn}"]
    for v in V:
        for wv in wrap(v):
            out += [f"ret {wv}", f"! {wv}"]
    return list(dict.fromkeys(out))
which = sys.argv[1]
if which == "c2":
    L = comps(2)
elif which == "t2":
    L = [f"let T = {t} in ret x" for t in types(2)] + [f"ret (x : {t})" for t in types(2)]
elif which == "c3":
    L = comps(3); random.shuffle(L); L = L[:int(sys.argv[2])]
for s in L: print(s)
