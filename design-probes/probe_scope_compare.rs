// Throw-away probe: compare the real occurrence->binder map with ZyScopeSketch's prediction (C07).
use std::collections::BTreeMap;
use std::path::Path;
use serde_json::Value as J;
use zydeco_syntax::SpanView;
use zydeco_surface::scoped::syntax::Term;
use zydeco_session::AnalysisError;
fn main() {
    let dir = std::env::args().nth(1).unwrap();
    let s0: usize = std::env::args().nth(2).unwrap().parse().unwrap(); let n: usize = std::env::args().nth(3).unwrap().parse().unwrap();
    let exp: J = serde_json::from_str(&std::fs::read_to_string(format!("{dir}/expected.json")).unwrap()).unwrap();
    let mut session = zydeco_session::CompilerSession::default();
    let mut tally: BTreeMap<String, (usize, usize)> = BTreeMap::new();
    for i in s0..n {
        if i % 3000 == 0 { session = zydeco_session::CompilerSession::default(); }
        let e = &exp[i]; let p = format!("{dir}/p{i}.zy");
        let unb: Vec<String> = e["unbound"].as_array().unwrap().iter().map(|x| x.as_str().unwrap().to_string()).collect(); let dup = e["dup"].as_bool().unwrap();
        let key = match session.analyze(Path::new(&p)) {
            Ok(a) => { let ctx = (a.spans(), a.scoped());
                let mut got: BTreeMap<String, u64> = BTreeMap::new();
                for (id, term) in a.scoped().terms.iter() { if let Term::Var(def) = term { got.insert(id.span(&ctx).get_cursor1().0.to_string(), def.span(&ctx).get_cursor1().0 as u64); } }
                let want: BTreeMap<String, u64> = e["map"].as_object().unwrap().iter().map(|(k, v)| (k.clone(), v.as_u64().unwrap())).collect();
                if !unb.is_empty() || dup { "MISMATCH: resolved but model predicts an error".to_string() } else if got == want { "ok: maps equal".to_string() } else { format!("MISMATCH: map differs") } }
            Err(AnalysisError::Resolve { error, .. }) => { let msg = format!("{error}");
                if msg.starts_with("Unbound variable") { let name = msg.split_whitespace().nth(2).unwrap_or("").to_string(); if unb.contains(&name) { "ok: unbound as predicted".to_string() } else { format!("MISMATCH: unbound {name} not predicted") } }
                else if msg.starts_with("Duplicate definition") { if dup { "ok: duplicate as predicted".to_string() } else { "MISMATCH: duplicate not predicted".to_string() } }
                else { format!("other resolve error: {}", msg.chars().take(50).collect::<String>()) } }
            Err(other) => format!("other error: {}", format!("{other}").chars().take(60).collect::<String>()),
        };
        let t = tally.entry(key).or_insert((0, i)); t.0 += 1;
    }
    for (k, (c, ex)) in tally { println!("{c:7}  {k}   (e.g. p{ex})"); }
}
