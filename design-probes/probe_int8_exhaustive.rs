use std::rc::Rc;
use zydeco_dynamics::{Runtime, ProgKont};
use zydeco_dynamics::syntax::*;
fn lit(l: Literal) -> RcValue { Rc::new(Value::Lit(l)) }
fn thunk_ret(code: i64) -> RcValue {
    let body: Computation = Return(lit(Literal::Integer(IntegerLiteral::Int64(code)))).into();
    Rc::new(Value::Thunk(Thunk(Rc::new(body))))
}
fn run(role: BuiltinValueRole, args: Vec<RcValue>) -> String {
    let mut c: Computation = Prim { arity: role.arity() as u64, role }.into();
    for a in args { c = App(Rc::new(c), a).into(); }
    let program = DynamicsProgram { defs: Default::default(), root: Rc::new(c) };
    let mut input = std::io::BufReader::new(std::io::empty());
    let mut output: Vec<u8> = Vec::new();
    let argv: Vec<String> = vec![];
    match std::panic::catch_unwind(std::panic::AssertUnwindSafe(|| Runtime::new(&mut input, &mut output, &argv, program).run())) {
        Ok(ProgKont::Ret(v)) => format!("ret {v:?}"), Ok(ProgKont::ExitCode(c)) => format!("exit {c}"), Ok(ProgKont::Dry) => "dry".into(), Err(_) => "panic".into() }
}
fn main() {
    std::panic::set_hook(Box::new(|_| {}));
    use IntegerOperation::*;
    for signed in [true, false] {
        let ty = if signed { IntegerType::Int8 } else { IntegerType::UInt8 };
        let mk = |n: i32| if signed { lit(Literal::Integer(IntegerLiteral::Int8(n as i8))) } else { lit(Literal::Integer(IntegerLiteral::UInt8(n as u8))) };
        let range: Vec<i32> = if signed { (-128..128).collect() } else { (0..256).collect() };
        for &a in &range {
            println!("{} tostr {} 0 {}", signed, a, run(BuiltinValueRole::Integer(ty, ToString), vec![mk(a)]));
            for &b in &range {
                for (name, op) in [("add", Add), ("sub", Sub), ("mul", Mul), ("div", Div), ("mod", Mod)] {
                    println!("{} {} {} {} {}", signed, name, a, b, run(BuiltinValueRole::Integer(ty, op), vec![mk(a), mk(b)]));
                }
                for (name, op) in [("eq", Eq), ("lt", Lt), ("gt", Gt)] {
                    println!("{} {} {} {} {}", signed, name, a, b, run(BuiltinValueRole::Integer(ty, op), vec![mk(a), mk(b), thunk_ret(1), thunk_ret(0)]));
                }
            }
        }
    }
}
