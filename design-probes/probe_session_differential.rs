// Throw-away probe: long-lived CompilerSession vs fresh session over random edit histories (C15). Found F9.
// usage: probe SEED HISTORIES STEPS
use std::path::{Path, PathBuf};
use zydeco_session::{CompilerSession, AnalysisOutcome};
struct Rng(u64);
impl Rng { fn next(&mut self) -> u64 { self.0 ^= self.0 << 13; self.0 ^= self.0 >> 7; self.0 ^= self.0 << 17; self.0 } fn pick(&mut self, n: usize) -> usize { (self.next() % n as u64) as usize } }
fn answer(s: &CompilerSession, root: &Path) -> String {
    let g = match s.graph(root) { Ok(g) => { let mut v: Vec<String> = g.sources.iter().map(|(_, f)| format!("{}{}", f.path.file_name().unwrap().to_string_lossy(), if f.signature.is_some() { "+sig" } else { "" })).collect(); v.sort(); format!("graph[{}]", v.join(",")) }, Err(e) => format!("grapherr[{}]", format!("{e}").lines().next().unwrap_or("").chars().take(60).collect::<String>()) };
    let a = match s.analyze(root) { Ok(a) => match a.outcome() { AnalysisOutcome::Checked { .. } => "checked".to_string(), AnalysisOutcome::Rejected { reports } => format!("rejected[{}]", reports.spans.iter().filter_map(|x| x.as_ref().map(|x| format!("{}:{:?}:{}", x.0.as_path().file_name().unwrap().to_string_lossy(), x.1, x.2.chars().take(40).collect::<String>()))).collect::<Vec<_>>().join("|")) }, Err(e) => format!("analyzeerr[{}]", format!("{e}").lines().next().unwrap_or("").chars().take(60).collect::<String>()) };
    format!("{g} {a}")
}
fn main() {
    let seed: u64 = std::env::args().nth(1).unwrap().parse().unwrap();
    let hist: usize = std::env::args().nth(2).unwrap().parse().unwrap();
    let steps: usize = std::env::args().nth(3).unwrap().parse().unwrap();
    let mut rng = Rng(seed.wrapping_mul(0x9E3779B97F4A7C15) | 1);
    let variants: Vec<Vec<&str>> = vec![
        /* root.zy */ vec!["@(import(\"lib.zy\"))", "(@(import(\"lib.zy\")), @(import(\"lib.zy\")))", "ret 1", "(", "(@(import(\"lib.zy\")) : @[intrinsic(unit)] _)", "@(import(\"other.zy\"))"],
        /* lib.zy  */ vec!["()", "1", "(", "@(import(\"root.zy\"))", "(1 : @[intrinsic(unit)] _)", "@(import(\"other.zy\"))"],
        /* lib.zyi */ vec!["@[intrinsic(unit)] _", "@[intrinsic(i64)] _", "(", "()"],
        /* other.zy*/ vec!["()", "2", "@(import(\"lib.zy\"))"],
    ];
    let fnames = ["root.zy", "lib.zy", "lib.zyi", "other.zy"];
    let mut mismatches = 0usize; let mut queries = 0usize;
    for h in 0..hist {
        let dir = PathBuf::from(format!("/verif/work/probe_s/{seed}_{h}")); let _ = std::fs::remove_dir_all(&dir); std::fs::create_dir_all(&dir).unwrap();
        let paths: Vec<PathBuf> = fnames.iter().map(|f| dir.join(f)).collect();
        let mut overlay: Vec<Option<String>> = vec![None; 4];
        std::fs::write(&paths[0], variants[0][0]).unwrap();   // only root exists at first: exposes F9; pre-create all four to look past it
        let mut session = CompilerSession::default();
        let mut log = vec![];
        for _ in 0..steps {
            let f = rng.pick(4);
            match rng.pick(6) {
                0 => { let v = variants[f][rng.pick(variants[f].len())].to_string(); session.set_overlay(&paths[f], v.clone()).unwrap(); overlay[f] = Some(v.clone()); log.push(format!("set_overlay {} {v:?}", fnames[f])); }
                1 => { session.clear_overlay(&paths[f]).unwrap(); overlay[f] = None; log.push(format!("clear_overlay {}", fnames[f])); }
                2 | 3 => { let v = variants[f][rng.pick(variants[f].len())]; std::fs::write(&paths[f], v).unwrap(); let r = session.refresh_disk(&paths[f]); log.push(format!("write+refresh {} {v:?} -> {}", fnames[f], r.is_ok())); }
                4 => { let _ = std::fs::remove_file(&paths[f]); let r = session.refresh_disk(&paths[f]); log.push(format!("delete+refresh {} -> {}", fnames[f], r.is_ok())); }
                _ => {}
            }
            let got = answer(&session, &paths[0]);
            let mut fresh = CompilerSession::default();
            for i in 0..4 { if let Some(v) = &overlay[i] { fresh.set_overlay(&paths[i], v.clone()).unwrap(); } }
            let want = answer(&fresh, &paths[0]);
            queries += 1;
            if got != want { mismatches += 1; if mismatches <= 3 { println!("MISMATCH hist {h}\n  got  {got}\n  want {want}\n  log: {}", log.join("; ")); } break; }
            log.push("query".into());
        }
        let _ = std::fs::remove_dir_all(&dir);
    }
    println!("seed={seed} histories={hist} queries={queries} mismatches={mismatches}");
}
