import json, sys, re
PRELUDE = '''param (
  (/core; /numeric; /system) :
  @(import("/repo/lib/std/builtin.zy"))
) in
let (/VType; /CType; /Thk; /Ret; /Unit) = core in
let (Scalar = Int64, int64) = numeric/int64 in
let (/process; /OS) = system in
'''
def ty(t):
    k=t["t"]
    if k=="int": return "Int64"
    if k=="unit": return "Unit"
    if k=="os": return "OS"
    if k=="thk": return "Thk (%s)"%ty(t["c"])
    if k=="ret": return "Ret (%s)"%ty(t["a"])
    if k=="fn": return "(%s) -> %s"%(ty(t["a"]), ty(t["c"]))
def parse(toks,i):
    t=toks[i]; k=t["k"]
    ar={"var":0,"int":0,"unit":0,"thunk":1,"ret":1,"lam":1,"force":1,"exit":1,"do":2,"app":2,"let":2,"add":2}[k]
    kids=[]; j=i+1
    for _ in range(ar):
        c,j=parse(toks,j); kids.append(c)
    return (t,kids),j
def rv(n,ctx,annot):
    t,k=n; kd=t["k"]
    if kd=="var": return ctx[t["i"]-1]
    if kd=="int": return str(t["n"])
    if kd=="unit": return "()"
    if kd=="thunk":
        body=rc(k[0],ctx,annot)
        return "({ %s } : Thk (%s))"%(body,ty(t["c"])) if annot else "{ %s }"%body
def rc(n,ctx,annot):
    t,k=n; kd=t["k"]
    if kd=="ret": return "ret %s"%rv(k[0],ctx,annot)
    if kd=="lam":
        x="x%d"%len(ctx)
        return "fn (%s : %s) => %s"%(x,ty(t["a"]),rc(k[0],ctx+[x],annot))
    if kd=="do":
        x="x%d"%len(ctx)
        m=rc(k[0],ctx,annot)
        m="(%s : Ret (%s))"%(m,ty(t["a"])) if annot else "(%s)"%m
        return "do %s <- %s; %s"%(x,m,rc(k[1],ctx+[x],annot))
    if kd=="app":
        f=rc(k[0],ctx,annot)
        f="(%s : (%s) -> %s)"%(f,ty(t["a"]),ty(t["c"])) if annot else "(%s)"%f
        return "%s %s"%(f,rv(k[1],ctx,annot))
    if kd=="force":
        v=rv(k[0],ctx,annot)
        return "! (%s : Thk (%s))"%(v,ty(t["c"])) if annot else "! %s"%v
    if kd=="let":
        x="x%d"%len(ctx)
        return "let %s : %s = %s in %s"%(x,ty(t["a"]),rv(k[0],ctx,annot),rc(k[1],ctx+[x],annot))
    if kd=="add": return "! (int64/add) %s %s"%(rv(k[0],ctx,annot),rv(k[1],ctx,annot))
    if kd=="exit": return "! (process/exit) %s"%rv(k[0],ctx,annot)
annot = sys.argv[2]=="1"
outdir=sys.argv[3]
exp=[]
i=0
for line in open(sys.argv[1]):
    if "REPLAY" not in line: continue
    m=re.search(r'"REPLAY", "(.*)">>',line)
    js=json.loads('"'+m.group(1)+'"')
    case=json.loads(js)
    tree,_=parse(case["prog"],0)
    src=PRELUDE+"("+rc(tree,[],annot)+" : OS)\n"
    open("%s/p%d.zy"%(outdir,i),"w").write(src)
    exp.append(case["res"]); i+=1
json.dump(exp,open("%s/expected.json"%outdir,"w"))
print(i)
