// Throw-away probe: insert one comment into every token gap of small programs; format; check the comment survives
// exactly once, the code tokens are unchanged (modulo parentheses), and its left/right neighbour code token is unchanged (C13).
use std::sync::Arc;
use zydeco_surface::textual::{Lexer, LexicalTokens, LexicalTokenKind, SourceUnitParser, syntax::Parser, fmt::PrettyFormatter};
use zydeco_utils::span::{FileInfo, LocationCtx};
fn fmt(src: &str) -> Result<String, String> {
    let info = FileInfo::new(src, Some(Arc::new(std::path::PathBuf::from("mem.zy"))));
    let loc = LocationCtx::File(info);
    let mut parser = Parser::new();
    let unit = SourceUnitParser::new().parse(src, &loc, &mut parser, Lexer::new(src)).map_err(|e| format!("parse: {e:?}").chars().take(80).collect::<String>())?;
    std::panic::catch_unwind(std::panic::AssertUnwindSafe(|| PrettyFormatter::with_source(&parser.arena, &parser.spans, src).render_unit(unit))).map_err(|_| "PANIC".to_string())
}
// (is_comment, text) items using the repo's tooling lexer (good enough for a probe; the real check uses an independent scanner)
fn items(src: &str) -> Vec<(bool, String)> { LexicalTokens::new(src).map(|t| (matches!(t.kind, LexicalTokenKind::Comment | LexicalTokenKind::TextBlock), src[t.range.clone()].trim().to_string())).collect() }
fn neighbours(it: &[(bool, String)], marker: &str) -> Option<(String, String)> {
    let pos = it.iter().position(|(c, t)| *c && t.contains(marker))?;
    let left = it[..pos].iter().rev().find(|(c, t)| !*c && t != "(" && t != ")").map(|x| x.1.clone()).unwrap_or("^".into());
    let right = it[pos + 1..].iter().find(|(c, t)| !*c && t != "(" && t != ")").map(|x| x.1.clone()).unwrap_or("$".into());
    Some((left, right))
}
fn main() {
    std::panic::set_hook(Box::new(|_| {}));
    let programs = [
        "let x = 1 in match x | +A(y) => ret y | +B(z) => ret (z, x) end",
        "fn (a : Int) b => do c <- ! f a b; ret { comatch | .d => c | .e x => x end }",
        "begin let a = b that def T = data | +C : Unit end that param (p : T) that (a, p, ()) end",
        "codata | .run (x : A) : Ret A | .stop : OS end",
        "@[doc] let f (x : A) : Ret A = ret x in forall (X : VType) . X -> exists (Y : VType) . Y * X",
        "(x = 1, = y, z :: Int) ",
    ];
    let mut tally: std::collections::BTreeMap<String, (usize, String)> = Default::default();
    for prog in programs {
        let toks: Vec<std::ops::Range<usize>> = LexicalTokens::new(prog).map(|t| t.range).collect();
        let mut gaps: Vec<usize> = vec![0]; gaps.extend(toks.iter().map(|r| r.end));
        for (gi, &g) in gaps.iter().enumerate() { for (style, text) in [("block", " /- MARK -/ ".to_string()), ("line", " -- MARK\n".to_string()), ("ownline", "\n-- MARK\n".to_string())] {
            let src = format!("{}{}{}", &prog[..g], text, &prog[g..]);
            let key = match fmt(&src) {
                Err(e) => format!("input rejected or panic: {}", e.chars().take(30).collect::<String>()),
                Ok(out) => { let n = out.matches("MARK").count();
                    if n != 1 { format!("MARK occurs {n} times") } else {
                        let (a, b) = (neighbours(&items(&src), "MARK"), neighbours(&items(&out), "MARK"));
                        let code = |s: &str| items(s).into_iter().filter(|(c, t)| !*c && t != "(" && t != ")").map(|x| x.1).collect::<Vec<_>>();
                        if code(&src) != code(&out) { "code tokens changed".to_string() } else if a == b { "ok".to_string() } else { let (a, b) = (a.unwrap(), b.unwrap()); format!("moved: was between `{}` and `{}`, now between `{}` and `{}`", a.0, a.1, b.0, b.1) } } } };
            let e = tally.entry(format!("{style}: {key}")).or_insert((0, format!("gap {gi} of {prog:?}"))); e.0 += 1;
        }}
    }
    for (k, (n, ex)) in tally { println!("{n:4}  {k}    [{ex}]"); }
}
