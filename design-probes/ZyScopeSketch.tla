---- MODULE ZyScopeSketch ----
(* Sketch for C07: named terms over two names, the resolution function Res (occurrence -> binder) defined by
   environment threading as in scoped/resolver.rs + blocks.rs, enumerated exhaustively up to MaxLen tokens. *)
EXTENDS Integers, Sequences, FiniteSets, TLC, Json
CONSTANT MaxLen
Names == {"a", "b"}
VARIABLES out, todo
vars == <<out, todo>>
Arity(t) == CASE t.k \in {"var", "unit"} -> 0 [] t.k \in {"fn", "fnp", "fix"} -> 1
              [] t.k \in {"do", "let", "pair"} -> 2 [] t.k \in {"match", "block"} -> 3
Init == out = << >> /\ todo = 1
Emit(t) == out' = Append(out, t) /\ todo' = todo - 1 + Arity(t)
Gen == /\ todo > 0 /\ Len(out) + todo <= MaxLen
       /\ \/ \E n \in Names : Emit([k |-> "var", n |-> n])
          \/ Emit([k |-> "unit"])
          \/ \E n \in Names : Emit([k |-> "fn", n1 |-> n]) \/ Emit([k |-> "fix", n1 |-> n]) \/ Emit([k |-> "do", n1 |-> n]) \/ Emit([k |-> "let", n1 |-> n])
          \/ \E n \in Names, m \in Names : Emit([k |-> "fnp", n1 |-> n, n2 |-> m]) \/ Emit([k |-> "match", n1 |-> n, n2 |-> m]) \/ Emit([k |-> "block", n1 |-> n, n2 |-> m])
          \/ Emit([k |-> "pair"])
Next == Gen \/ (todo = 0 /\ UNCHANGED vars)
Spec == Init /\ [][Next]_vars

Unb == [tok |-> 0, slot |-> 0]
Bind(env, n, i, s) == [env EXCEPT ![n] = [tok |-> i, slot |-> s]]
\* Res(i, env) = [next |-> index after the subterm at i, m |-> set of [use, tok, slot]]
RECURSIVE Res(_, _)
Res(i, env) ==
  LET t == out[i] IN
  CASE t.k = "var" -> [next |-> i + 1, m |-> {[use |-> i, tok |-> env[t.n].tok, slot |-> env[t.n].slot]}]
    [] t.k = "unit" -> [next |-> i + 1, m |-> {}]
    [] t.k \in {"fn", "fix"} -> Res(i + 1, Bind(env, t.n1, i, 1))
    [] t.k = "fnp" -> Res(i + 1, Bind(Bind(env, t.n1, i, 1), t.n2, i, 2))            \* pattern components bind left to right
    [] t.k \in {"do", "let"} -> LET r1 == Res(i + 1, env)                               \* bindee in the OUTER environment
                                    r2 == Res(r1.next, Bind(env, t.n1, i, 1)) IN [next |-> r2.next, m |-> r1.m \cup r2.m]
    [] t.k = "pair" -> LET r1 == Res(i + 1, env) r2 == Res(r1.next, env) IN [next |-> r2.next, m |-> r1.m \cup r2.m]
    [] t.k = "match" -> LET r0 == Res(i + 1, env)
                            r1 == Res(r0.next, Bind(env, t.n1, i, 1))                   \* each arm starts from the match's environment
                            r2 == Res(r1.next, Bind(env, t.n2, i, 2)) IN [next |-> r2.next, m |-> r0.m \cup r1.m \cup r2.m]
    [] t.k = "block" -> LET envB == Bind(Bind(env, t.n1, i, 1), t.n2, i, 2)             \* block-wide, shadows outer names
                            r1 == Res(i + 1, envB) r2 == Res(r1.next, envB) r3 == Res(r2.next, envB) IN
                        [next |-> r3.next, m |-> r1.m \cup r2.m \cup r3.m]
Dup == \E i \in 1..Len(out) : out[i].k = "block" /\ out[i].n1 = out[i].n2
Report == todo = 0 => PrintT(<<"REPLAY", ToJson([prog |-> out, dup |-> Dup, res |-> Res(1, [n \in Names |-> Unb]).m])>>)
====
