SPECIFICATION Spec
INVARIANT Report
CHECK_DEADLOCK FALSE
