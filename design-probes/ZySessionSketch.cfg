SPECIFICATION Spec
CONSTANT MaxOps = 3
INVARIANT Report
CHECK_DEADLOCK FALSE
