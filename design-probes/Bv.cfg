CONSTANTS W = 64
 N = 200
