---- MODULE Cov ----
EXTENDS Integers, Sequences, TLC, FiniteSets, SequencesExt, Json
CONSTANT MaxRows, TypeName

MAXW == 8
\* ---- types ----
TUnit == [t |-> "unit"]
TData(n) == [t |-> "data", n |-> n]
TProd(a, b) == [t |-> "prod", a |-> a, b |-> b]
\* data declarations: name -> sequence of [c, ty]
Datas == [ Bool |-> << [c |-> "A", ty |-> TUnit], [c |-> "B", ty |-> TUnit] >>,
           Tri  |-> << [c |-> "A", ty |-> TUnit], [c |-> "B", ty |-> TData("Bool")], [c |-> "C", ty |-> TProd(TData("Bool"), TData("Bool"))] >> ]
Types == [ Bool |-> TData("Bool"), Pair |-> TProd(TData("Bool"), TData("Bool")),
           Triple |-> TProd(TData("Bool"), TProd(TData("Bool"), TData("Bool"))), Tri |-> TData("Tri") ]
Ty == Types[TypeName]

\* ---- values ----
RECURSIVE Values(_)
Values(ty) ==
  CASE ty.t = "unit" -> {[k |-> "unit"]}
    [] ty.t = "prod" -> {[k |-> "prod", a |-> x, b |-> y] : x \in Values(ty.a), y \in Values(ty.b)}
    [] ty.t = "data" -> UNION {{[k |-> "ctor", c |-> Datas[ty.n][i].c, a |-> x] : x \in Values(Datas[ty.n][i].ty)} : i \in 1..Len(Datas[ty.n])}

\* ---- patterns (typed), depth bounded ----
Wild == [k |-> "wild"]
RECURSIVE Pats(_, _)
Pats(ty, d) ==
  {Wild} \cup
  (IF d = 0 THEN {} ELSE
   CASE ty.t = "unit" -> {[k |-> "unit"]}
     [] ty.t = "prod" -> {[k |-> "prod", a |-> x, b |-> y] : x \in Pats(ty.a, d - 1), y \in Pats(ty.b, d - 1)}
     [] ty.t = "data" -> UNION {{[k |-> "ctor", d |-> ty.n, c |-> Datas[ty.n][i].c, a |-> x] : x \in Pats(Datas[ty.n][i].ty, d - 1)} : i \in 1..Len(Datas[ty.n])})

RECURSIVE Matches(_, _)
Matches(p, v) ==
  CASE p.k = "wild" -> TRUE
    [] p.k = "unit" -> v.k = "unit"
    [] p.k = "prod" -> v.k = "prod" /\ Matches(p.a, v.a) /\ Matches(p.b, v.b)
    [] p.k = "ctor" -> v.k = "ctor" /\ v.c = p.c /\ Matches(p.a, v.a)

\* ---- transcription of coverage.rs ----
None == [s |-> "none"]
HeadSpace(p) ==
  CASE p.k = "wild" -> None
    [] p.k = "ctor" -> [s |-> "data", n |-> p.d]
    [] p.k = "unit" -> [s |-> "unit"]
    [] p.k = "prod" -> [s |-> "prod", n |-> 2]
Ctors(space) ==
  CASE space.s = "data" -> [i \in 1..Len(Datas[space.n]) |-> [c |-> "data", name |-> Datas[space.n][i].c]]
    [] space.s = "unit" -> << [c |-> "unit"] >>
    [] space.s = "prod" -> << [c |-> "prod", n |-> space.n] >>
CArity(c) == CASE c.c = "data" -> 1 [] c.c = "unit" -> 0 [] c.c = "prod" -> c.n
\* specialize returns <<TRUE, fields>> or <<FALSE, <<>>>>
Specialize(c, p) ==
  IF p.k = "wild" THEN <<TRUE, [i \in 1..CArity(c) |-> Wild]>>
  ELSE IF c.c = "data" /\ p.k = "ctor" /\ p.c = c.name THEN <<TRUE, <<p.a>>>>
  ELSE IF c.c = "unit" /\ p.k = "unit" THEN <<TRUE, << >>>>
  ELSE IF c.c = "prod" /\ p.k = "prod" THEN <<TRUE, <<p.a, p.b>>>>
  ELSE <<FALSE, << >>>>
Rebuild(c, row) ==
  LET n == CArity(c) head == SubSeq(row, 1, n) rest == SubSeq(row, n + 1, Len(row)) IN
  <<(CASE c.c = "data" -> [k |-> "ctor", c |-> c.name, a |-> head[1]]
       [] c.c = "unit" -> [k |-> "unit"]
       [] c.c = "prod" -> [k |-> "prod", a |-> head[1], b |-> head[2]])>> \o rest
Take(s, n) == SubSeq(s, 1, IF Len(s) < n THEN Len(s) ELSE n)
SelectSeqIdx(s, Test(_)) == SelectSeq(s, Test)

RECURSIVE Uncovered(_, _, _)
Uncovered(matrix, cols, expected) ==
  IF cols = 0 THEN (IF matrix = << >> THEN << << >> >> ELSE << >>)
  ELSE LET
    heads == SelectSeq([i \in 1..Len(matrix) |-> HeadSpace(matrix[i][1])], LAMBDA h : h # None)
    space == IF expected # None THEN expected ELSE IF heads # << >> THEN heads[1] ELSE None
    Finite(sp) ==
      LET cs == Ctors(sp)
          PerCtor(c) ==
            LET spec == SelectSeq([i \in 1..Len(matrix) |-> Specialize(c, matrix[i][1]) \o <<Tail(matrix[i])>>], LAMBDA r : r[1])
                rows == [i \in 1..Len(spec) |-> spec[i][2] \o spec[i][3]]
                sub == Uncovered(rows, cols - 1 + CArity(c), None)
            IN [i \in 1..Len(sub) |-> Rebuild(c, sub[i])]
      IN Take(FlattenSeq([i \in 1..Len(cs) |-> PerCtor(cs[i])]), MAXW + 1)
    Default ==
      LET ds == SelectSeq(matrix, LAMBDA r : r[1].k = "wild")
          rows == [i \in 1..Len(ds) |-> Tail(ds[i])]
          sub == Uncovered(rows, cols - 1, None)
      IN Take([i \in 1..Len(sub) |-> <<Wild>> \o sub[i]], MAXW + 1)
  IN IF matrix = << >> THEN (IF expected # None THEN Finite(expected) ELSE << [i \in 1..cols |-> Wild] >>)
     ELSE IF space # None THEN Finite(space) ELSE Default

TopSpace(ty) == CASE ty.t = "data" -> [s |-> "data", n |-> ty.n] [] OTHER -> None

VARIABLE rows
Init == rows = << >>
Next == Len(rows) < MaxRows /\ \E p \in Pats(Ty, 2) : rows' = Append(rows, p)
Spec == Init /\ [][Next]_rows

UncoveredVals == {v \in Values(Ty) : \A i \in 1..Len(rows) : ~Matches(rows[i], v)}
Result == Uncovered([i \in 1..Len(rows) |-> <<rows[i]>>], 1, TopSpace(Ty))
Agree == (Result = << >>) <=> (UncoveredVals = {})
WitnessSound == \A i \in 1..Len(Result) : \E v \in UncoveredVals : Matches(Result[i][1], v)
WitnessComplete == Len(Result) <= MAXW => \A v \in UncoveredVals : \E i \in 1..Len(Result) : Matches(Result[i][1], v)
Report == PrintT(<<"REPLAY", ToJson([ty |-> TypeName, rows |-> rows, exhaustive |-> (UncoveredVals = {}), nmissing |-> Len(Result)])>>)
====
