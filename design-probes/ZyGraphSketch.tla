---- MODULE ZyGraphSketch ----
(* Sketch for C08/C16: utils/graph.rs Kosaraju + SccGraph::{top, release} with hash-order iteration modelled as an
   arbitrary permutation `ord`; checked against declarative SCCs for ALL digraphs on N nodes (self-loops included)
   and ALL iteration orders; release is explored one node at a time (piecemeal) as a state machine. *)
EXTENDS Integers, Sequences, FiniteSets, TLC
CONSTANT N
Nodes == 1..N
Perms == {p \in [1..N -> Nodes] : \A i, j \in 1..N : i # j => p[i] # p[j]}

VARIABLES G, ord, belongs, released
vars == <<G, ord, belongs, released>>
Succ(g, x) == {y \in Nodes : <<x, y>> \in g}        \* x depends on y
Pred(g, x) == {y \in Nodes : <<y, x>> \in g}
InOrder(S, o) == SelectSeq(o, LAMBDA x : x \in S)    \* "HashSet iteration" = some fixed but arbitrary order

\* ---- Kosaraju, as written: forward DFS post-order, then backward DFS over the reversed stack ----
RECURSIVE Fwd(_, _, _, _), FwdList(_, _, _, _)
Fwd(g, o, x, st) ==                                  \* st = [vis, stack]
  LET st1 == FwdList(g, o, InOrder(Succ(g, x), o), [st EXCEPT !.vis = @ \cup {x}]) IN [st1 EXCEPT !.stack = Append(@, x)]
FwdList(g, o, xs, st) ==
  IF xs = << >> THEN st
  ELSE FwdList(g, o, Tail(xs), IF Head(xs) \in st.vis THEN st ELSE Fwd(g, o, Head(xs), st))
RECURSIVE Bwd(_, _, _, _, _), BwdList(_, _, _, _, _)
Bwd(g, o, x, idx, b) == BwdList(g, o, InOrder(Pred(g, x), o), idx, [b EXCEPT ![x] = idx])
BwdList(g, o, xs, idx, b) ==
  IF xs = << >> THEN b ELSE BwdList(g, o, Tail(xs), idx, IF b[Head(xs)] # 0 THEN b ELSE Bwd(g, o, Head(xs), idx, b))
RECURSIVE Assign(_, _, _, _, _)
Assign(g, o, stackRev, idx, b) ==
  IF stackRev = << >> THEN b
  ELSE IF b[Head(stackRev)] # 0 THEN Assign(g, o, Tail(stackRev), idx, b)
  ELSE Assign(g, o, Tail(stackRev), idx + 1, Bwd(g, o, Head(stackRev), idx, b))
Rev(s) == [i \in 1..Len(s) |-> s[Len(s) + 1 - i]]
Kosaraju(g, o) == Assign(g, o, Rev(FwdList(g, o, o, [vis |-> {}, stack |-> << >>]).stack), 1, [x \in Nodes |-> 0])

\* ---- declarative ----
RECURSIVE ReachN(_, _, _)
ReachN(g, S, n) == IF n = 0 THEN S ELSE ReachN(g, S \cup UNION {Succ(g, x) : x \in S}, n - 1)
Reach(g, x) == ReachN(g, {x}, N)
SameSCC(g, x, y) == y \in Reach(g, x) /\ x \in Reach(g, y)

\* ---- SccGraph::top / release on the condensation, piecemeal ----
Comp(x) == {y \in Nodes : belongs[y] = belongs[x]}
Remaining == Nodes \ released
\* a component is a root when no remaining node OUTSIDE it is a dependency of one of its members
RootComp(x) == \A m \in Comp(x) : \A d \in Succ(G, m) : d \in Comp(x) \/ d \in released
Top == {Comp(x) \cap Remaining : x \in {y \in Remaining : RootComp(y)}}

Init == /\ G \in SUBSET (Nodes \X Nodes) /\ ord \in Perms
        /\ belongs = Kosaraju(G, ord) /\ released = {}
Release(x) == /\ x \in Remaining /\ \E grp \in Top : x \in grp
              /\ released' = released \cup {x} /\ UNCHANGED <<G, ord, belongs>>
Next == \E x \in Nodes : Release(x)
Spec == Init /\ [][Next]_vars

ComponentsCorrect == \A x, y \in Nodes : (belongs[x] = belongs[y]) <=> SameSCC(G, x, y)
\* whatever is offered by top() has all its outside dependencies released already
TopSound == \A grp \in Top : \A m \in grp : \A d \in Succ(G, m) : SameSCC(G, m, d) \/ d \in released
\* progress: while something remains, top() offers something (no node is lost)
TopComplete == Remaining # {} => Top # {}
====
