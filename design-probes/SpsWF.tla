---- MODULE SpsWF ----
(* Sketch for C18: well-formedness of an exported SpsLowProgram, written from the property, evaluated by TLC. *)
EXTENDS Integers, Sequences, FiniteSets, TLC, Json
P == JsonDeserialize("prog.json")
C(id) == P.compus[id]
V(id) == P.values[id]
S(id) == P.stacks[id]
VP(id) == P.vpats[id]
Range(s) == {s[i] : i \in 1..Len(s)}

\* variables bound by a pattern
RECURSIVE PV(_)
PV(p) == LET n == VP(p) IN
  CASE n.k = "var" -> {n.d} [] n.k = "ctor" -> PV(n.p)
    [] n.k \in {"alias", "vcons"} -> UNION {PV(q) : q \in Range(n.ps)} [] OTHER -> {}
\* free value variables
RECURSIVE FVv(_), FVs(_), FVc(_)
FVv(v) == LET n == V(v) IN
  CASE n.k = "var" -> {n.d}
    [] n.k = "block" -> FVc(n.body) \ {n.label}
    [] n.k = "clo" -> FVv(n.env) \cup FVv(n.code)
    [] n.k = "ctor" -> FVv(n.v)
    [] n.k \in {"vcons", "complex"} -> UNION {FVv(x) : x \in Range(n.vs)}
    [] OTHER -> {}
FVs(s) == LET n == S(s) IN
  CASE n.k = "arg" -> FVv(n.v) \cup FVs(n.s) [] n.k = "tag" -> FVs(n.s)
    [] n.k = "kont" -> FVv(n.code) \cup FVs(n.s) [] OTHER -> {}
FVc(c) == LET n == C(c) IN
  CASE n.k = "jump" -> FVv(n.v) \cup FVs(n.s)
    [] n.k \in {"letv", "pmatch"} -> FVv(n.v) \cup (FVc(n.c) \ PV(n.p))
    [] n.k = "lets" -> FVs(n.s) \cup FVc(n.c)
    [] n.k = "leta" -> FVs(n.s) \cup (FVc(n.c) \ PV(n.p))
    [] n.k = "cmatch" -> FVv(n.v) \cup UNION {FVc(a.c) \ PV(a.p) : a \in Range(n.arms)}
    [] n.k = "cocase" -> FVs(n.s) \cup UNION {FVc(a.c) : a \in Range(n.arms)}
    [] n.k = "openclo" -> FVv(n.v) \cup (FVc(n.c) \ (PV(n.pe) \cup PV(n.pc)))
    [] n.k = "openkont" -> FVs(n.s) \cup (FVc(n.c) \ PV(n.pc))
    [] n.k \in {"extern", "hole"} -> FVs(n.s)

Blocks == {v \in DOMAIN P.values : V(v).k = "block"}
RootClosed == FVc(P.root) = {}
BlocksClosed == \A b \in Blocks : FVv(b) = {}
LabelsUnique == \A b1, b2 \in Blocks : V(b1).label = V(b2).label => b1 = b2
\* branch-join placement: a stack let guards exactly a coproduct match
BranchJoin == /\ \A c \in DOMAIN P.compus : C(c).k = "lets" => C(C(c).c).k = "cmatch"
              /\ \A c \in DOMAIN P.compus : C(c).k = "cmatch" => \E g \in DOMAIN P.compus : C(g).k = "lets" /\ C(g).c = c
\* lexical ownership: every computation node has at most one parent reference
ChildrenC(c) == LET n == C(c) IN
  CASE n.k \in {"letv", "pmatch", "lets", "leta", "openclo", "openkont"} -> {n.c}
    [] n.k \in {"cmatch", "cocase"} -> {a.c : a \in Range(n.arms)} [] OTHER -> {}
Parents(c) == Cardinality({p \in DOMAIN P.compus : c \in ChildrenC(p)}) + Cardinality({b \in Blocks : V(b).body = c})
SingleOwner == \A c \in DOMAIN P.compus : Parents(c) <= 1 /\ (c = P.root => Parents(c) = 0)
ASSUME PrintT(<<"RootClosed", RootClosed>>)
ASSUME PrintT(<<"BlocksClosed", BlocksClosed, Cardinality(Blocks)>>)
ASSUME PrintT(<<"LabelsUnique", LabelsUnique>>)
ASSUME PrintT(<<"BranchJoin", BranchJoin>>)
ASSUME PrintT(<<"SingleOwner", SingleOwner>>)
====
