SPECIFICATION Spec
CONSTANT N = 3
INVARIANTS ComponentsCorrect TopSound TopComplete
CHECK_DEADLOCK FALSE
