use std::path::Path;
use zydeco_dynamics::{BuiltinRootLinker, Runtime, ProgKont, Eval, Step};
use zydeco_dynamics::syntax::Computation;
fn main() {
    let dir = std::env::args().nth(1).unwrap();
    let s0: usize = std::env::args().nth(2).unwrap().parse().unwrap(); let n: usize = std::env::args().nth(3).unwrap().parse().unwrap(); // usage: probe DIR START END
    std::panic::set_hook(Box::new(|_| {}));
    let compiler = zydeco_cli::CommandCompiler::default();
    for i in s0..n {
        let p = format!("{dir}/p{i}.zy");
        let r = std::panic::catch_unwind(std::panic::AssertUnwindSafe(|| {
            let a = match compiler.analyze(Path::new(&p)) { Ok(a) => a, Err(e) => {
                let detail = match &e { zydeco_cli::CompileError::Rejected(an) => an.outcome().reports().map(|r| r.spans.iter().filter_map(|s| s.as_ref().map(|x| x.2.clone())).collect::<Vec<_>>().join(" | ")).unwrap_or_default(), other => format!("{other}") };
                return format!("reject {}", detail.replace('\n', " ")); } };
            let exe = match compiler.executable_program(&a) { Ok(e) => e, Err(e) => return format!("notexe {e}") };
            let program = BuiltinRootLinker { scoped: exe.scoped, statics: exe.statics, root: exe.root, signature: exe.signature }.run().unwrap();
            let mut input = std::io::BufReader::new(std::io::empty());
            let mut output: Vec<u8> = Vec::new();
            let args: Vec<String> = vec![];
            let mut rt = Runtime::new(&mut input, &mut output, &args, program);
            let mut c: Computation = rt.program.root.as_ref().clone();
            let mut steps = 0usize;
            let res = loop { steps += 1; if steps > 20000 { return "running".to_string(); } match c.step(&mut rt) { Step::Done(k) => break k, Step::Step(nx) => c = nx } };
            match res { ProgKont::ExitCode(c) => format!("exit {c}"), ProgKont::Ret(_) => "ret".into(), ProgKont::Dry => "dry".into() }
        }));
        match r { Ok(s) => println!("{i} {s}"), Err(e) => println!("{i} panic {:?}", e.downcast_ref::<String>().cloned().or(e.downcast_ref::<&str>().map(|s| s.to_string()))) }
    }
}
