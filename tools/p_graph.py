"""C08 — ZyGraph.tla (Kosaraju / SccGraph / BindingContext vs declarative SCCs) and ZyBlocks.tla (block programs)."""
import json
import os

import lib
from lib import log, require

W = os.path.join(lib.WORK, "graph")


def tlc(module, cfg, name, simulate=None, timeout=3000, workers=12, tlc_args=None):
    os.makedirs(W, exist_ok=True)
    out = os.path.join(W, name + ".tlc.out")
    res = lib.run_tlc(module, cfg, out, workers=workers, coverage=False, simulate=simulate, timeout=timeout, tlc_args=tlc_args)
    cases = os.path.join(W, name + ".cases.ndjson")
    n = lib.extract_replay(out, cases)
    if simulate:
        text = open(out, errors="replace").read()
        require("is violated" not in text, "TLC refuted an invariant in simulation %s" % cfg)
        seen, keep = set(), []
        for l in open(cases):
            if l not in seen:
                seen.add(l)
                keep.append(l)
        open(cases, "w").writelines(keep)
        n = len(keep)
        res["distinct"] = max(res["distinct"], n)
        res["generated"] = max(res["generated"], n)
    os.remove(out)
    res["cases"] = n
    log("[tlc] %s: %d states, %d behaviours, %.0fs" % (cfg, res["distinct"], n, res["wall_s"]))
    return res, cases


def run(prop, tier):
    lib.build_harness()
    out = lib.Outcome(prop, tier, "model_checking")
    seed = lib.seed()
    states = transitions = replayed = 0
    per, samples = {}, []
    # (1) the algorithm against the declarative oracle, every iteration order
    algs = ["MC_ZyGraph_alg3.cfg"] + (["MC_ZyGraph_alg4.cfg"] if tier == "thorough" else [])
    for cfg in algs:
        res, _ = tlc("ZyGraph.tla", cfg, cfg[:-4], timeout=7200)
        states += res["distinct"]
        transitions += res["generated"]
        per[cfg] = {"tlc_states": res["distinct"]}
    # (2) behaviours replayed on the real graph API
    plans = [("MC_ZyGraph_beh3.cfg", "beh3", None, None, 600)]
    if tier == "quick":
        plans.append(("MC_ZyGraph_beh4.cfg", "beh4sim", "num=10000000", ["-depth", "6", "-seed", str(seed)], 40))
    else:
        plans.append(("MC_ZyGraph_beh4.cfg", "beh4", None, None, 7200))
        plans.append(("MC_ZyGraph_beh5.cfg", "beh5sim", "num=10000000", ["-depth", "7", "-seed", str(seed)], 300))
    for cfg, name, sim, args, to in plans:
        res, cases = tlc("ZyGraph.tla", cfg, name, simulate=sim, tlc_args=args, timeout=to, workers=8 if sim else 12)
        require(res["cases"] > 100, "too few graph behaviours from %s" % cfg)
        summ = os.path.join(W, name + ".summary.json")
        lib.zyconf(["replay-graph", cases, summ])
        s = json.load(open(summ))
        out.add_findings(s["findings"])
        states += res["distinct"]
        transitions += res["generated"]
        replayed += s["cases"]
        samples += s["samples"][:1]
        per[name] = {"tlc_states": res["distinct"], "behaviours_replayed": s["cases"]}
    # (3) block programs
    bplans = [("MC_ZyBlocks_3.cfg", "blocks3", None, None, 600)]
    if tier == "thorough":
        bplans.append(("MC_ZyBlocks_4.cfg", "blocks4sim", "num=10000000", ["-depth", "1", "-seed", str(seed)], 240))
    for cfg, name, sim, args, to in bplans:
        res, cases = tlc("ZyBlocks.tla", cfg, name, simulate=sim, tlc_args=args, timeout=to, workers=8 if sim else 12)
        summ = os.path.join(W, name + ".summary.json")
        lib.zyconf(["replay-blocks", cases, summ], timeout=6000)
        s = json.load(open(summ))
        out.add_findings(s["findings"])
        rejected = sum(v for k, v in s["classes"].items() if k.startswith("rejected"))
        require(rejected > 0 and rejected < s["cases"], "block programs exercised one verdict only")
        states += res["distinct"]
        transitions += res["generated"]
        replayed += s["cases"]
        samples += s["samples"][:2]
        per[name] = {"tlc_states": res["distinct"], "programs_replayed": s["cases"], "rejected": rejected}
    out.coverage = {"states": states, "transitions": transitions, "traces_validated_against_impl": replayed,
                    "samples": samples[:5], "configurations": per,
                    "explanation": "ZyGraph: Kosaraju/SccGraph/BindingContext as written, hash order = arbitrary permutation, checked against "
                                   "mutual reachability for all digraphs on 3 nodes (thorough: 4) under all orders incl. piecemeal release; drain "
                                   "behaviours replayed on zydeco_utils::graph. ZyBlocks: every block of 3 contributions (param/val/def), every "
                                   "edge set, every textual permutation: real verdict and exit code equal the permutation-independent prediction."}
    out.assumptions = ["TLC 1.8.0", "renderer harness/src/blocks.rs", "source order = node number (all graphs enumerated)"]
    return out.finish()


def replay(prop, path):
    r = json.load(open(path))
    log(json.dumps(r["first"], indent=1)[:4000])
    return 0
