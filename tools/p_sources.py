"""C09 — ZySources.tla (loader / cycle detector / provider order) + import = splice on ZyCore programs."""
import json
import os

import lib
from lib import log, require
import p_core

W = os.path.join(lib.WORK, "sources")


def run(prop, tier):
    lib.build_harness()
    os.makedirs(W, exist_ok=True)
    out = lib.Outcome(prop, tier, "model_checking")
    seed = lib.seed()
    states = transitions = replayed = 0
    per, samples = {}, []
    plans = [("MC_ZySources_3.cfg", "src3", None, None, 600)]
    if tier == "quick":
        plans.append(("MC_ZySources_4.cfg", "src4sim", "num=10000000", ["-depth", "1", "-seed", str(seed)], 40))
    else:
        plans.append(("MC_ZySources_4.cfg", "src4", None, None, 3000))
    for cfg, name, sim, args, to in plans:
        tout = os.path.join(W, name + ".tlc.out")
        res = lib.run_tlc("ZySources.tla", cfg, tout, workers=8 if sim else 12, coverage=False, simulate=sim, tlc_args=args, timeout=to)
        cases = os.path.join(W, name + ".cases.ndjson")
        n = lib.extract_replay(tout, cases)
        if sim:
            require("is violated" not in open(tout, errors="replace").read(), "TLC refuted an invariant in simulation")
            lines = sorted(set(open(cases)))
            open(cases, "w").writelines(lines)
            n = len(lines)
            res["distinct"] = res["generated"] = max(n, res["distinct"])
        os.remove(tout)
        require(n > 500, "too few source configurations from %s" % cfg)
        log("[tlc] %s: %d configurations, %.0fs" % (cfg, n, res["wall_s"]))
        summ = os.path.join(W, name + ".summary.json")
        lib.zyconf(["replay-sources", cases, summ])
        s = json.load(open(summ))
        out.add_findings(s["findings"])
        need = ("ok", "cycle", "import") if name == "src3" else ("ok", "cycle")
        require(all(s["classes"].get(k, 0) > 0 for k in need), "an outcome class was never exercised: %s" % s["classes"])
        states += res["distinct"]
        transitions += res["generated"]
        replayed += s["cases"]
        samples += s["samples"][:2]
        per[name] = {"configurations": s["cases"], "outcomes": s["classes"]}
    # import = splice: ZyCore programs split over two files
    cfg = "wt9" if tier == "quick" else "wt10"
    res, cases = p_core.tlc_cases(cfg)
    summ = os.path.join(W, "split.summary.json")
    lib.zyconf(["replay-split", cases, summ], timeout=6000)
    s = json.load(open(summ))
    out.add_findings(s["findings"])
    require(s["split_programs"] > 1000, "too few programs with a closed let-bound value")
    states += res["distinct"]
    transitions += res["generated"]
    replayed += s["variants"]
    samples += s["samples"][:2]
    per["split"] = {"programs": s["cases"], "split_programs": s["split_programs"], "variants": s["variants"]}
    gsum = os.path.join(W, "generativity.summary.json")
    lib.zyconf(["generativity", gsum])
    g = json.load(open(gsum))
    out.add_findings(g["findings"])
    replayed += g["cases"]
    per["generativity"] = {"scenarios": g["cases"]}
    out.coverage = {"states": states, "transitions": transitions, "traces_validated_against_impl": replayed,
                    "samples": samples[:6], "configurations": per,
                    "explanation": "ZySources: loader (seen before recursion, imports then companion), DFS cycle detector, provider order as written, checked "
                                   "against reachability/transitive closure for every import configuration; each configuration is materialised as real files "
                                   "(mixed relative/absolute/symlinked spellings) and loaded by CompilerSession::graph. Splice semantics: every ZyCore program with "
                                   "a closed let-bound value is split into importer+provider (also with a matching and a mismatching .zyi, and imported twice) and "
                                   "must behave as the single-file prediction; generativity scenarios."}
    out.assumptions = ["TLC 1.8.0", "renderer harness/src/core.rs", "intrinsic imports give the provider the same primitive types as the Builtin package"]
    return out.finish()


def replay(prop, path):
    r = json.load(open(path))
    log(json.dumps(r["first"], indent=1)[:4000])
    return 0
