"""C07 — ZyScope.tla: lexical scoping and import hygiene."""
import json
import os

import lib
from lib import log, require
import p_core

W = os.path.join(lib.WORK, "scope")


def run(prop, tier):
    lib.build_harness()
    os.makedirs(W, exist_ok=True)
    out = lib.Outcome(prop, tier, "model_checking")
    states = transitions = replayed = 0
    per, samples = {}, []
    cfgs = ["MC_ZyScope_4.cfg", "MC_ZyScope_5.cfg", "MC_ZyScope_b6.cfg"] + (["MC_ZyScope_6.cfg", "MC_ZyScope_b7.cfg"] if tier == "thorough" else [])
    # alpha-invariance of the rule set with mobile `that` bindings (no replay: an invariant of the model)
    lib.run_tlc("ZyScope.tla", "MC_ZyScope_b5a.cfg", os.path.join(lib.WORK, "scope", "b5a.out"), workers=12, coverage=False, timeout=3000)
    for cfg in cfgs:
        tout = os.path.join(W, cfg + ".out")
        res = lib.run_tlc("ZyScope.tla", cfg, tout, workers=12, coverage=False, timeout=7200)
        cases = os.path.join(W, cfg + ".cases.ndjson")
        n = lib.extract_replay(tout, cases)
        os.remove(tout)
        require(n > 10000, "too few named terms from %s" % cfg)
        log("[tlc] %s: %d states, %d named terms, %.0fs" % (cfg, res["distinct"], n, res["wall_s"]))
        summ = os.path.join(W, cfg + ".summary.json")
        lib.zyconf(["replay-scope", cases, summ], timeout=7200)
        s = json.load(open(summ))
        out.add_findings(s["findings"])
        require(all(s["classes"].get(k, 0) > 0 for k in ("resolved", "unbound", "duplicate")), "an outcome class was never exercised: %s" % s["classes"])
        states += res["distinct"]
        transitions += res["generated"]
        replayed += s["cases"]
        samples += s["samples"][:2]
        per[cfg] = {"named_terms": s["cases"], "classes": s["classes"]}
    # behavioural half: the prediction of ZyCore never mentions names; every naming strategy must give it
    cfg = "wt9" if tier == "quick" else "wt10"
    res, cases = p_core.tlc_cases(cfg)
    summ = os.path.join(W, "naming.summary.json")
    lib.zyconf(["replay-core", cases, summ, "full-shadow,full-random,lean-random"], timeout=7200)
    s = json.load(open(summ))
    for f in s["findings"]:
        f = dict(f)
        f["property"] = "C07"
        f["kind"] = "renaming-changes-" + ("acceptance" if f["kind"] in ("rejects-well-typed", "accepts-ill-typed", "rejected-without-type-diagnostic") else "behaviour")
        out.add_findings([f])
    states += res["distinct"]
    transitions += res["generated"]
    replayed += s["renders"]
    per["naming"] = {"programs": s["cases"], "renders": s["renders"], "modes": "full-shadow,full-random,lean-random"}
    out.coverage = {"states": states, "transitions": transitions, "traces_validated_against_impl": replayed,
                    "samples": samples[:4], "exhaustive": True, "configurations": per,
                    "explanation": "every named term over two names up to the token bound (fn, fn with tuple / annotated pattern, fix, do, let, let with tuple "
                                   "pattern, pairs, two-arm match, begin blocks with two `that` lets or a `that` param, import boundaries): TLC checks "
                                   "BoundaryHygiene and AlphaInvariance (renaming any binder to a fresh name) on the rule set and prints Res; the real "
                                   "occurrence->binder map read from ProgramAnalysis by source position must be equal, unbound/duplicate errors as predicted "
                                   "(imports are real second files). Behavioural half: every ZyCore program under max-shadowing and random naming."}
    out.assumptions = ["TLC 1.8.0", "renderers harness/src/scope.rs and core.rs"]
    return out.finish()


def replay(prop, path):
    r = json.load(open(path))
    log(json.dumps(r["first"], indent=1)[:4000])
    return 0
