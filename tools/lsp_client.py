"""Minimal LSP client over stdio for the cajun binary (C17: revision-checked commit of analyses)."""
import json
import os
import queue
import subprocess
import threading
import time


class Lsp:
    def __init__(self, binary):
        self.p = subprocess.Popen([binary], stdin=subprocess.PIPE, stdout=subprocess.PIPE, stderr=subprocess.DEVNULL)
        self.q = queue.Queue()
        self.next_id = 1
        self.t = threading.Thread(target=self._reader, daemon=True)
        self.t.start()

    def _reader(self):
        f = self.p.stdout
        while True:
            length = None
            while True:
                line = f.readline()
                if not line:
                    self.q.put(None)
                    return
                line = line.strip()
                if not line:
                    break
                if line.lower().startswith(b"content-length:"):
                    length = int(line.split(b":")[1])
            if length is None:
                continue
            body = f.read(length)
            try:
                self.q.put((time.time(), json.loads(body)))
            except Exception:
                pass

    def send(self, msg):
        body = json.dumps(msg).encode()
        self.p.stdin.write(b"Content-Length: %d\r\n\r\n" % len(body) + body)
        self.p.stdin.flush()

    def request(self, method, params, timeout=60):
        i = self.next_id
        self.next_id += 1
        self.send({"jsonrpc": "2.0", "id": i, "method": method, "params": params})
        held = []
        end = time.time() + timeout
        while time.time() < end:
            try:
                item = self.q.get(timeout=0.2)
            except queue.Empty:
                continue
            if item is None:
                raise RuntimeError("server closed its output")
            if item[1].get("id") == i and "method" not in item[1]:
                for h in held:
                    self.q.put(h)
                return item[1]
            if "id" in item[1] and "method" in item[1]:
                self.send({"jsonrpc": "2.0", "id": item[1]["id"], "result": None})     # server -> client request
            else:
                held.append(item)
        raise RuntimeError("no response to %s" % method)

    def notify(self, method, params):
        self.send({"jsonrpc": "2.0", "method": method, "params": params})

    def drain(self, until, idle_after=1.0, timeout=120):
        """Collect messages until `until(msg)` holds for one of them and then the stream stays idle for idle_after s."""
        got, seen, last = [], False, time.time()
        end = time.time() + timeout
        while time.time() < end:
            try:
                item = self.q.get(timeout=0.1)
            except queue.Empty:
                if seen and time.time() - last > idle_after:
                    return got, True
                continue
            if item is None:
                return got, False
            last = time.time()
            m = item[1]
            if "id" in m and "method" in m:
                self.send({"jsonrpc": "2.0", "id": m["id"], "result": None})
                continue
            got.append(m)
            if until(m):
                seen = True
        return got, False

    def start(self):
        r = self.request("initialize", {"processId": None, "rootUri": None, "capabilities": {}})
        self.notify("initialized", {})
        return r

    def stop(self):
        try:
            self.request("shutdown", None, timeout=10)
            self.notify("exit", None)
        except Exception:
            pass
        try:
            self.p.wait(timeout=5)
        except Exception:
            self.p.kill()


def digest(diags):
    import hashlib
    if not diags:
        return "none"
    import re
    # identifiers of unsolved holes are printed with process-unique numbers: not part of the observation
    norm = lambda m: re.sub(r"/[\w./'-]+\.zy", "<doc>", re.sub(r"\[[^\]]*#\d+\]|\d{6,}", "#", m))
    key = sorted((norm(d.get("message", "")), json.dumps(d.get("range"), sort_keys=True), d.get("severity")) for d in diags)
    return hashlib.sha256(json.dumps(key).encode()).hexdigest()[:12]
