"""C17 — ZySessionConc / ZyKeySpace / ZyLspCommit models; snapshot stress validated by ZySessionConcTrace."""
import json
import os

import lib
from lib import log, require

W = os.path.join(lib.WORK, "conc_chk")


def run(prop, tier):
    lib.build_harness()
    os.makedirs(W, exist_ok=True)
    out = lib.Outcome(prop, tier, "model_checking")
    states = transitions = 0
    per = {}
    # (1) exhaustive interleavings of the models
    models = [("ZySessionConc.tla", "MC_ZySessionConc.cfg" if tier == "quick" else "MC_ZySessionConc_t.cfg"),
              ("ZyKeySpace.tla", "MC_ZyKeySpace.cfg"), ("ZyLspCommit.tla", "MC_ZyLspCommit.cfg")]
    for mod, cfg in models:
        res = lib.run_tlc(mod, cfg, os.path.join(W, cfg + ".out"), workers=8, coverage=True, timeout=3000)
        # actions of the switched-off design variant are expected to be disabled
        off = ("SetPending", "InternPending", "Load", "Store")
        zero = [a for a, n in res["coverage"].items() if n == 0 and a not in off]
        require(not zero, "%s: actions never taken: %s" % (cfg, zero))
        states += res["distinct"]
        transitions += res["generated"]
        per[cfg] = {"tlc_states": res["distinct"], "actions": res["coverage"]}
        log("[tlc] %s: %d states" % (cfg, res["distinct"]))
    # the deliberately wrong variants must be refuted (the invariants are not vacuous)
    for mod, cfg, inv in [("ZySessionConc.tla", "MC_ZySessionConc_nowait.cfg", "Isolation"),
                          ("ZyKeySpace.tla", "MC_ZyKeySpace_split.cfg", "UniqueKeySpaces"),
                          ("ZyLspCommit.tla", "MC_ZyLspCommit_nocheck.cfg", "CommitFresh")]:
        res = lib.run_tlc(mod, cfg, os.path.join(W, cfg + ".out"), workers=4, coverage=False, allow_violation=True, timeout=600)
        require(res["violated"] == inv, "%s should refute %s but got %s" % (cfg, inv, res["violated"]))
    # (2) stress of the real session, trace validated by TLC
    plans = [(8, 20)] if tier == "quick" else [(2, 45), (4, 45), (8, 60), (16, 60)]
    replayed, samples = 0, []
    for k, secs in plans:
        trace = os.path.join(W, "stress_%d.trace.ndjson" % k)
        p = lib.zyconf(["stress-snapshots", trace, str(k), str(secs)], timeout=secs + 600)
        line = [l for l in p.stdout.splitlines() if l.startswith("stress-snapshots:")][-1]
        log("[stress] " + line)
        stats = dict(kv.split("=") for kv in line.split()[1:])
        require(int(stats["completed"]) > 50 and int(stats["cancelled"]) > 0, "stress did not exercise both completion and cancellation: " + line)
        events = [json.loads(l) for l in open(trace)]
        tout = os.path.join(W, "stress_%d.tlc.out" % k)
        res = lib.run_tlc("ZySessionConcTrace.tla", "ZySessionConcTrace.cfg", tout, workers=1, coverage=False,
                          extra_env={"TRACE": trace}, allow_violation=True, timeout=3000)
        text = open(tout, errors="replace").read()
        if "TRACE-REJECTED" in text or res["depth"] - 1 != len(events):
            idx = min(res["depth"] - 1, len(events) - 1)
            ev = events[idx]
            snap = next((e for e in reversed(events[:idx]) if e["ev"] == "snapshot"), None)
            kind = "keyspace-collision" if ev["ev"] == "keyspaces" else "analysis-differs-from-sequential-oracle"
            out.add_findings([{"property": "C17", "kind": kind,
                               "detail": "ZySessionConcTrace rejects event %d: %s (snapshot contents %s)" %
                                         (idx, json.dumps(ev)[:400], json.dumps(snap["eff"]) if snap else "-"),
                               "workers": k}])
        if stats["timed_out"] == "true" or int(stats["max_write_block_ms"]) > 60000:
            out.add_findings([{"property": "C17", "kind": "deadlock-or-starvation", "detail": line, "workers": k}])
        states += res["distinct"]
        transitions += res["generated"]
        replayed += int(stats["snapshots"])
        samples += [e for e in events if e["ev"] == "result" and not e["cancelled"]][:1] + [e for e in events if e["ev"] == "snapshot"][:1]
        per["stress_k%d" % k] = stats
    # (3) pending slot of check_resolved
    psum = os.path.join(W, "pending.summary.json")
    lib.zyconf(["pending-slot", psum])
    out.add_findings(json.load(open(psum))["findings"])
    out.coverage = {"states": states, "transitions": transitions, "traces_validated_against_impl": replayed,
                    "samples": samples[:4], "configurations": per,
                    "explanation": "all interleavings of owner/analysers/writes (Isolation, WriteCompletes liveness under weak fairness), of the atomic key-space "
                                   "counter and of the LSP revision-checked commit are model checked, each with its deliberately wrong variant refuted; a "
                                   "randomized stress of the real session (owner editing + k analysers on snapshots under salsa::Cancelled::catch + allocator "
                                   "threads) is logged and every completed analysis is validated by TLC against ZySession's from-scratch answer for its "
                                   "snapshot's contents; key spaces pairwise distinct; check_resolved pending slot scenario."}
    out.assumptions = ["TLC 1.8.0", "schedules are those the OS produced during the stress run (exhaustiveness is about the model only)",
                       "the owner is the only writer, so the contents recorded at snapshot time are exact"]
    return out.finish()


def replay(prop, path):
    r = json.load(open(path))
    log(json.dumps(r["first"], indent=1)[:4000])
    return 0
