"""C17 — ZySessionConc / ZyKeySpace / ZyLspCommit models; snapshot stress validated by ZySessionConcTrace."""
import json
import os

import lib
from lib import log, require

W = os.path.join(lib.WORK, "conc_chk")


PRE = 'param (\n  (/core; /system) :\n  @(import("/repo/lib/std/builtin.zy"))\n) in\nlet (/OS; /process) = system in\n'
CONTENTS = {"V": PRE + "! (process/exit) 0\n", "E1": PRE + "let x : OS = 1 in\n! (process/exit) 0\n", "E2": PRE + "! (process/exit\n", "E3": PRE + "! (process/exit) y\n"}


def lsp_binding(tier, out):
    import random
    import time
    from lsp_client import Lsp, digest
    lib.build_repo_bins()
    d = os.path.join(W, "lsp")
    os.makedirs(d, exist_ok=True)
    rnd = random.Random(lib.seed() + 17)
    server = Lsp(lib.CAJUN)
    server.start()
    is_pub = lambda m, uri, v: m.get("method") == "textDocument/publishDiagnostics" and m["params"].get("uri") == uri and m["params"].get("version") == v
    # sequential oracle: what the server publishes for a document that only ever had this text
    want = {}
    for name, text in CONTENTS.items():
        path = os.path.join(d, "oracle_%s.zy" % name)
        open(path, "w").write(text)
        uri = "file://" + path
        server.notify("textDocument/didOpen", {"textDocument": {"uri": uri, "languageId": "zydeco", "version": 1, "text": text}})
        msgs, ok = server.drain(lambda m: is_pub(m, uri, 1), idle_after=0.4)
        require(ok, "no diagnostics for the oracle document %s" % name)
        want[name] = digest([m for m in msgs if is_pub(m, uri, 1)][-1]["params"]["diagnostics"])
    require(want["V"] == "none" and len({want[n] for n in ("E1", "E2", "E3")}) == 3 and "none" not in (want["E1"], want["E2"], want["E3"]),
            "oracle diagnostics are not distinguishable: %s" % want)
    rounds = 14 if tier == "quick" else 120
    records, superseded, completed, stale_last = [], 0, 0, 0
    for r in range(rounds):
        k = rnd.randint(2, 9)
        seq = [rnd.choice(list(CONTENTS)) for _ in range(k)]
        path = os.path.join(d, "doc_%d.zy" % r)
        open(path, "w").write(CONTENTS[seq[0]])
        uri = "file://" + path
        server.notify("textDocument/didOpen", {"textDocument": {"uri": uri, "languageId": "zydeco", "version": 1, "text": CONTENTS[seq[0]]}})
        for i in range(1, k):
            if rnd.random() < 0.4:
                time.sleep(rnd.random() * 0.03)
            server.notify("textDocument/didChange", {"textDocument": {"uri": uri, "version": i + 1}, "contentChanges": [{"text": CONTENTS[seq[i]]}]})
        msgs, ok = server.drain(lambda m: is_pub(m, uri, k), idle_after=0.8, timeout=120)
        pubs = [m["params"] for m in msgs if m.get("method") == "textDocument/publishDiagnostics" and m["params"].get("uri") == uri and m["params"].get("version") is not None]
        if not ok or not pubs:
            out.add_findings([{"property": "C17", "kind": "lsp-no-result-for-newest-revision", "detail": "round %d: versions %s, %d notifications, none for version %d within 120 s" % (r, seq, len(pubs), k)}])
            continue
        for j, p in enumerate(pubs):
            v = p["version"]
            rec = {"round": r, "version": v, "last": k, "got": digest(p["diagnostics"]), "want": want[seq[v - 1]] if 1 <= v <= k else "?", "final": j == len(pubs) - 1, "text": seq[v - 1] if 1 <= v <= k else "?"}
            records.append(rec)
            if rec["got"] == "none" and rec["want"] != "none":
                superseded += 1
            elif rec["want"] != "none":
                completed += 1
            if rec["final"] and v != k:
                stale_last += 1
            if not (rec["got"] in (rec["want"], "none")) or (v == k and rec["got"] != rec["want"]):
                out.add_findings([{"property": "C17", "kind": "lsp-diagnostics-of-another-revision" if rec["got"] not in (rec["want"], "none") else "lsp-newest-revision-reported-empty",
                                   "detail": "round %d, texts %s: notification %d of %d carries version %d with diagnostics %s; its own text (%s) gives %s; newest version %d" % (
                                       r, seq, j + 1, len(pubs), v, rec["got"], rec["text"], rec["want"], k)}])
        server.notify("textDocument/didClose", {"textDocument": {"uri": uri}})
    server.stop()
    trace = os.path.join(W, "lsp.trace.ndjson")
    with open(trace, "w") as f:
        for rec in records:
            f.write(json.dumps(rec) + "\n")
    require(len(records) >= rounds, "too few notifications: %d" % len(records))
    res = lib.run_tlc("ZyLspTrace.tla", "ZyLspTrace.cfg", os.path.join(W, "lsp.tlc.out"), workers=1, coverage=False, extra_env={"TRACE": trace}, allow_violation=True, timeout=600)
    rejected = res["violated"] is not None or res["depth"] - 1 != len(records)
    mine = any(f.get("kind", "").startswith("lsp-") and f.get("kind") != "lsp-no-result-for-newest-revision" for f in out.findings)
    require(rejected == mine, "ZyLspTrace and the driver disagree: rejected=%s findings=%s" % (rejected, mine))
    log("[lsp] %d rounds, %d notifications (%d overtaken and dropped, %d completed with their own diagnostics)" % (rounds, len(records), superseded, completed))
    return {"rounds": rounds, "notifications": len(records), "bursts_whose_last_notification_is_an_overtaken_version": stale_last, "overtaken": superseded, "completed_with_errors": completed, "states": res["distinct"], "transitions": res["generated"]}


def run(prop, tier):
    lib.build_harness()
    os.makedirs(W, exist_ok=True)
    out = lib.Outcome(prop, tier, "model_checking")
    states = transitions = 0
    per = {}
    # (1) exhaustive interleavings of the models
    models = [("ZySessionConc.tla", "MC_ZySessionConc.cfg" if tier == "quick" else "MC_ZySessionConc_t.cfg"),
              ("ZyKeySpace.tla", "MC_ZyKeySpace.cfg"), ("ZyLspCommit.tla", "MC_ZyLspCommit.cfg")]
    for mod, cfg in models:
        res = lib.run_tlc(mod, cfg, os.path.join(W, cfg + ".out"), workers=8, coverage=True, timeout=3000)
        # actions of the switched-off design variant are expected to be disabled
        off = ("SetPending", "InternPending", "Load", "Store")
        zero = [a for a, n in res["coverage"].items() if n == 0 and a not in off]
        require(not zero, "%s: actions never taken: %s" % (cfg, zero))
        states += res["distinct"]
        transitions += res["generated"]
        per[cfg] = {"tlc_states": res["distinct"], "actions": res["coverage"]}
        log("[tlc] %s: %d states" % (cfg, res["distinct"]))
    # the deliberately wrong variants must be refuted (the invariants are not vacuous)
    for mod, cfg, inv in [("ZySessionConc.tla", "MC_ZySessionConc_nowait.cfg", "Isolation"),
                          ("ZyKeySpace.tla", "MC_ZyKeySpace_split.cfg", "UniqueKeySpaces"),
                          ("ZyLspCommit.tla", "MC_ZyLspCommit_nocheck.cfg", "CommitFresh")]:
        res = lib.run_tlc(mod, cfg, os.path.join(W, cfg + ".out"), workers=4, coverage=False, allow_violation=True, timeout=600)
        require(res["violated"] == inv, "%s should refute %s but got %s" % (cfg, inv, res["violated"]))
    # (2) stress of the real session, trace validated by TLC
    plans = [(8, 20)] if tier == "quick" else [(2, 45), (4, 45), (8, 60), (16, 60)]
    replayed, samples = 0, []
    for k, secs in plans:
        trace = os.path.join(W, "stress_%d.trace.ndjson" % k)
        p = lib.zyconf(["stress-snapshots", trace, str(k), str(secs)], timeout=secs + 600)
        line = [l for l in p.stdout.splitlines() if l.startswith("stress-snapshots:")][-1]
        log("[stress] " + line)
        stats = dict(kv.split("=") for kv in line.split()[1:])
        require(int(stats["completed"]) > 50 and int(stats["cancelled"]) > 0, "stress did not exercise both completion and cancellation: " + line)
        events = [json.loads(l) for l in open(trace)]
        tout = os.path.join(W, "stress_%d.tlc.out" % k)
        res = lib.run_tlc("ZySessionConcTrace.tla", "ZySessionConcTrace.cfg", tout, workers=1, coverage=False,
                          extra_env={"TRACE": trace}, allow_violation=True, timeout=3000)
        text = open(tout, errors="replace").read()
        if "TRACE-REJECTED" in text or res["depth"] - 1 != len(events):
            idx = min(res["depth"] - 1, len(events) - 1)
            ev = events[idx]
            snap = next((e for e in reversed(events[:idx]) if e["ev"] == "snapshot"), None)
            kind = "keyspace-collision" if ev["ev"] == "keyspaces" else "analysis-differs-from-sequential-oracle"
            out.add_findings([{"property": "C17", "kind": kind,
                               "detail": "ZySessionConcTrace rejects event %d: %s (snapshot contents %s)" %
                                         (idx, json.dumps(ev)[:400], json.dumps(snap["eff"]) if snap else "-"),
                               "workers": k}])
        if stats["timed_out"] == "true" or int(stats["max_write_block_ms"]) > 60000:
            out.add_findings([{"property": "C17", "kind": "deadlock-or-starvation", "detail": line, "workers": k}])
        states += res["distinct"]
        transitions += res["generated"]
        replayed += int(stats["snapshots"])
        samples += [e for e in events if e["ev"] == "result" and not e["cancelled"]][:1] + [e for e in events if e["ev"] == "snapshot"][:1]
        per["stress_k%d" % k] = stats
    # (2b) the editor: bursts of edits sent to the cajun binary over stdio, every publishDiagnostics validated by TLC
    lsp_stats = lsp_binding(tier, out)
    states += lsp_stats.pop("states")
    transitions += lsp_stats.pop("transitions")
    replayed += lsp_stats["notifications"]
    per["lsp"] = lsp_stats
    # (2c) inputs first created INSIDE a snapshot (the language server's pattern): the owner's later edit must reach new snapshots
    p = lib.zyconf(["snapshot-first-lookup"])
    lines = [l for l in p.stdout.splitlines() if l.startswith(("first", "disk"))]
    want = ["first (valid text) true; after the owner's edit: new snapshot false, owner false",
            "disk: first (syntax error) ok=false; after write+refresh_disk (ok=true) of valid text: new snapshot ok=true"]
    if lines != want:
        out.add_findings([{"property": "C17", "kind": "edit-does-not-reach-a-file-first-looked-up-in-a-snapshot", "detail": " | ".join(lines)}])
    # (3) pending slot of check_resolved
    psum = os.path.join(W, "pending.summary.json")
    lib.zyconf(["pending-slot", psum])
    out.add_findings(json.load(open(psum))["findings"])
    out.coverage = {"states": states, "transitions": transitions, "traces_validated_against_impl": replayed,
                    "samples": samples[:4], "configurations": per,
                    "explanation": "all interleavings of owner/analysers/writes (Isolation, WriteCompletes liveness under weak fairness), of the atomic key-space "
                                   "counter and of the LSP revision-checked commit are model checked, each with its deliberately wrong variant refuted; a "
                                   "randomized stress of the real session (owner editing + k analysers on snapshots under salsa::Cancelled::catch + allocator "
                                   "threads) is logged and every completed analysis is validated by TLC against ZySession's from-scratch answer for its "
                                   "snapshot's contents; key spaces pairwise distinct; check_resolved pending slot scenario."}
    out.assumptions = ["TLC 1.8.0", "schedules are those the OS produced during the stress run (exhaustiveness is about the model only)",
                       "the owner is the only writer, so the contents recorded at snapshot time are exact"]
    return out.finish()


def replay(prop, path):
    r = json.load(open(path))
    log(json.dumps(r["first"], indent=1)[:4000])
    return 0
