"""./check selftest — demonstrates that the trace specifications are bound to what the code did: each recorded trace
of the last runs (under work/) is accepted by TLC as recorded and REJECTED after one field of one record is
corrupted.  A trace specification that still accepts the corrupted trace constrains nothing."""
import json
import os
import re
import shutil

import lib
from lib import log, ToolError

W = os.path.join(lib.WORK, "selftest")


def corrupt_determinism(recs):
    recs[len(recs) // 2]["out"] = "0" * 16          # one process printed something else
    return "stdout digest of one run changed"


def corrupt_frontend(recs):
    i = next(i for i, r in enumerate(recs) if r.get("outcome") == "diagnostic")
    recs[i]["outcome"] = "panic"
    return "one diagnostic outcome turned into a panic"


def corrupt_format(recs):
    i = next(i for i, r in enumerate(recs) if r.get("ev") == "tree" and r.get("structure") == 0)
    recs[i]["structure"] = 1
    return "one tree's output no longer has the input's desugared structure"


def corrupt_run(recs):
    i = next(i for i, r in enumerate(recs) if r.get("accepted") and isinstance(r.get("end"), dict) and "Exit" in json.dumps(r.get("end")))
    recs[i]["end"] = {"Stuck": {"message": "selftest", "file": "lang/dynamics/src/eval.rs"}}
    return "one accepted program's run now ends in a stuck state"


def corrupt_coverage(recs):
    i = next(i for i, r in enumerate(recs) if not r["accepted"] and len(r["reported"]) >= 2)
    recs[i]["accepted"] = True
    recs[i]["reported"] = []
    return "one non-exhaustive match recorded as accepted"


def corrupt_lsp(recs):
    i = next(i for i, r in enumerate(recs) if r["got"] != "none" and r["got"] == r["want"])
    recs[i]["got"] = "0" * 12
    return "one notification carries the diagnostics of another text"


CASES = [
    ("ZyDeterminismTrace.tla", "ZyDeterminismTrace.cfg", "determinism/trace.ndjson", corrupt_determinism, None),
    ("ZyFrontendTrace.tla", "ZyFrontendTrace.cfg", "frontend/trace.ndjson", corrupt_frontend, None),
    ("ZyFormatTrace.tla", "ZyFormatTrace.cfg", "format/trace.ndjson", corrupt_format, "bad12"),
    ("ZyCoverageTrace.tla", "ZyCoverageTrace.cfg", "cov/q.trace.ndjson", corrupt_coverage, None),
    ("ZyLspTrace.tla", "ZyLspTrace.cfg", "conc_chk/lsp.trace.ndjson", corrupt_lsp, None),
]


def verdict(module, cfg, trace, counter):
    out = os.path.join(W, "tlc.out")
    r = lib.run_tlc(module, cfg, out, workers=1, coverage=False, extra_env={"TRACE": trace}, allow_violation=True, timeout=3000, xmx="16g")
    n = sum(1 for _ in open(trace))
    text = open(out).read()
    if counter:
        m = re.search(r'"TRACE-BAD", <<(\d+), (\d+), (\d+)>>', text)
        if not m:
            raise ToolError("no TRACE-BAD line")
        return ("counts", tuple(map(int, m.groups())))
    return ("accepted" if r["violated"] is None and r["depth"] - 1 == n else "rejected", None)


def run():
    os.makedirs(W, exist_ok=True)
    done = 0
    for module, cfg, rel, corrupt, counter in CASES:
        src = os.path.join(lib.WORK, rel)
        if not os.path.exists(src):
            log("[selftest] %s: no recorded trace (run the check first) - skipped" % rel)
            continue
        recs = [json.loads(l) for l in open(src)]
        if len(recs) > 6000:
            recs = recs[:6000]
        a = os.path.join(W, "as_recorded.ndjson")
        with open(a, "w") as f:
            for r in recs:
                f.write(json.dumps(r) + "\n")
        before = verdict(module, cfg, a, counter)
        what = corrupt(recs)
        b = os.path.join(W, "corrupted.ndjson")
        with open(b, "w") as f:
            for r in recs:
                f.write(json.dumps(r) + "\n")
        after = verdict(module, cfg, b, counter)
        if counter:
            ok = after[1][0] == before[1][0] + 1
            log("[selftest] %s: records breaking a C12 relation %d as recorded, %d after corruption (%s): %s" % (module, before[1][0], after[1][0], what, "bound" if ok else "NOT BOUND"))
        else:
            ok = after[0] == "rejected" and before[0] == "accepted"
            log("[selftest] %s: %s as recorded, %s after corruption (%s): %s" % (module, before[0], after[0], what, "bound" if ok else "NOT BOUND"))
        if not ok:
            raise ToolError("trace specification %s accepts a corrupted trace" % module)
        done += 1
    shutil.rmtree(W, ignore_errors=True)
    log("[selftest] %d trace specifications demonstrated" % done)
    return 0
