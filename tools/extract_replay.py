#!/usr/bin/env python3
"""Extract REPLAY lines printed by TLC (PrintT(<<"REPLAY", ToJson(case)>>)) into ndjson."""
import re, json, sys
def extract(tlc_out, dest):
    n = 0
    pat = re.compile(r'<<"REPLAY", "(.*)">>\s*$')
    with open(dest, 'w') as out:
        for line in open(tlc_out, errors='replace'):
            if '"REPLAY"' not in line:
                continue
            m = pat.search(line)
            if not m:
                continue
            case = json.loads(json.loads('"' + m.group(1) + '"'))
            out.write(json.dumps(case, sort_keys=True) + "\n")
            n += 1
    return n
if __name__ == '__main__':
    print(extract(sys.argv[1], sys.argv[2]))
