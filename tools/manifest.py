#!/usr/bin/env python3
"""Regenerates /verif/MANIFEST.json from the table below (single source of truth for the interface)."""
import json

ALL = ["C%02d" % i for i in range(1, 21)]


def chk(pid, cat, text, note, technique, ref):
    return {"property_id": pid, "quick_cmd": "./check %s --tier quick" % pid,
            "thorough_cmd": "./check %s --tier thorough" % pid,
            "evidence_file": "evidence/%s.json" % pid, "replay_cmd_template": "./check %s --replay {path}" % pid,
            "engine": "tlc+zyconf", "level_claimed": {"category": cat, "text": text, "design_ref": ref},
            "level_note": note, "technique": technique}


CHECKS = [
    chk("C01", "model_checking",
        "TLC checks TypeSafety (no Stuck state) on every execution state of every program the derivation machine of spec/ZyCore.tla completes within the token bound; every completed behaviour is replayed: whatever the real checker accepts is run step by step and must end in exit/ret/trap/still-running, never a stuck-class panic. Repository executables and checker-accepted token mutants of them are run with varied stdin/argv and the outcome trace is validated by spec/ZyRunTrace.tla.",
        "Bounded (token bound per configuration, fuel bound); trusted: TLC, the renderer, the panic classification table. Host I/O failure and non-termination are allowed outcomes.",
        "TLA+ derivation machine + CK machine model checked by TLC; spec->code replay of every behaviour; code->spec trace validation of corpus runs",
        "DESIGN.md §4 C01"),
    chk("C02", "model_checking",
        "The CK machine of spec/ZyCore.tla is the reference CBPV semantics; for every enumerated well-typed program TLC's predicted stdout and exit code must equal what the real interpreter does in-process (two annotation levels, two naming strategies) and, for a subsample, what `zydeco run` does as a process.",
        "Bounded enumeration; integer values stay small (width semantics is C05); floats/chars/bytes/stdin roles not in the generated language.",
        "TLA+ reference semantics executed by TLC; spec->code replay comparing observable behaviour",
        "DESIGN.md §4 C02"),
    chk("C03", "model_checking",
        "Typing is specified twice in spec/ZyCore.tla (derivation machine, recursive synthesis operator) and TLC checks they agree (GenSound) and are sound (TypeSafety). Every enumerated well-typed program and every single-fault program (wrong type at any position incl. wrong former and wrong sort, type used as term, unknown constructor/destructor, missing arm) is checked by the real checker: accept iff the model accepts, rejection must be a diagnostic, never a panic.",
        "Verdicts are compared on fully annotated renderings (and on lean renderings for well-typed programs); polymorphism/existentials/sealing are in a separate layer.",
        "TLA+ typing rules model checked by TLC; spec->code replay comparing verdicts on exhaustively enumerated well-typed and single-fault programs",
        "DESIGN.md §4 C03"),
    chk("C04", "model_checking",
        "spec/ZyCoverage.tla transcribes the pattern-matrix algorithm and TLC proves it equal to brute-force value enumeration for every matrix within the bound (plus witness soundness/completeness, row-order independence, arm always found). Every matrix is rendered as a match in four placements: the real verdict must equal the model's, the interpreter must take the predicted first-matching arm for every value of the type, and the reported missing patterns are validated semantically by TLC (spec/ZyCoverageTrace.tla). spec/ZyCoMatch.tla enumerates every arm list over codata types with <= 3 destructors (missing, duplicate, unknown arms) with verdict and dispatch replayed.",
        "Type algebra: unit, sums of 0-3 constructors, binary/ternary products in flat and nested spelling, named fields, nesting; <= 3 rows of depth-2 patterns exhaustively, <= 4 rows of depth 3 by simulation. Package payload patterns are not generated.",
        "TLA+ transcription vs declarative definition model checked by TLC; spec->code replay (verdict, run-time arm); code->spec TLC validation of reported witnesses",
        "DESIGN.md §4 C04"),
    chk("C08", "model_checking",
        "spec/ZyGraph.tla models Kosaraju::run, SccGraph::{new,top,release} (five maps, one id at a time) and BindingContext's level-by-level order with every hash iteration order as a nondeterministic permutation; TLC checks them against mutual reachability for all 512 digraphs on 3 nodes under all 6 orders (thorough: all 65536 on 4 nodes under 3 orders): components, top() after every piecemeal release, map consistency, dependencies-first emission, order independent of iteration order. Drain behaviours are replayed on the real zydeco_utils::graph API. spec/ZyBlocks.tla enumerates every block of 3 contributions (param/value/type definition), every reference graph and every textual permutation: the real verdict (value cycles rejected with a diagnostic, recursive type groups accepted) and exit code must equal the permutation-independent prediction.",
        "4-node graphs are sampled by simulation in the quick tier and enumerated in the thorough tier; cycles through parameters are not expressible with well-sorted contributions and are not generated.",
        "TLA+ implementation-shaped model vs declarative SCC oracle, model checked by TLC under nondeterministic iteration order; spec->code replay on the graph API and on rendered block programs",
        "DESIGN.md §4 C08"),
    chk("C10", "model_checking",
        "spec/ZyFrontend.tla enumerates every sequence over the full 75-lexeme vocabulary of the surface language (every keyword, punctuation, literal kind, comment marker, annotation marker, unknown characters) up to length 2 (thorough 3) and over a 16-lexeme core vocabulary up to length 4 (thorough 5), with the set of legal outcomes {success, diagnostic} as the only allowed states. Each sequence is rendered with two spacings and pushed through the real pipeline in-process (lex, parse, desugar, resolve, check, coverage, report rendering with source snippets): the outcome must be success or a diagnostic whose spans lie inside the source, never a panic, hang (step watchdog) or empty failure. Token-level mutants of every repository source (delete, duplicate, swap, replace by a vocabulary lexeme; thorough 50 per file) and random byte/UTF-8 soups go the same way. The recorded outcome trace is validated by TLC (spec/ZyFrontendTrace.tla). The CLI is bound on regression scenarios and a seeded subsample: exit status 0 or 1 with non-empty stderr, never 101 or a signal.",
        "Exhaustive only over short lexeme sequences; deep nesting is reached through corpus mutants. Five front-end panics were found and repaired by fix: commits (F2, F3, F12, F18 and the fallible literal actions); one known finding (F16: CLI observation printing).",
        "TLA+ outcome model; TLC-enumerated lexeme sequences and corpus token mutants replayed through the real in-process pipeline and the CLI; outcome trace validated by TLC",
        "DESIGN.md §4 C10"),
    chk("C11", "model_checking",
        "spec/ZyLexer.tla models the parser-facing lexer over token classes (code, `/-`, `-/`, line comment swallowing markers, opaque string, unknown character); TLC checks NoSilentTruncation for every class string up to the bound and that the machine agrees with an independent reading of comment nesting. Every string is concretised and fed to the real Lexer and parser: token stream equal to the model's emitted positions, must-reject inputs rejected, regular inputs accepted with a root span covering first to last code token. Every repository source followed by 11 kinds of irregular junk must be rejected (5 comment-only suffixes accepted); `zydeco check|fmt|fmt --check` are bound on a subsample (failure status, file untouched).",
        "Class strings up to length 5 (thorough 7); `Code` is concretised as an identifier so that every prefix is a complete term (the dangerous case). The pinned lexer violated the property (F4, F5) and was repaired by a fix: commit.",
        "TLA+ lexer machine model checked by TLC (intended design; pinned design refuted); spec->code replay of every class string on the real lexer/parser; suffix family over the repository corpus",
        "DESIGN.md §4 C11"),
    chk("C09", "model_checking",
        "spec/ZySources.tla models the loader (dedup map filled before recursion, import sites then optional companion), the explicit-stack DFS cycle detector and the post-order provider order as written; TLC checks them against reachability / transitive closure for every import configuration over a.zy, a.zyi, b.zy (all existence sets; thorough: all 65536 configurations over four files): loaded once, error iff a reachable import target is missing, cycle iff cyclic, reported steps are edges and close up, providers first. Every configuration is materialised as real files with mixed relative, absolute and symlinked spellings and loaded by CompilerSession::graph. Splice semantics: every enumerated ZyCore program with a closed let-bound value is split into importer and provider (plain, with a matching .zyi, with a mismatching .zyi, imported twice) and must equal the single-file prediction of the reference semantics; generativity scenarios (two imports of a sealed type distinct, one bound import shared).",
        "Four-file configurations are sampled in the quick tier; provider terms are host-operation-free closed values (a provider cannot reach the Builtin package without being parameterised).",
        "TLA+ implementation-shaped loader/DFS model vs declarative graph oracle model checked by TLC; spec->code replay on real directories; split-vs-inline replay against the reference semantics",
        "DESIGN.md §4 C09"),
    chk("C15", "model_checking",
        "spec/ZySession.tla is the property as a state machine: one action per public mutator (set_overlay, clear_overlay, write+refresh_disk, delete+refresh_disk) over {disk, overlay} for root.zy, lib.zy, lib.zyi, other.zy with 20 content variants (valid, syntax error, type error, imports that create cycles, matching/mismatching/non-type companion, an executable root), every answer defined from scratch. TLC enumerates every history of 2 operations (thorough: 3, 192000 histories) from three adversarial start states plus long simulated histories; each is replayed on one long-lived CompilerSession and after every operation graph, outcome, culprit and executable behaviour are compared with the model, and rendered diagnostics with locations, coverage and source set with a fresh session on the same effective contents. Recorded random 150-step histories with memo-evicting noise queries are validated by TLC against spec/ZySessionTrace.tla.",
        "Four files; per-node fact queries (normalized_type, annotation_of_def) are not compared. The pinned tree violated the property (F9) and was repaired by a fix: commit.",
        "TLA+ from-scratch session semantics; TLC-enumerated and simulated edit histories replayed on a long-lived session (model + fresh-session oracle); TLC trace validation of recorded histories",
        "DESIGN.md §4 C15"),
    chk("C17", "model_checking",
        "spec/ZySessionConc.tla (owner, k analysers on storage-sharing snapshots, salsa cancellation flag, writer that waits for running handles; pending slot of check_resolved), spec/ZyKeySpace.tla (atomic counter) and spec/ZyLspCommit.tla (read revision / snapshot / analyse / revision-checked commit) are model checked over all interleavings: Isolation (a finished analysis equals its snapshot's contents), WriteCompletes (liveness under weak fairness), UniqueKeySpaces, CommitFresh; each deliberately wrong variant (writer does not wait, split load/store, unchecked commit) is refuted on every run. The real session is bound by randomized stress: an owner thread editing (overlays, disk write + refresh) and taking snapshots, 8 (thorough 2-16) analyser threads running graph/analyze/executable on their snapshots under salsa::Cancelled::catch, 4 allocator threads; every completed analysis (about 9000 per 20 s) is validated by TLC (spec/ZySessionConcTrace.tla) against ZySession's from-scratch answer for the contents its snapshot saw, or must be cancelled; key spaces pairwise distinct; watchdog for a blocked owner.",
        "Exhaustive interleavings are about the models; the code is explored under the schedules the OS produced. The LSP commit model is not yet bound to the cajun binary over stdio. One known finding (F10: check_resolved pending slot).",
        "TLA+ concurrency models exhaustively model checked by TLC (safety + liveness, wrong variants refuted); randomized stress of the real session recorded as a trace and validated by TLC against the sequential from-scratch semantics",
        "DESIGN.md §4 C17"),
    chk("C05", "model_checking",
        "spec/ZyNumeric.tla defines W-bit two's-complement arithmetic on bit sequences (add, sub, shift-add mul, restoring division, signed div/rem by sign and magnitude with MIN/-1 wrap, signed/unsigned comparison, decimal rendering) and literal range checking on digit strings; TLC checks these against mathematics for all operand pairs at W=4,5 and W=8 (add/sub/compare, division laws, to_string, range predicate within +-300). TLC prints all 65536 operand pairs of Int8 and UInt8 for all 8 binary operations plus to_string, 324 boundary pairs per wider type and operation, 134 literal strings around every range boundary of the 8 types and 726 float comparison cases; every row is applied on the real Runtime (1.06 M host applications) or analysed and run by the real tool chain (accept iff in range, printed value equals the literal); default Int64 and absence of implicit conversions by 12 discipline programs.",
        "NOT decided here: IEEE-754 arithmetic results (+ - * / at f32/f64), float_to_string, correctly-rounded decimal->binary conversion and the finite-after-narrowing test beyond three hand-picked Float32 literals - numeric accuracy is outside what a TLA+ model decides at reasonable cost. Random wide operands are not generated (boundary sets only).",
        "TLA+ bit-vector semantics validated against mathematics by TLC at small widths; TLC-generated exhaustive 8-bit and boundary tables replayed on the real runtime and checker",
        "DESIGN.md §4 C05, §5"),
    chk("C06", "model_checking",
        "spec/ZyHost.tla specifies the text operations on strings as sequences of scalar values (length, byte length, append, split_at, get, split_once, eq with none-branches exactly on out-of-range positions), parse_int, char_from_codepoint (defined exactly on Unicode scalar values, encoded length by range), UTF-8 well-formedness as the standard automaton, and the handle table as a state machine (monotone handle numbers, closed stays closed with error kind Closed, permanent standard handles, NotFound through the error continuation); TLC checks the text laws and handle invariants and prints 8260 text rows, 1555 parse rows, 17 code points, 2640 byte buffers and every behaviour of 4 (thorough 5) handle operations. Each row is a caller program typed at the declared Builtin signature, analysed and run by the real tool chain (byte buffers through stdin, files in a scratch directory) with results, selected continuation, error kinds and final file contents compared. The role table dumped from the implementation (126 roles: arity, host name, round trip, ABI classifier) is validated by TLC (spec/ZyHostTable.tla: arity = number of arrows, returns/selects/runs shape, distinct host names). Every one-site textual mutation of a declared classifier in a scratch copy of lib/std (277; quick: 6 per file) must be rejected.",
        "Float roles, random_int, arg_list and the legacy stdin roles are only covered by the table validation; real process streams are replaced by in-memory streams; unwritable paths are not exercised; the native runtime is out of scope.",
        "TLA+ contract models (text, UTF-8 automaton, handle table) model checked by TLC; spec->code replay through generated caller programs; code->spec TLC validation of the dumped role table; classifier mutation",
        "DESIGN.md §4 C06"),
    chk("C07", "model_checking",
        "spec/ZyScope.tla defines the resolution function Res (occurrence -> binder) by environment threading that mirrors resolver.rs/blocks.rs (pattern-then-body, left-to-right pattern components, annotation before its binder, bindee in the outer environment, arms from the match's environment, block-wide `that` names with shadowing and duplicate detection, empty environment at import boundaries). TLC enumerates every named term over two names up to 5 tokens (293349 terms; thorough 6) and checks BoundaryHygiene and - at 4 tokens - AlphaInvariance (renaming any binder and its occurrences to a fresh name leaves Res unchanged). Every term is rendered (imports as real second files), resolved by the real pipeline and the real occurrence->binder map, read from ProgramAnalysis by source position, must equal Res; unbound-variable and duplicate-definition errors exactly as predicted. Behavioural half: every ZyCore program rendered under max-shadowing, random and lean-random naming must give the name-free prediction of the reference semantics.",
        "Two names, formers listed in the spec header; copattern clauses, alias patterns and projection patterns are not generated.",
        "TLA+ resolution function model checked by TLC (alpha-invariance, boundary hygiene); spec->code replay comparing binder maps by source position; naming-strategy replay against the reference semantics",
        "DESIGN.md §4 C07"),
    chk("C18", "model_checking",
        "Accepted executables of the ZyCore enumeration (the largest programs plus a seeded sample; quick 160, thorough 6000) and every repository source the interpreter can run (160) are lowered by the real pipeline through stack IR, closure conversion, assembly, AMD64 (ELF and Mach-O) and LLVM under catch_unwind: any internal error or panic at any stage is a violation (LlvmUnsupportedLocal is the documented 'where supported' exception and is counted). The real SpsLowProgram and AssemblyProgram arenas are exported as JSON and TLC evaluates on them the invariants of spec/ZySps.tla, written from the property and not from the repository's validators: root closed, blocks closed except for their own label, labels unique, stack lets exactly at coproduct matches, single lexical owner, no holes; every jump/branch target, `next` link and symbol defined, branch tags distinct, product layouts with arity >= elements > 0 and one field class per word. Emitted AMD64 text is scanned for duplicate labels and undefined jump/call targets.",
        "The high (pre-conversion) SPS program is not exported (only reachable through the pipeline's own check); assembly contexts (variables in scope per program point) are not re-validated; corpus exports are TLC-validated in the thorough tier only.",
        "real lowering pipeline run under catch_unwind on TLC-enumerated and repository programs; code->spec TLC validation of exported IR arenas against TLA+ well-formedness predicates",
        "DESIGN.md §4 C18"),
    chk("C19", "translation_validation",
        "For every lowered ZyCore program the REAL SpsLowProgram (public arena and root, including the 126 builtin closures) is loaded by spec/ZySps.tla and executed by TLC with the reference semantics of the first-order stack-passing language (one action per former: Jump, LetValue, ProductMatch, LetStack, LetArg, CoprodMatch by constructor index, CoCase by destructor index, OpenClosure, OpenContinuation, ExternCall in returning and control mode; environment reset at every jump); exit code, trap and output lines must equal what the real interpreter observed for the source program (which C02 compares with the CBPV reference semantics). A stuck SPS-low state is reported with its cause.",
        "Programs of the generated core language only (host roles: int64 arithmetic/comparison/to_string, string append, write_line, exit); behaviour below SPS-low (assembly, AMD64, LLVM) is not executed - nothing to assemble or link with offline.",
        "translation validation: the compiler's actual SPS-low output is executed by a TLA+ reference machine in TLC and compared with the interpreter per program",
        "DESIGN.md §4 C19"),
    chk("C20", "model_checking",
        "spec/ZyCore.tla with Root = retint enumerates every closed computation of type Ret Int64 up to 9 tokens (thorough 11) over exactly the constructs the algebra translation supports (ret, do, functions and application, thunks and force, lets, data constructors and matches, pairs); TLC checks GenSound and TypeSafety and predicts the returned value. Each body is rendered (alternating fully annotated and lean) into one scaffold twice - plain, and as an `@[monadic]` block applied to `Ret` and the identity monad instance (return = ret, bind = run then continue) - the program compares both results and exits with them: the block must be accepted whenever the plain body is, both results must equal the reference semantics' value, and the translated block must never reach a stuck state.",
        "Identity monad instance only (no second lawful instance yet); no host operations inside the block; data types are transparent global lets (a def-sealed type inside a monadic block is rejected by design: 'Cannot inline sealed abstract type').",
        "TLA+ reference semantics model checked by TLC; spec->code replay of every enumerated body, plain vs @[monadic]-at-identity in one program",
        "DESIGN.md §4 C20"),
    chk("C16", "model_checking",
        "Every command (check, run, fmt --check, build -t zir|zasm|asm|llvm) is run on every corpus file (a seeded selection of repository sources - quick 14, thorough 120 -, a program with five independent type errors, a block with 24 independent contributions in shuffled textual order) in 5 (thorough 25) fresh processes, whose SipHash keys and addresses differ by construction; the trace of (command, file, exit status, sha256 of stdout, sha256 of stderr) is validated by TLC against spec/ZyDeterminismTrace.tla (all observations of one command and file equal). The design-level half - every hash-ordered iteration that reaches an output is followed by a sort on a source-order key, so all iteration orders give one result - is ZyGraph's OrderConfluent invariant, model checked in the same command for all 512 digraphs on 3 nodes under all 6 orders.",
        "Finitely many processes per input; programs that read stdin, time or random_int are excluded by construction. The pinned tree violated the property (F7) and was repaired by a fix: commit.",
        "N fresh processes per command and file, digests validated by a TLC trace specification; TLA+ confluence check of the dependency-ordering model under nondeterministic iteration order",
        "DESIGN.md §4 C16"),
]

PENDING_REASON = "check not built yet (planned, see DESIGN.md)"
NOT_APPLICABLE = {}


def main():
    claimed = [c["property_id"] for c in CHECKS]
    na = [{"property_id": p, "reason": NOT_APPLICABLE.get(p, PENDING_REASON)} for p in ALL if p not in claimed]
    m = {"version": 1, "setup_cmd": "./check setup",
         "hooks": {"guard": "zydeco_verif",
                   "enable": "rustflags --cfg zydeco_verif in /verif/harness/.cargo/config.toml (no source hook is currently needed: all observation points are public API)",
                   "baseline_off_cmd": "cd /repo && cargo test --workspace --no-fail-fast --offline",
                   "source_commits": [], "add_only": True},
         "engines": [{"name": "tlc+zyconf", "path": "/verif/check", "serves_properties": claimed,
                      "kind_free_text": "TLA+ specifications under spec/ checked by TLC; Rust conformance harness harness/ (zyconf) replaying TLC behaviours into /repo's crates and recording traces validated by TLC; driver tools/check.py"}],
         "checks": CHECKS,
         "notes": "Properties are added as their checks pass on the unchanged tree; see DESIGN.md for per-property design, findings and seeded-change results.",
         "not_applicable": na}
    json.dump(m, open("/verif/MANIFEST.json", "w"), indent=1)
    print("claimed:", claimed)


if __name__ == "__main__":
    main()
