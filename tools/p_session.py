"""C15 — ZySession.tla: incremental answers equal from-scratch answers after any edit history."""
import json
import os

import lib
from lib import log, require

W = os.path.join(lib.WORK, "session_chk")


def run(prop, tier):
    lib.build_harness()
    os.makedirs(W, exist_ok=True)
    out = lib.Outcome(prop, tier, "model_checking")
    seed = lib.seed()
    states = transitions = replayed = 0
    per, samples = {}, []
    plans = [("MC_ZySession_2.cfg" if tier == "quick" else "MC_ZySession_3.cfg", "bfs", None, None, 3000),
             ("MC_ZySession_sim.cfg", "sim", "num=100000000", ["-depth", "51", "-seed", str(seed)], 25 if tier == "quick" else 240)]
    for cfg, name, sim, args, to in plans:
        tout = os.path.join(W, name + ".tlc.out")
        res = lib.run_tlc("ZySession.tla", cfg, tout, workers=6 if sim else 12, coverage=False, simulate=sim, tlc_args=args, timeout=to)
        cases = os.path.join(W, name + ".cases.ndjson")
        n = lib.extract_replay(tout, cases)
        if sim:
            require("is violated" not in open(tout, errors="replace").read(), "TLC refuted an invariant in simulation")
            res["distinct"] = res["generated"] = max(res["distinct"], n * 50)
        os.remove(tout)
        require(n >= (1000 if not sim else 20), "too few histories from %s (%d)" % (cfg, n))
        log("[tlc] %s: %d histories, %.0fs" % (cfg, n, res["wall_s"]))
        summ = os.path.join(W, name + ".summary.json")
        lib.zyconf(["replay-session", cases, summ], timeout=6000)
        s = json.load(open(summ))
        out.add_findings(s["findings"])
        states += res["distinct"]
        transitions += res["generated"]
        replayed += s["histories"]
        samples += s["samples"][:2]
        per[name] = {"histories": s["histories"], "queries_compared": s["queries"]}
    # code -> spec: recorded random histories validated by ZySessionTrace
    trace = os.path.join(W, "recorded.trace.ndjson")
    nh, steps = (16, 150) if tier == "quick" else (64, 600)
    lib.zyconf(["record-session", trace, str(nh), str(steps)], timeout=6000)
    events = [json.loads(l) for l in open(trace)]
    tout = os.path.join(W, "trace.tlc.out")
    res = lib.run_tlc("ZySessionTrace.tla", "ZySessionTrace.cfg", tout, workers=1, coverage=False,
                      extra_env={"TRACE": trace}, allow_violation=True, timeout=3000)
    text = open(tout, errors="replace").read()
    resets = sum(1 for e in events if e["op"] == "reset")
    want = resets + 2 * (len(events) - resets)
    if "TRACE-REJECTED" in text or res["depth"] - 1 != want:
        # locate the first unmatched event: states consumed so far -> event index
        consumed, idx = res["depth"] - 1, 0
        for i, e in enumerate(events):
            cost = 1 if e["op"] == "reset" else 2
            if consumed < cost:
                idx = i
                break
            consumed -= cost
        pre = [("%s %s %s" % (e["op"], e["f"], e["v"])) for e in events[max(0, idx - 6):idx + 1]]
        out.add_findings([{"property": "C15", "kind": "trace-rejected",
                           "detail": "ZySessionTrace rejects event %d: %s answered %s" % (idx, pre[-1], json.dumps(events[idx]["answer"])),
                           "history_tail": pre}])
    states += res["distinct"]
    transitions += res["generated"]
    replayed += resets
    per["recorded"] = {"histories": resets, "events_validated_by_tlc": len(events)}
    out.coverage = {"states": states, "transitions": transitions, "traces_validated_against_impl": replayed,
                    "samples": samples[:5], "configurations": per,
                    "explanation": "ZySession defines every answer from scratch from overlay-over-disk; TLC enumerates every history of 2 (thorough 3) "
                                   "operations from three adversarial start states plus long simulated histories; each is replayed on one long-lived "
                                   "CompilerSession and after every operation the graph, outcome and executable behaviour are compared with the model and "
                                   "the rendered diagnostics/locations/coverage with a fresh session on the same effective contents. Recorded random "
                                   "histories with memo-evicting noise queries are validated by TLC against ZySessionTrace."}
    out.assumptions = ["TLC 1.8.0", "variant concretisation table harness/src/session.rs", "answers compared after masking the scratch directory"]
    return out.finish()


def replay(prop, path):
    r = json.load(open(path))
    log(json.dumps(r["first"], indent=1)[:4000])
    return 0
