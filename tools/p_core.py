"""C01, C02, C03 — ZyCore.tla: derivation machine + typing + CK machine, replayed into the real tool chain."""
import json
import os
import subprocess
from collections import Counter

import lib
from lib import log, require

W = os.path.join(lib.WORK, "core")

PLANS = {
    # property -> tier -> list of (cfg, render modes)
    "C01": {"quick": [("wt9", "full-unique"), ("f7", "full-unique"), ("sc1", "full-unique"), ("sc2", "full-unique")],
            "thorough": [("wt10", "full-unique"), ("wt10b", "full-unique,lean-shadow"), ("f7", "full-unique"),
                         ("f7b", "full-unique")]},
    "C02": {"quick": [("wt9", "full-unique,lean-shadow"), ("sc1", "full-unique,lean-shadow"), ("sc2", "full-unique,lean-shadow"), ("sc3", "full-unique,lean-shadow"), ("sc5", "full-unique,lean-shadow")],
            "thorough": [("wt10", "full-unique,lean-shadow,full-random"), ("wt10b", "full-unique,lean-random"),
                         ("wt9v", "full-unique,lean-shadow"), ("sc1", "full-unique,lean-random"), ("sc2", "full-unique,lean-random"), ("sc3", "full-unique,lean-random,lean-shadow"), ("sc5", "full-unique,lean-random,lean-shadow")]},
    "C03": {"quick": [("f7", "full-unique"), ("wt9", "lean-shadow"), ("sc4", "full-unique,lean-unique"), ("fs", "full-unique,lean-unique,lean-random")],
            "thorough": [("f7", "full-unique"), ("f7b", "full-unique"), ("wt10", "lean-unique,full-shadow"),
                         ("wt10b", "lean-shadow"), ("sc4", "full-unique,lean-unique,lean-shadow"), ("fs", "full-unique,lean-unique,lean-random")]},
}

EXPECTED_TOKENS = {"var", "int", "unit", "str", "thunk", "ret", "lam", "force", "exit", "ctor", "dtor", "fix", "i2s",
                   "do", "app", "let", "arith", "pair", "matchP", "wl", "sapp", "br", "match", "comatch"}


def expected_tokens(cfg):
    """Vacuity guard: the token kinds a configuration must reach within its bound."""
    if cfg == "fs":
        return {"lam", "thunk", "let", "exit"}
    if cfg.startswith("sc"):
        if cfg == "sc4":
            return {"match", "thunk", "force", "do", "exit", "ctor"}
        if cfg == "sc3":
            return {"comatch", "dtor", "lam", "app", "arith", "exit"}
        if cfg == "sc5":
            return {"fix", "comatch", "dtor", "lam", "app", "match", "ctor", "force", "exit"}
        return {"vlam", "vapp", "matchP", "pair", "let"} if cfg == "sc1" else {"thunk", "lam", "do", "force", "matchP", "app"}
    if cfg.endswith("v"):
        return {"vlam", "vapp", "let", "exit"}
    exp = set(EXPECTED_TOKENS)
    if not cfg.endswith("b"):          # bind types without String / P
        exp -= {"str", "i2s", "sapp", "wl"}
    n = int("".join(ch for ch in cfg if ch.isdigit()))
    if not cfg.endswith("b") and n < 10:
        exp -= {"comatch"}
    if cfg.startswith("f") and n < 8:
        exp -= {"comatch", "br", "sapp", "matchP"} if n < 7 else set()
    return exp


def tlc_cases(cfg, workers=12):
    os.makedirs(W, exist_ok=True)
    out = os.path.join(W, cfg + ".tlc.out")
    res = lib.run_tlc("ZyCore.tla", "MC_ZyCore_%s.cfg" % cfg, out, workers=workers, coverage=False, timeout=3000)
    cases = os.path.join(W, cfg + ".cases.ndjson")
    n = lib.extract_replay(out, cases)
    os.remove(out)
    require(n > 0, "no REPLAY case from %s" % cfg)
    res["cases"] = n
    log("[tlc] %s: %d states, %d complete behaviours, %.0fs" % (cfg, res["distinct"], n, res["wall_s"]))
    return res, cases


def token_histogram(cases):
    kinds, faults = Counter(), Counter()
    for line in open(cases):
        c = json.loads(line)
        faults[c["faulty"]] += 1
        for t in c["prog"]:
            kinds[t["k"]] += 1
    return kinds, faults


def corpus(out, tier):
    """Repository sources and checker-accepted mutants, validated by ZyRunTrace.tla."""
    raw = os.path.join(W, "corpus.ndjson")
    mutants = 2 if tier == "quick" else 20
    lib.zyconf(["corpus-run", raw, str(mutants), "300000"], timeout=3000)
    trace = os.path.join(W, "corpus.trace.ndjson")
    events = [json.loads(l) for l in open(raw)]
    with open(trace, "w") as f:
        for e in events:
            end = e.get("end") or {"class": "None"}
            f.write(json.dumps({"accepted": e["accepted"], "executable": e.get("executable", False),
                                "end": {"class": end["class"], "pclass": end.get("pclass", "none")}}) + "\n")
    tout = os.path.join(W, "corpus.trace.tlc.out")
    res = lib.run_tlc("ZyRunTrace.tla", "ZyRunTrace.cfg", tout, workers=1, coverage=False,
                      extra_env={"TRACE": trace}, allow_violation=True)
    text = open(tout, errors="replace").read()
    runs = [e for e in events if e["accepted"] and e.get("executable")]
    require(len(runs) >= 50, "corpus produced only %d runs" % len(runs))
    rejected_at = None
    if "TRACE-REJECTED-AT" in text or res["distinct"] - 1 != len(events):
        rejected_at = res["distinct"]  # 1-based index of the first unmatched event
    findings = []
    # the spec says where the first rejection is; the harness then lists every offending event so that
    # known findings can be told from new ones (the spec's predicate, re-evaluated per event)
    for e in runs:
        end = e["end"]
        if end["class"] == "Panic" and end.get("pclass") == "Stuck":
            findings.append({"property": "C01", "kind": "stuck-corpus",
                             "detail": "%s @ %s [%s]" % (end["panic"]["message"], end["panic"]["file"], os.path.basename(e["file"]) if e["variant"] == "original" else "mutant of " + os.path.basename(e["file"])),
                             "file": e["file"], "variant": e["variant"], "stdin": e.get("stdin"),
                             "source": e.get("mutant_source")})
    require((rejected_at is not None) == bool(findings),
            "trace spec and harness disagree about the corpus trace (rejected_at=%s, findings=%d)" % (rejected_at, len(findings)))
    stats = Counter((e["variant"], e["end"]["class"]) for e in runs)
    return findings, {"corpus_events": len(events), "corpus_runs": len(runs),
                      "corpus_run_classes": {"%s/%s" % k: v for k, v in sorted(stats.items())},
                      "corpus_trace_states": res["distinct"]}


def cli_subsample(cases, out, count):
    """Bind the CLI path: `zydeco run FILE` stdout and exit status equal the prediction."""
    lib.build_repo_bins()
    d = os.path.join(W, "cli")
    os.makedirs(d, exist_ok=True)
    lines = [l for l in open(cases)]
    picked = [l for i, l in enumerate(lines) if json.loads(l)["res"].get("end") in ("exit",)]
    step = max(1, len(picked) // count)
    picked = picked[lib.seed() % step::step][:count]
    sel = os.path.join(d, "sel.ndjson")
    open(sel, "w").writelines(picked)
    lib.zyconf(["render-core", sel, d, "full-unique"])
    findings, n = [], 0
    for i, l in enumerate(picked):
        c = json.loads(l)
        path = os.path.join(d, "p%d.zy" % i)
        p = subprocess.run([lib.ZYDECO, "run", path], stdin=subprocess.DEVNULL, capture_output=True, text=True, timeout=120)
        want_out = "".join(s + "\n" for s in c["io"])
        want_code = c["res"]["code"] % 256
        n += 1
        if p.returncode != want_code or p.stdout != want_out:
            findings.append({"property": "C02", "kind": "cli-behaviour",
                             "detail": "zydeco run: predicted exit=%d out=%r, observed exit=%d out=%r" %
                                       (want_code, want_out, p.returncode, p.stdout),
                             "case": c, "source": open(path).read()})
    return findings, n


def run(prop, tier):
    lib.build_harness()
    out = lib.Outcome(prop, tier, "model_checking")
    states = transitions = replayed = 0
    samples, per_cfg = [], {}
    all_kinds, all_faults = Counter(), Counter()
    for cfg, modes in PLANS[prop][tier]:
        res, cases = tlc_cases(cfg)
        states += res["distinct"]
        transitions += res["generated"]
        kinds, faults = token_histogram(cases)
        missing = expected_tokens(cfg) - set(kinds)
        require(not missing, "%s: productions never used by any generated program: %s" % (cfg, sorted(missing)))
        all_kinds.update(kinds)
        all_faults.update(faults)
        summ = os.path.join(W, "%s.%s.summary.json" % (cfg, prop))
        # sc4: a three-arm match in synthesis position; arm disagreement stays a definite error without annotations
        lib.zyconf(["replay-core", cases, summ, modes], timeout=6000, env={"ZYCORE_LEAN_FAULTS": "T-Arm,K-Sort-Arm"} if cfg == "sc4" else ({"ZYCORE_LEAN_FAULTS": "K-Sort-Binder"} if cfg == "fs" else None))
        s = json.load(open(summ))
        replayed += s["renders"]
        out.add_findings(s["findings"])
        samples += s["samples"][:3]
        per_cfg[cfg] = {"tlc_states": res["distinct"], "behaviours": res["cases"], "renders": s["renders"],
                        "accepted": s["accepted"], "rejected": s["rejected"], "ends": s["ends"],
                        "by_fault": s["by_fault"], "reject_kinds": s["reject_kinds"], "modes": modes}
        if cfg.startswith("f"):
            require(s["rejected"] > 0 and s["accepted"] > 0, "fault configuration %s exercised one verdict only" % cfg)
        if prop == "C02" and cfg == PLANS[prop][tier][0][0]:
            f, n = cli_subsample(cases, out, 24 if tier == "quick" else 200)
            out.add_findings(f)
            per_cfg[cfg]["cli_runs"] = n
    extra = {}
    if prop in ("C03", "C01"):
        # the existential layer: spec/ZyExists.tla (escape and representation-independence rules), every program replayed
        cfg = "MC_ZyExists_2.cfg" if tier == "quick" else "MC_ZyExists_3.cfg"
        tout = os.path.join(W, "exists.out")
        res = lib.run_tlc("ZyExists.tla", cfg, tout, workers=4, coverage=False, timeout=3000)
        ecases = os.path.join(W, "exists.cases.ndjson")
        n = lib.extract_replay(tout, ecases)
        os.remove(tout)
        require(n >= 400, "too few existential programs: %d" % n)
        esum = os.path.join(W, "exists.%s.summary.json" % prop)
        lib.zyconf(["replay-exists", ecases, esum], timeout=3000)
        es = json.load(open(esum))
        require(all(es["classes"].get(k, 0) > 0 for k in ("accepted-and-run", "rejected-escape", "rejected-mismatch")), "existential replay exercised too few outcomes: %s" % es["classes"])
        for f in es["findings"]:
            # an accepted program that goes wrong at run time is C01's business, a wrong verdict C03's
            f = dict(f)
            f["property"] = f["property"] if f.get("property") == "C01" and f["kind"] == "stuck-after-escape" else ("C01" if f["kind"] == "existential-program-behaviour" else "C03")
            out.add_findings([f])
        states += res["distinct"]
        transitions += res["generated"]
        replayed += es["cases"]
        per_cfg[cfg] = {"programs": es["cases"], "classes": es["classes"]}
        samples += [{"family": "existential", "source": x} for x in es["samples"][:1]]
    if prop in ("C03", "C01"):
        # the F-omega layer: spec/ZyPoly.tla (kinding, instantiation, normalisation, seals, alpha-correspondence)
        cfg = "MC_ZyPoly_small.cfg" if tier == "quick" else "MC_ZyPoly_large.cfg"
        tout = os.path.join(W, "poly.out")
        res = lib.run_tlc("ZyPoly.tla", cfg, tout, workers=4, coverage=False, timeout=3000)
        pcases = os.path.join(W, "poly.cases.ndjson")
        n = lib.extract_replay(tout, pcases)
        os.remove(tout)
        require(n >= 5000, "too few polymorphic programs: %d" % n)
        psum = os.path.join(W, "poly.%s.summary.json" % prop)
        lib.zyconf(["replay-poly", pcases, psum], timeout=6000)
        ps = json.load(open(psum))
        require(all(ps["classes"].get(k, 0) > 0 for k in ("accepted-and-run", "model-kind-checker-kind", "model-mismatch-checker-mismatch", "model-unbound-resolver-unbound")),
                "polymorphism replay exercised too few outcomes: %s" % ps["classes"])
        for f in ps["findings"]:
            if f.get("property") == prop:
                out.add_findings([f])
        states += res["distinct"]
        transitions += res["generated"]
        replayed += ps["cases"]
        per_cfg[cfg] = {"programs": ps["cases"], "classes": ps["classes"]}
        samples += [{"family": "polymorphism", "source": x} for x in ps["samples"][1:2]]
    if prop == "C01":
        f, extra = corpus(out, tier)
        out.add_findings(f)
    out.coverage = {"states": states, "transitions": transitions, "traces_validated_against_impl": replayed,
                    "samples": samples[:6], "exhaustive": True, "configurations": per_cfg,
                    "token_histogram": dict(all_kinds), "fault_families": dict(all_faults),
                    "explanation": "TLC enumerates every program of the configured token bound (derivation machine), checks "
                                   "GenSound and TypeSafety on every state, and prints one REPLAY record per complete behaviour; "
                                   "each record is rendered, analysed and run by the real tool chain and compared."}
    out.coverage.update(extra)
    out.assumptions = ["TLC 1.8.0", "the renderer harness/src/core.rs (term -> concrete syntax)",
                       "panic classification table in harness/src/common.rs"]
    return out.finish()


def replay(prop, path):
    """Re-run the first case of a replay file and show prediction vs observation."""
    lib.build_harness()
    r = json.load(open(path))
    case = r["first"].get("case")
    if not case:
        log(json.dumps(r["first"], indent=1))
        return 0
    os.makedirs(W, exist_ok=True)
    cases = os.path.join(W, "replay.cases.ndjson")
    open(cases, "w").write(json.dumps(case) + "\n")
    summ = os.path.join(W, "replay.summary.json")
    lib.zyconf(["replay-core", cases, summ, "full-unique,lean-shadow"])
    s = json.load(open(summ))
    fs = [f for f in s["findings"] if f["property"] == prop]
    for f in fs:
        log("%s %s: %s\n%s" % (f["property"], f["kind"], f["detail"], f["source"]))
    return 1 if fs else 0
