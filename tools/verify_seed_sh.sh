#!/bin/sh
# usage: verify_seed_sh.sh SEEDDIR PKGS...   (demo.sh honours $WT; exit 0 = property holds, 1 = violated)
SEED=$1; shift
WT=/tmp/wt_verify
LOG=/verif/work/seedverify/$(basename $SEED)
mkdir -p $LOG
[ -d $WT ] || git -C /repo worktree add -q --detach $WT HEAD
cd $WT && git checkout -q -- . && git clean -fdq -e target
cargo build --offline -j 12 --bin zydeco > /dev/null 2>&1
WT=$WT sh $SEED/demo.sh > $LOG/original.log 2>&1; echo "exit=$?" >> $LOG/original.log
git apply $SEED/patch.diff || { echo "PATCH DOES NOT APPLY" > $LOG/with_change.log; exit 1; }
cargo build --offline -j 12 --bin zydeco > $LOG/build_with_change.log 2>&1 || echo "DOES NOT COMPILE" >> $LOG/build_with_change.log
WT=$WT sh $SEED/demo.sh > $LOG/with_change.log 2>&1; echo "exit=$?" >> $LOG/with_change.log
ARGS=""; for p in "$@"; do ARGS="$ARGS -p $p"; done
cargo test --offline -j 12 --no-fail-fast $ARGS 2>&1 | grep -E "^test .*FAILED|test result" > $LOG/suite_with_change.log
git checkout -q -- . && git clean -fdq -e target
echo verified > $LOG/done
