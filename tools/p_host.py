"""C06 — ZyHost.tla / ZyHostTable.tla: host operations honour their declared type and contract."""
import json
import os

import lib
from lib import log, require

W = os.path.join(lib.WORK, "host")


def run(prop, tier):
    lib.build_harness()
    os.makedirs(W, exist_ok=True)
    out = lib.Outcome(prop, tier, "model_checking")
    states = transitions = 0
    per = {}
    allcases = os.path.join(W, "all.cases.ndjson")
    parts = ["text", "parse", "codepoint", "utf8", "handles" if tier == "quick" else "handles_t"]
    with open(allcases, "w") as dest:
        for p in parts:
            tout = os.path.join(W, p + ".tlc.out")
            res = lib.run_tlc("ZyHost.tla", "MC_ZyHost_%s.cfg" % p, tout, workers=12, coverage=False, timeout=3000)
            cases = os.path.join(W, p + ".cases.ndjson")
            n = lib.extract_replay(tout, cases)
            os.remove(tout)
            require(n >= 15, "part %s produced only %d rows" % (p, n))
            dest.write(open(cases).read())
            states += res["distinct"]
            transitions += res["generated"]
            per[p] = {"tlc_states": res["distinct"], "rows": n}
            log("[tlc] %s: %d states, %d rows" % (p, res["distinct"], n))
    summ = os.path.join(W, "host.summary.json")
    lib.zyconf(["replay-host", allcases, summ], timeout=6000)
    s = json.load(open(summ))
    out.add_findings(s["findings"])
    # role table dumped from the implementation, validated by TLC
    table = os.path.join(W, "roles.ndjson")
    lib.zyconf(["role-table", table])
    roles = [json.loads(l) for l in open(table)]
    require(len(roles) >= 100, "role table has only %d roles" % len(roles))
    tout = os.path.join(W, "table.tlc.out")
    res = lib.run_tlc("ZyHostTable.tla", "ZyHostTable.cfg", tout, workers=1, coverage=False, extra_env={"TRACE": table},
                      allow_violation=True)
    if res["violated"] or res["depth"] - 1 != len(roles):
        bad = roles[min(res["depth"] - 1, len(roles) - 1)]
        out.add_findings([{"property": "C06", "kind": "role-table-ill-formed",
                           "detail": "ZyHostTable rejects role %s (arity %s, classifier %s)" % (bad["role"], bad["arity"], json.dumps(bad["cls"])[:300])}])
    states += res["distinct"]
    transitions += res["generated"]
    # one-site mutations of the declared classifiers
    msum = os.path.join(W, "mutants.summary.json")
    lib.zyconf(["classifier-mutants", msum, "6" if tier == "quick" else "0"], timeout=3000)
    m = json.load(open(msum))
    out.add_findings(m["findings"])
    effective = sum(v for k, v in m["rejection_reasons"].items() if "Builtin signature" in k)
    require(effective >= 40, "only %d mutants reached signature validation" % effective)
    out.coverage = {"states": states, "transitions": transitions,
                    "traces_validated_against_impl": s["rows"] + len(roles) + m["mutants"],
                    "samples": s["samples"], "parts": per, "text_rows": s["text_rows"], "byte_buffers": s["byte_rows"],
                    "handle_behaviours": s["handle_behaviours"], "roles_validated_by_tlc": len(roles),
                    "classifier_mutants": m["mutants"], "mutants_rejected_by_signature_validation": effective,
                    "explanation": "text operations over all strings of <= 3 scalars from a 6-letter alphabet spanning the 1-4 byte classes with boundary indices; "
                                   "parse_int over all strings of <= 4 symbols; from_codepoint at range boundaries; bytes_to_str against the UTF-8 automaton on "
                                   "2640 byte buffers fed through stdin; every behaviour of <= 4 handle operations on two paths; each row is a caller program "
                                   "typed at the declared signature through the real front end. The dumped role table (126 roles) is validated by TLC; every "
                                   "one-site mutation of a declared classifier in a scratch copy of lib/std must be rejected."}
    out.assumptions = ["TLC 1.8.0", "renderer harness/src/host.rs", "in-memory stdin/stdout instead of the process streams; the native runtime is out of scope"]
    return out.finish()


def replay(prop, path):
    r = json.load(open(path))
    log(json.dumps(r["first"], indent=1)[:4000])
    return 0
