"""C04 — ZyCoverage.tla / ZyCoMatch.tla: exhaustiveness is sound and complete."""
import json
import os

import lib
from lib import log, require

W = os.path.join(lib.WORK, "cov")


def gen(cfg, name, simulate=None, timeout=3000, workers=12):
    os.makedirs(W, exist_ok=True)
    out = os.path.join(W, name + ".tlc.out")
    res = lib.run_tlc("ZyCoverage.tla", cfg, out, workers=workers, coverage=False, simulate=simulate, timeout=timeout)
    cases = os.path.join(W, name + ".cases.ndjson")
    n = lib.extract_replay(out, cases)
    if simulate:
        # simulation revisits matrices: keep distinct ones
        seen, keep = set(), []
        for l in open(cases):
            c = json.loads(l)
            key = json.dumps([c["ty"], c["rows"]], sort_keys=True)
            if key not in seen:
                seen.add(key)
                keep.append(l)
        open(cases, "w").writelines(keep)
        n = len(keep)
        text = open(out, errors="replace").read()
        require("is violated" not in text and "Error:" not in text, "TLC reported an error in simulation %s" % cfg)
    os.remove(out)
    require(n > 0, "no case from %s" % cfg)
    res["cases"] = n
    log("[tlc] %s: %d states, %d matrices, %.0fs" % (cfg, res["distinct"], n, res["wall_s"]))
    return res, cases


def validate_trace(trace, n_records):
    tout = os.path.join(W, "trace.tlc.out")
    res = lib.run_tlc("ZyCoverageTrace.tla", "ZyCoverageTrace.cfg", tout, workers=1, coverage=False,
                      extra_env={"TRACE": trace}, allow_violation=True, timeout=3000)
    text = open(tout, errors="replace").read()
    if "TRACE-REJECTED-AT" in text or res["depth"] - 1 != n_records:
        return res["depth"]  # index (1-based) of the first record the specification does not accept
    return None


def run(prop, tier):
    lib.build_harness()
    out = lib.Outcome(prop, tier, "model_checking")
    # "wide": every set of patterns over a data type with 11 constructors (more than the 9 missing patterns ever reported)
    plans = [("MC_ZyCoverage_q.cfg", "q", None), ("MC_ZyCoverage_wide.cfg", "wide", None)]
    seed = lib.seed()
    simargs = ["num=1000000", "-depth", "5", "-seed", str(seed)]
    if tier == "quick":
        plans.append(("MC_ZyCoverage_sim.cfg", "sim", simargs))
    else:
        plans += [("MC_ZyCoverage_widein.cfg", "widein", None), ("MC_ZyCoverage_t4.cfg", "t4", None), ("MC_ZyCoverage_q2.cfg", "q2", None),
                  ("MC_ZyCoverage_sim.cfg", "sim", simargs)]
    states = transitions = replayed = 0
    samples, per = [], {}
    for cfg, name, sim in plans:
        if sim:
            res, cases = gen_sim(cfg, name, sim, 45 if tier == "quick" else 600)
        else:
            res, cases = gen(cfg, name)
        states += res["distinct"]
        transitions += res["generated"]
        summ = os.path.join(W, name + ".summary.json")
        trace = os.path.join(W, name + ".trace.ndjson")
        lib.zyconf(["replay-coverage", cases, summ, trace], timeout=3000)
        s = json.load(open(summ))
        out.add_findings(s["findings"])
        replayed += s["cases"]
        samples += s["samples"][:2]
        require(s["accepted"] > 0 and s["rejected"] > 0, "%s exercised one verdict only" % cfg)
        bad = validate_trace(trace, s["cases"])
        if bad is not None:
            rec = [json.loads(l) for l in open(trace)][bad - 1]
            out.add_findings([{"property": "C04", "kind": "trace-rejected",
                               "detail": "ZyCoverageTrace rejects record %d: ty=%s accepted=%s reported=%s" %
                                         (bad, rec["ty"], rec["accepted"], json.dumps(rec["reported"])),
                               "case": rec}])
        per[name] = {"tlc_states": res["distinct"], "matrices": s["cases"], "accepted": s["accepted"],
                     "rejected": s["rejected"], "witnesses_validated_by_tlc": s["witnesses"]}
    # comatch
    cout = os.path.join(W, "comatch.tlc.out")
    res = lib.run_tlc("ZyCoMatch.tla", "MC_ZyCoMatch.cfg" if tier == "quick" else "MC_ZyCoMatch_t.cfg", cout, workers=4, coverage=False)
    ccases = os.path.join(W, "comatch.cases.ndjson")
    n = lib.extract_replay(cout, ccases)
    os.remove(cout)
    require(n > 100, "too few comatch cases")
    csum = os.path.join(W, "comatch.summary.json")
    lib.zyconf(["replay-comatch", ccases, csum])
    s = json.load(open(csum))
    out.add_findings(s["findings"])
    states += res["distinct"]
    transitions += res["generated"]
    replayed += n
    per["comatch"] = {"tlc_states": res["distinct"], "arm_lists": n}
    out.coverage = {"states": states, "transitions": transitions, "traces_validated_against_impl": replayed,
                    "samples": samples[:6], "configurations": per,
                    "explanation": "every pattern matrix within the bound: TLC proves transcription == brute force (Agree, "
                                   "WitnessSound, WitnessComplete, ArmAlwaysFound, RowOrderIrrelevant) and predicts verdict and "
                                   "first matching row per value; the real checker's verdict, the arm the interpreter takes for every "
                                   "value, and (validated by TLC, ZyCoverageTrace) the reported witnesses are compared."}
    out.assumptions = ["TLC 1.8.0", "the renderer harness/src/coverage.rs", "brute-force Values(T) of the model's type algebra"]
    return out.finish()


def gen_sim(cfg, name, parts, timeout):
    os.makedirs(W, exist_ok=True)
    out = os.path.join(W, name + ".tlc.out")
    sim = parts[0]
    res = lib.run_tlc("ZyCoverage.tla", cfg, out, workers=8, coverage=False, simulate=sim, timeout=timeout,
                      tlc_args=parts[1:])
    cases = os.path.join(W, name + ".cases.ndjson")
    lib.extract_replay(out, cases)
    seen, keep = set(), []
    for l in open(cases):
        c = json.loads(l)
        key = json.dumps([c["ty"], c["rows"]], sort_keys=True)
        if key not in seen:
            seen.add(key)
            keep.append(l)
    open(cases, "w").writelines(keep)
    text = open(out, errors="replace").read()
    require("is violated" not in text, "TLC refuted an invariant in simulation %s" % cfg)
    os.remove(out)
    require(len(keep) > 50, "simulation %s produced only %d matrices" % (cfg, len(keep)))
    res["cases"] = len(keep)
    res["distinct"] = max(res["distinct"], len(keep))
    res["generated"] = max(res["generated"], len(keep))
    log("[tlc] %s (simulation): %d distinct matrices, %.0fs" % (cfg, len(keep), res["wall_s"]))
    return res, cases


def replay(prop, path):
    lib.build_harness()
    r = json.load(open(path))
    log(json.dumps(r["first"], indent=1)[:4000])
    return 0
