"""C12, C13, C14 — ZyFormat.tla / ZyFmtCli.tla / ZyFormatTrace.tla: the formatter.

One shared replay serves the three properties; each check reports the findings of its own property."""
import json
import os
import shutil
import subprocess

import lib
from lib import log, require

W = os.path.join(lib.WORK, "format")

CANON = ["ret x\n", "let x = 1 in\nret x\n", "-- c\nret x\n", "fn y => ret y\n"]
# source -> what `fmt` must leave on disk
NONCANON = [("ret   x\n", "ret x\n"), ("(ret x)\n", "ret x\n"), ("ret x\n\n\n", "ret x\n"), ("ret x", "ret x\n"), ("fn   y =>   ret y\n", "fn y => ret y\n")]
BAD = [b"ret (\n", b"ret () -/ junk\n", b"/- open\nret x\n", b"\xff\xfe ret x\n", b"let x = in\n", b"ret x )\n"]


def tlc(module, cfg, out, **kw):
    return lib.run_tlc(module, cfg, os.path.join(W, out), coverage=False, timeout=kw.pop("timeout", 3000), **kw)


def cli_replay(tier, trace_out):
    """spec -> code: every behaviour of ZyFmtCli on the real binary with real files."""
    cfg = "MC_ZyFmtCli_2.cfg" if tier == "quick" else "MC_ZyFmtCli_3.cfg"
    tout = os.path.join(W, "cli.out")
    res = lib.run_tlc("ZyFmtCli.tla", cfg, tout, workers=4, coverage=False, timeout=3000)
    cases = os.path.join(W, "cli.cases.ndjson")
    n = lib.extract_replay(tout, cases)
    os.remove(tout)
    require(n >= 900, "too few CLI behaviours: %d" % n)
    root = os.path.join(W, "cli")
    shutil.rmtree(root, ignore_errors=True)
    os.makedirs(root)
    findings, records, commands = [], [], 0
    for bi, line in enumerate(open(cases)):
        b = json.loads(line)
        if tier != "quick" and bi % 7 not in (0, 3):
            continue  # 19 683 behaviours of three commands: a 2/7 sample keeps the process count near 17 000
        d = os.path.join(root, "b%d" % bi)
        os.makedirs(d)
        want, orig = {}, {}
        for k, f in enumerate(("a", "b")):
            c = b["start"][f]
            if c == "canon":
                data = CANON[(bi + k) % len(CANON)].encode()
                want[f] = data
            elif c == "noncanon":
                src, dst = NONCANON[(bi + 2 * k) % len(NONCANON)]
                data, want[f] = src.encode(), dst.encode()
            else:
                data = BAD[(bi + 3 * k) % len(BAD)]
                want[f] = data
            orig[f] = data
            open(os.path.join(d, f + ".zy"), "wb").write(data)
        cur = dict(b["start"])
        for step in b["hist"]:
            argv = [lib.ZYDECO, "fmt"] + (["--check"] if step["op"] == "check" else []) + [f + ".zy" for f in step["args"]]
            p = subprocess.run(argv, cwd=d, stdin=subprocess.DEVNULL, capture_output=True, timeout=60)
            commands += 1
            exit_class = "ok" if p.returncode == 0 else ("error" if p.returncode == 1 and p.stderr.strip() else ("changed" if p.returncode == 1 else "abnormal(%d)" % p.returncode))
            listed = [l.strip()[:-3] for l in p.stdout.decode(errors="replace").splitlines() if l.strip()]
            cur = step["after"]
            bytes_ok = True
            for f in ("a", "b"):
                have = open(os.path.join(d, f + ".zy"), "rb").read()
                expect = want[f] if (cur[f] == "canon") else orig[f]
                if have != expect:
                    bytes_ok = False
                    findings.append({"property": "C12" if b["start"][f] == "bad" else "C14", "kind": "cli-file-bytes",
                                     "detail": "after `%s` file %s (%s at start, %s expected now) holds %r, expected %r" % (" ".join(argv[1:]), f, b["start"][f], cur[f], have[:80], expect[:80]),
                                     "input": json.dumps(b)})
            rec = {"ev": "cli", "id": bi, "exit": exit_class, "wantExit": step["exit"], "listed": listed, "wantListed": step["listed"],
                   "bytes": "ok" if bytes_ok else "diff", "wantBytes": "ok"}
            records.append(rec)
            if exit_class != step["exit"] or listed != step["listed"]:
                findings.append({"property": "C14" if "error" not in (exit_class, step["exit"]) else "C12", "kind": "cli-exit-or-listing",
                                 "detail": "`%s` from %s: exit %s listed %s, the file state machine says exit %s listed %s; stderr %r" % (
                                     " ".join(argv[1:]), b["start"], exit_class, listed, step["exit"], step["listed"], p.stderr[:160]),
                                 "input": json.dumps(b)})
        shutil.rmtree(d, ignore_errors=True)
    with open(trace_out, "a") as out:
        for r in records:
            out.write(json.dumps(r) + "\n")
    return res, findings, commands, len(records)


def run(prop, tier):
    lib.build_harness()
    lib.build_repo_bins()
    os.makedirs(W, exist_ok=True)
    out = lib.Outcome(prop, tier, "model_checking")
    states = transitions = 0
    # 1. the model by itself: the printer's elision table against the grammar's, the anchoring laws; the two
    #    clauses the design does NOT satisfy must be refuted (they document findings F6 and F20)
    r = tlc("ZyFormat.tla", "MC_ZyFormat_table.cfg", "table.out", workers=4)
    states += r["distinct"]; transitions += r["generated"]
    for cfg, what in (("MC_ZyFormat_sameside.cfg", "SameSide"), ("MC_ZyFormat_settles.cfg", "Settles")):
        r = tlc("ZyFormat.tla", cfg, cfg + ".out", workers=4, allow_violation=True)
        require(r["violated"] is not None, "%s is expected to be refuted on the anchoring design and was not" % what)
    # 2. spec -> code: every tree, three spellings, every option; a comment in every gap
    # quick: depth <= 2 with every pattern spelling at the root binder; thorough: that, plus depth <= 3 (root binder `x`)
    cases = os.path.join(W, "trees.cases.ndjson")
    n = 0
    with open(cases, "w") as dest:
        for cfg in (["MC_ZyFormat_d2.cfg"] if tier == "quick" else ["MC_ZyFormat_d2.cfg", "MC_ZyFormat_d3.cfg"]):
            tout = os.path.join(W, "trees.out")
            r = lib.run_tlc("ZyFormat.tla", cfg, tout, workers=12, coverage=False, timeout=6000, xmx="16g")
            states += r["distinct"]; transitions += r["generated"]
            part = os.path.join(W, "trees.part.ndjson")
            k = lib.extract_replay(tout, part)
            os.remove(tout)
            log("[tlc] %s: %d trees" % (cfg, k))
            for l in open(part):
                if cfg.endswith("d3.cfg") and json.loads(l)["d"] < 3:
                    continue        # already in the depth-2 set
                dest.write(l)
                n += 1
            os.remove(part)
    require(n >= 40000, "too few trees: %d" % n)
    ttrace, tsum = os.path.join(W, "trees.trace.ndjson"), os.path.join(W, "trees.summary.json")
    lib.zyconf(["replay-format", cases, ttrace, tsum, tier], timeout=40000)
    ts = json.load(open(tsum))
    # 3. the repository corpus under every option, other starting layouts, directives, random edits
    ctrace, csum = os.path.join(W, "corpus.trace.ndjson"), os.path.join(W, "corpus.summary.json")
    lib.zyconf(["corpus-format", ctrace, csum, tier, "3" if tier == "quick" else "25"], timeout=40000)
    cs = json.load(open(csum))
    require(ts["runs"] > 100000 and cs["runs"] > 5000, "too few formatting runs: %d, %d" % (ts["runs"], cs["runs"]))
    require(ts["sums"].get("placements", 0) > 10000, "too few comment placements")
    # the anchoring model is exact on the unchanged tree.  A placement it does not predict is a C13 finding when the comment
    # crossed an element (reported below as comment-moved-unmodelled / -backwards); mispredictions across separators only
    # break no clause of the property and mean the model needs attention: tool error, not an alarm
    imprecise = ts["sums"].get("modelImprecise", 0)
    unmodelled = sum(1 for f in ts["findings"] if f.get("kind") in ("comment-moved-unmodelled", "comment-moved-backwards"))
    require(imprecise == 0 or unmodelled > 0, "the anchoring model no longer predicts where comments are re-emitted (%d placements, none across an element)" % imprecise)
    # 4. the file-level state machine on the real binary
    trace = os.path.join(W, "trace.ndjson")
    with open(trace, "w") as dest:
        for t in (ttrace, ctrace):
            shutil.copyfileobj(open(t), dest)
    r, cli_findings, commands, cli_records = cli_replay(tier, trace)
    states += r["distinct"]; transitions += r["generated"]
    findings = ts["findings"] + cs["findings"] + cli_findings
    out.add_findings(findings)
    # 5. code -> spec: the acceptor walks the whole trace
    tout = os.path.join(W, "trace.tlc.out")
    r = lib.run_tlc("ZyFormatTrace.tla", "ZyFormatTrace.cfg", tout, workers=1, coverage=False, extra_env={"TRACE": trace},
                    allow_violation=True, timeout=6000, xmx="16g")
    nrec = sum(1 for _ in open(trace))
    require(r["violated"] is None and r["depth"] - 1 == nrec, "the trace acceptor did not consume the trace (%s of %d records)" % (r["depth"], nrec))
    import re
    m = re.search(r'"TRACE-BAD", <<(\d+), (\d+), (\d+)>>', open(tout).read())
    require(m is not None, "no TRACE-BAD line from the acceptor")
    bad = dict(zip(("C12", "C13", "C14"), map(int, m.groups())))
    os.remove(tout)
    mine = sum(1 for f in findings if f.get("property") == prop)
    require((bad[prop] > 0) == (mine > 0), "acceptor and harness disagree on %s: %d bad records vs %d findings" % (prop, bad[prop], mine))
    states += r["distinct"]; transitions += r["generated"]
    samples = []
    for k, l in enumerate(open(cases)):
        if k % 997 == 5 and len(samples) < 8:
            c = json.loads(l)
            samples.append({"family": "tree", "full": " ".join(c["toks"]), "minimal": " ".join(t for t, p in zip(c["toks"], c["pars"]) if p != "red"),
                            "comment_gap_prediction": c["predMin"]})
    samples.append({"family": "cli", "behaviour": json.loads(open(os.path.join(W, "cli.cases.ndjson")).readline())})
    samples.append({"family": "corpus", "files": cs["files"], "variants": ["as written", "hspace", "flat", "broken", "own output at another width", "directives", "random edits"]})
    out.coverage = {"states": states, "transitions": transitions, "traces_validated_against_impl": nrec,
                    "trees": ts["trees"], "formatting_runs": ts["runs"] + cs["runs"], "comment_placements": ts["sums"].get("placements", 0),
                    "comment_moves_predicted_by_the_model": ts["sums"].get("movedAsModelled", 0), "corpus_files": cs["files"],
                    "options": ts["options"], "cli_commands": commands, "records_breaking_a_relation": bad,
                    "samples": samples,
                    "explanation": "TLC: the printer's elision table equals the grammar's on every (requirement, former); the anchoring laws hold and the two clauses the design "
                                   "breaks (SameSide, Settles) are refuted; every tree of depth <= 2 (thorough 3) over 35 term formers is printed in three spellings (all pairs, the "
                                   "pairs the model calls needed, none) and replayed: the real parser must read minimal = full and bare = full exactly when the model says no pair is "
                                   "needed; the real printer, under every option combination, must not panic or hang, must print text that parses to the same desugared structure, "
                                   "keeps comments and tokens, is idempotent, ends in one newline, prints all spellings alike with exactly the needed pairs; one comment of each kind "
                                   "in every token gap must land where the model says. The repository sources go through the same relations as written, with other horizontal "
                                   "spacing, flattened, fully broken, from the printer's own output at another width, under in-source directives (nested too) and after random "
                                   "edits. Every behaviour of the file-level state machine is run on the real binary. The whole record stream is walked by ZyFormatTrace in TLC."}
    out.assumptions = ["TLC 1.8.0", "the desugarer is the judge of 'denotes the same term' (a bug shared by parser and printer is invisible here; C11/C03 look at the parser)",
                       "10 s without output counts as a hang", "layout search is not modelled: claims about widths are about the runs made"]
    return out.finish()


def replay(prop, path):
    r = json.load(open(path))
    log(json.dumps(r["first"], indent=1)[:6000])
    return 0
