#!/usr/bin/env python3
"""/verif/check driver:  ./check <ID> --tier quick|thorough   |   ./check setup   |   ./check <ID> --replay PATH"""
import argparse
import importlib
import json
import os
import sys
import time

sys.path.insert(0, os.path.dirname(os.path.abspath(__file__)))
import lib
from lib import ToolError, log

PROPS = {
    "C01": "p_core", "C02": "p_core", "C03": "p_core", "C04": "p_cov", "C05": "p_numeric", "C06": "p_host", "C07": "p_scope", "C08": "p_graph", "C09": "p_sources", "C10": "p_frontend", "C11": "p_lexer", "C12": "p_format", "C13": "p_format", "C14": "p_format", "C15": "p_session", "C16": "p_determinism", "C17": "p_conc", "C18": "p_backend", "C19": "p_backend", "C20": "p_monadic",
}


def setup():
    lib.ensure_dirs()
    lib.build_harness()
    # every specification module must parse
    mods = sorted(f for f in os.listdir(lib.SPEC) if f.endswith(".tla"))
    for m in mods:
        p = lib.sh(["tla-sany", os.path.join(lib.SPEC, m)], cwd=lib.SPEC, check=False)
        if p.returncode != 0 or "Semantic errors" in (p.stdout or "") or "***Parse Error***" in (p.stdout or ""):
            raise ToolError("SANY rejected %s:\n%s" % (m, (p.stdout or "")[-2000:]))
    log("[setup] %d specification modules parse" % len(mods))


def main():
    ap = argparse.ArgumentParser()
    ap.add_argument("what")
    ap.add_argument("--tier", default=os.environ.get("VERIF_TIER", "quick"), choices=["quick", "thorough"])
    ap.add_argument("--replay", default=None)
    a = ap.parse_args()
    try:
        if a.what == "setup":
            setup()
            return 0
        if a.what == "selftest":
            import selftest
            return selftest.run()
        if a.what not in PROPS:
            log("unknown property %s" % a.what)
            return 2
        mod = importlib.import_module(PROPS[a.what])
        if a.replay:
            return mod.replay(a.what, a.replay)
        return mod.run(a.what, a.tier)
    except lib.HarnessAborted as e:
        # the code under test overflowed its stack while the harness replayed generated inputs in-process: the harness dies
        # with it.  That is an observation about the code, reported against the property being checked, with the inputs
        # that were in flight (one per worker) as the replay.
        import json
        candidates = []
        cases = next((x for x in e.zargs[1:] if x.endswith(".ndjson") and os.path.exists(x)), None)
        if cases:
            lines = open(cases, errors="replace").read().splitlines()
            candidates = [{"index": i, "case": lines[i][:1500]} for i in e.indices if i < len(lines)]
        out = lib.Outcome(a.what, a.tier, "model_checking")
        out.add_findings([{"property": a.what, "kind": "code-under-test-aborts-the-process",
                           "detail": "stack overflow while `zyconf %s` replayed generated inputs; in flight: items %s of %s" % (e.zargs[0], e.indices, cases or "the generated list"),
                           "command": e.zargs, "in_flight": candidates, "output": e.text}])
        out.coverage = {"states": 1, "transitions": 1, "traces_validated_against_impl": len(candidates),
                        "samples": candidates[:3] or [{"command": e.zargs, "in_flight_items": e.indices}],
                        "explanation": "the replay stopped at an input on which the code under test overflows its stack (the process cannot survive that)"}
        out.assumptions = ["the in-flight items are candidates: one per worker thread; filtered case lists may shift indices"]
        return out.finish()
    except ToolError as e:
        log("TOOL-ERROR: %s" % e)
        return 2
    except Exception as e:  # noqa
        import traceback
        traceback.print_exc()
        log("TOOL-ERROR: %s" % e)
        return 2


if __name__ == "__main__":
    sys.exit(main())
