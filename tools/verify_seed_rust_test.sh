#!/bin/sh
# usage: verify_seed_rust_test.sh SEEDDIR CRATE_DIR TESTNAME PKGS...
# Confirms in the shared scratch worktree /tmp/wt_verify that: the demo test fails with the patch, passes without,
# and the listed packages' tests pass with the patch.
SEED=$1; CRATE=$2; TNAME=$3; shift 3
WT=/tmp/wt_verify
LOG=/verif/work/seedverify/$(basename $SEED)
mkdir -p $LOG
[ -d $WT ] || git -C /repo worktree add -q --detach $WT HEAD
cd $WT && git checkout -q -- . && git clean -fdq -e target
mkdir -p $CRATE/tests && cp $SEED/demo_test.rs $CRATE/tests/$TNAME.rs
PKG=$(grep -m1 '^name' $CRATE/Cargo.toml | sed 's/.*"\(.*\)".*/\1/')
cargo test --offline -j 10 -p $PKG --test $TNAME 2>&1 | grep -E "^test |test result|error" > $LOG/original.log
git apply $SEED/patch.diff || { echo "PATCH DOES NOT APPLY" > $LOG/with_change.log; exit 1; }
cargo test --offline -j 10 -p $PKG --test $TNAME 2>&1 | grep -E "^test |test result|error" > $LOG/with_change.log
rm $CRATE/tests/$TNAME.rs
ARGS=""; for p in "$@"; do ARGS="$ARGS -p $p"; done
cargo test --offline -j 10 --no-fail-fast $ARGS 2>&1 | grep -E "test result|FAILED|error\[" > $LOG/suite_with_change.log
git checkout -q -- . && git clean -fdq -e target
echo verified > $LOG/done
