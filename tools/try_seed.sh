#!/bin/sh
# usage: try_seed.sh SEEDDIR PROP [TIER]  — applies the seeded change to /repo, runs one check, reverts.  Never leave /repo dirty.
S=$1; P=$2; T=${3:-quick}
cd /verif
[ -z "$(git -C /repo status --porcelain)" ] || { echo "/repo is dirty"; exit 2; }
git -C /repo apply "$S/patch.diff" || exit 2
./check $P --tier $T > work/seed_$(basename $S)_$P.log 2>&1; echo "exit=$?" >> work/seed_$(basename $S)_$P.log
git -C /repo checkout -- .
tail -n 6 work/seed_$(basename $S)_$P.log | cut -c1-400
