"""C10 — ZyFrontend.tla / ZyFrontendTrace.tla: any input yields success or a diagnostic."""
import json
import os
import re
import subprocess
from concurrent.futures import ThreadPoolExecutor

import lib
from lib import log, require

W = os.path.join(lib.WORK, "frontend")


def gen(cfg, vocab):
    tout = os.path.join(W, cfg + ".out")
    res = lib.run_tlc("ZyFrontend.tla", cfg, tout, workers=12, coverage=False, timeout=3000)
    cases = os.path.join(W, cfg + ".cases.ndjson")
    n = lib.extract_replay(tout, cases)
    os.remove(tout)
    require(n > 1000, "too few lexeme sequences from %s" % cfg)
    log("[tlc] %s: %d lexeme sequences" % (cfg, n))
    return res, cases, vocab


def cli_one(path):
    try:
        p = subprocess.run([lib.ZYDECO, "check", path], stdin=subprocess.DEVNULL, capture_output=True, text=True, timeout=60, errors="replace")
        return path, p.returncode, p.stderr
    except subprocess.TimeoutExpired:
        return path, -9, "TIMEOUT"


def run(prop, tier):
    lib.build_harness()
    os.makedirs(W, exist_ok=True)
    out = lib.Outcome(prop, tier, "model_checking")
    plans = [("MC_ZyFrontend_main2.cfg", "main"), ("MC_ZyFrontend_sub4.cfg", "sub")] if tier == "quick" else \
            [("MC_ZyFrontend_main3.cfg", "main"), ("MC_ZyFrontend_sub5.cfg", "sub")]
    states = transitions = 0
    allcases = os.path.join(W, "all.cases.ndjson")
    with open(allcases, "w") as dest:
        for cfg, vocab in plans:
            res, cases, v = gen(cfg, vocab)
            states += res["distinct"]
            transitions += res["generated"]
            for l in open(cases):
                c = json.loads(l)
                c["vocab"] = v
                dest.write(json.dumps(c) + "\n")
        # syntactically valid terms: every tree of spec/ZyFormat.tla (35+ formers, binder sugar, 12 pattern spellings at the root)
        tout = os.path.join(W, "trees.out")
        res = lib.run_tlc("ZyFormat.tla", "MC_ZyFormat_d2.cfg" if tier == "quick" else "MC_ZyFormat_d3.cfg", tout, workers=12, coverage=False, timeout=6000, xmx="16g")
        states += res["distinct"]
        transitions += res["generated"]
        tcases = os.path.join(W, "trees.cases.ndjson")
        ntrees = lib.extract_replay(tout, tcases)
        os.remove(tout)
        require(ntrees > 40000, "too few trees: %d" % ntrees)
        os.makedirs(W, exist_ok=True)
        log("[tlc] ZyFormat: %d trees" % ntrees)
        # depth 3 has 736 000 trees since the former table grew: the thorough tier feeds a seeded third of them
        stride, phase = (1, 0) if tier == "quick" else (3, lib.seed() % 3)
        for k, l in enumerate(open(tcases)):
            if k % stride != phase:
                continue
            c = json.loads(l)
            dest.write(json.dumps({"text": " ".join(t for t, p in zip(c["toks"], c["pars"]) if p != "red")}) + "\n")
    trace = os.path.join(W, "trace.ndjson")
    summ = os.path.join(W, "summary.json")
    nbytes, mutants = (3000, 3) if tier == "quick" else (200000, 50)
    zp = lib.zyconf(["fuzz-frontend", allcases, trace, summ, str(nbytes), str(mutants)], timeout=20000, check=False)
    if zp.returncode != 0:
        # the harness died.  A stack overflow in the code under test aborts the process: the workers' marker files hold the
        # inputs that were in flight; the one(s) that make the real binary die too are the finding
        text = (zp.stdout or "") + (getattr(zp, "stderr", "") or "")
        culprits = []
        lib.build_repo_bins()
        d = summ + ".inflight"
        for f in sorted(os.listdir(d)) if os.path.isdir(d) else []:
            family, _, src = open(os.path.join(d, f), errors="replace").read().partition("\n")
            path = os.path.join(W, "inflight_%s.zy" % f.split(".")[0])
            open(path, "w").write(src)
            _, code, err = cli_one(path)
            if code not in (0, 1):
                culprits.append((family, src, code, err))
        if "overflowed its stack" not in text or not culprits:
            raise lib.ToolError("zyconf fuzz-frontend failed (%d):\n%s" % (zp.returncode, text[-3000:]))
        for family, src, code, err in culprits:
            out.add_findings([{"property": "C10", "kind": "cli-abnormal-exit", "family": family, "input": src[:2000],
                               "detail": "zydeco check exits with %s: %s [%s]; the in-process pipeline aborted the harness on the same input" %
                                         (code, "stack overflow" if "overflowed its stack" in err else err[-160:], family)}])
        out.coverage = {"states": states, "transitions": transitions, "traces_validated_against_impl": len(culprits),
                        "samples": [{"family": c[0], "input": c[1][:400], "exit": c[2]} for c in culprits[:3]],
                        "explanation": "the replay aborted on an input that overflows the stack of the code under test; the run stops at this finding"}
        out.assumptions = ["TLC 1.8.0"]
        return out.finish()
    s = json.load(open(summ))
    out.add_findings(s["findings"])
    require(s["classes"].get("success", 0) > 0 and s["classes"].get("diagnostic", 0) > 0, "one outcome class only: %s" % s["classes"])
    # the monitor
    tout = os.path.join(W, "trace.tlc.out")
    res = lib.run_tlc("ZyFrontendTrace.tla", "ZyFrontendTrace.cfg", tout, workers=1, coverage=False, extra_env={"TRACE": trace},
                      allow_violation=True, timeout=6000, xmx="8g")
    rejected = res["violated"] is not None or res["depth"] - 1 != s["inputs"]
    require(rejected == bool(s["findings"]), "monitor and harness disagree: rejected=%s findings=%d" % (rejected, len(s["findings"])))
    states += res["distinct"]
    transitions += res["generated"]
    # CLI level: exit status 0/1 and rendered diagnostics, on regression inputs and a seeded subsample
    lib.build_repo_bins()
    d = os.path.join(W, "cli")
    os.makedirs(d, exist_ok=True)
    paths = []
    sc = "/verif/scenarios/c10"
    for f in sorted(os.listdir(sc)):
        if f.endswith(".zy"):
            paths.append(os.path.join(sc, f))
    # lexeme sequences re-rendered by the harness table are not available here; mutate repository sources at token level instead
    import random
    rnd = random.Random(lib.seed())
    srcs = []
    for dp, _, fs in os.walk("/repo/lib/tests"):
        srcs += [os.path.join(dp, f) for f in fs if f.endswith(".zy")]
    srcs.sort()
    for i in range(24 if tier == "quick" else 300):
        src = open(rnd.choice(srcs), errors="replace").read().replace('"../../std/', '"/repo/lib/std/')
        toks = re.findall(r"\w+|\s+|.", src)
        k = rnd.randrange(len(toks))
        op = rnd.randrange(3)
        if op == 0:
            del toks[k]
        elif op == 1:
            toks.insert(k, toks[k])
        else:
            toks[k] = rnd.choice(["_", "!", ".d", "+C", "(", ")", "end", "|", "@[debug(\"d\")]", "fn", "=>", "999999999999999999999999999999"])
        p = os.path.join(d, "m%d.zy" % i)
        open(p, "w").write("".join(toks))
        paths.append(p)
    with ThreadPoolExecutor(max_workers=16) as ex:
        cli = list(ex.map(cli_one, paths))
    for path, code, err in cli:
        if code not in (0, 1):
            m = re.search(r"panicked at ([^:\n]+):\d+:\d+:\n?([^\n]*)", err)
            where = (m.group(1), m.group(2)) if m else ("?", err[-200:])
            out.add_findings([{"property": "C10", "kind": "cli-abnormal-exit",
                               "detail": "zydeco check exits with %s: %s @ %s [%s]" % (code, where[1][:120], where[0], os.path.basename(path)),
                               "input": open(path, errors="replace").read()[:400]}])
    out.coverage = {"states": states, "transitions": transitions, "traces_validated_against_impl": s["inputs"] + len(cli),
                    "samples": s["samples"], "inputs": s["inputs"], "outcomes": s["classes"], "cli_runs": len(cli),
                    "explanation": "inputs: every sequence of <= 2 (thorough 3) of 75 representative lexemes (all keywords, identifier classes, extreme and malformed "
                                   "literals, punctuation, comment markers, unknown characters, metadata forms) and of <= 4 (5) of 16 lexemes around binders, "
                                   "destructors and metadata, generated by TLC with the lexical must-reject predicate; random byte strings; token-level mutants "
                                   "of every repository source. Each goes through the in-process pipeline with diagnostics rendered as the CLI does; the outcome "
                                   "records are validated by the monitor ZyFrontendTrace (Success or Diagnostic, never Broken; every reported range inside its "
                                   "file; must-reject honoured). `zydeco check` is run as a process on regression inputs and mutants (exit status 0 or 1)."}
    out.assumptions = ["TLC 1.8.0", "nesting depth of inputs is bounded by construction (the property exempts unbounded nesting)", "20 s per input counts as a hang"]
    return out.finish()


def replay(prop, path):
    r = json.load(open(path))
    log(json.dumps(r["first"], indent=1)[:4000])
    return 0
