"""C20 — monadic blocks instantiated at the identity monad compute the same result (ZyCore, Root = retint)."""
import json
import os

import lib
from lib import log, require
import p_core

W = os.path.join(lib.WORK, "monadic")


def run(prop, tier):
    lib.build_harness()
    os.makedirs(W, exist_ok=True)
    out = lib.Outcome(prop, tier, "model_checking")
    cfg = "mon9" if tier == "quick" else "mon11"
    res, cases = p_core.tlc_cases(cfg)
    summ = os.path.join(W, "monadic.summary.json")
    lib.zyconf(["replay-monadic", cases, summ], timeout=7200)
    s = json.load(open(summ))
    out.add_findings(s["findings"])
    require(s["cases"] > 1000, "too few returning computations: %d" % s["cases"])
    # n-ary tuples (ZyCore has pairs only): spec/ZyProducts.tla, family "mon"
    tcfg = "MC_ZyProducts_mon5.cfg" if tier == "quick" else "MC_ZyProducts_mon7.cfg"
    tout = os.path.join(W, "tuples.out")
    tres = lib.run_tlc("ZyProducts.tla", tcfg, tout, workers=2, coverage=False, timeout=600)
    tcases = os.path.join(W, "tuples.cases.ndjson")
    nt = lib.extract_replay(tout, tcases)
    os.remove(tout)
    require(nt >= 100, "too few tuple programs: %d" % nt)
    tsumm = os.path.join(W, "tuples.summary.json")
    lib.zyconf(["replay-monadic", tcases, tsumm], timeout=3000)
    ts = json.load(open(tsumm))
    out.add_findings(ts["findings"])
    require(ts["cases"] == nt, "tuple programs dropped: %d of %d" % (ts["cases"], nt))
    kinds, _ = p_core.token_histogram(cases)
    for k in ("ret", "do", "lam", "app", "thunk", "force", "let", "match", "ctor"):
        require(kinds.get(k, 0) > 0, "construct %s never generated" % k)
    out.coverage = {"states": res["distinct"] + tres["distinct"], "transitions": res["generated"] + tres["generated"], "traces_validated_against_impl": s["cases"] + ts["cases"],
                    "tuple_programs": {"programs": ts["cases"], "classes": ts["classes"]},
                    "samples": s["samples"], "exhaustive": True, "classes": s["classes"], "token_histogram": dict(kinds),
                    "explanation": "every closed computation of type Ret Int64 up to the token bound over ret, do, fn, application, thunk, force, let, data "
                                   "constructors, match, pairs (TLC: GenSound, TypeSafety, predicted returned value) is rendered plain and as an @[monadic] "
                                   "block applied to Ret and the identity monad instance in one scaffold; the program compares the two results and exits with "
                                   "them; both must equal the reference semantics' value, the translated block must be accepted and never go wrong. "
                                   "spec/ZyProducts.tla (family mon) adds tuples of arity 2-5 (thorough 7) built by the block in five ways, taken apart by a full or "
                                   "partial tuple pattern, with every named component returned in turn (component i has the value i)."}
    out.assumptions = ["TLC 1.8.0", "renderer harness/src/core.rs + scaffold harness/src/monadic.rs", "data types are transparent global lets (sealed ones are rejected by design)"]
    return out.finish()


def replay(prop, path):
    r = json.load(open(path))
    log(json.dumps(r["first"], indent=1)[:4000])
    return 0
