"""Shared driver plumbing for /verif/check: build, TLC, evidence, known findings, violation lines."""
import hashlib
import json
import os
import re
import shutil
import subprocess
import sys
import time

VERIF = "/verif"
REPO = "/repo"
WORK = os.path.join(VERIF, "work")
SPEC = os.path.join(VERIF, "spec")
HARNESS = os.path.join(VERIF, "harness")
ZYCONF = os.path.join(HARNESS, "target", "debug", "zyconf")
REPO_TARGET = os.path.join(HARNESS, "target-repo")
ZYDECO = os.path.join(REPO_TARGET, "debug", "zydeco")
CAJUN = os.path.join(REPO_TARGET, "debug", "cajun")
EVIDENCE = os.path.join(VERIF, "evidence")
REPLAYS = os.path.join(VERIF, "replays")
KNOWN = os.path.join(VERIF, "known_findings.json")


class ToolError(Exception):
    """The machinery itself failed (build, TLC error, vacuity guard): exit code 2."""


def log(msg):
    print(msg, flush=True)


def seed():
    try:
        return int(os.environ.get("VERIF_SEED", "1"))
    except ValueError:
        return 1


def sh(cmd, cwd=None, env=None, timeout=None, check=True, capture=True):
    e = dict(os.environ)
    e.update({"CARGO_NET_OFFLINE": "true"})
    if env:
        e.update(env)
    p = subprocess.run(cmd, cwd=cwd, env=e, timeout=timeout, shell=isinstance(cmd, str),
                       stdout=subprocess.PIPE if capture else None,
                       stderr=subprocess.STDOUT if capture else None, text=True, errors="replace")
    if check and p.returncode != 0:
        raise ToolError("command failed (%d): %s\n%s" % (p.returncode, cmd, (p.stdout or "")[-4000:]))
    return p


def ensure_dirs():
    for d in (WORK, EVIDENCE, REPLAYS):
        os.makedirs(d, exist_ok=True)


def build_harness():
    """Incremental build of zyconf against /repo's current working tree (path dependencies)."""
    ensure_dirs()
    lock_src = os.path.join(REPO, "Cargo.lock")
    lock_dst = os.path.join(HARNESS, "Cargo.lock")
    if not os.path.exists(lock_dst):
        shutil.copy(lock_src, lock_dst)
    t0 = time.time()
    p = sh(["cargo", "build", "--offline"], cwd=HARNESS, check=False)
    if p.returncode != 0:
        # a stale lock (dependencies of /repo changed) is the one thing worth retrying
        shutil.copy(lock_src, lock_dst)
        p = sh(["cargo", "build", "--offline"], cwd=HARNESS, check=False)
        if p.returncode != 0:
            raise ToolError("harness build failed:\n" + p.stdout[-6000:])
    log("[build] zyconf ready in %.1fs" % (time.time() - t0))


def build_repo_bins():
    """Build the real executables from /repo's working tree into /verif/harness/target-repo."""
    ensure_dirs()
    t0 = time.time()
    p = sh(["cargo", "build", "--offline", "--manifest-path", os.path.join(REPO, "Cargo.toml"),
            "--bin", "zydeco", "--bin", "cajun", "--target-dir", REPO_TARGET], cwd=REPO, check=False)
    if p.returncode != 0:
        raise ToolError("repo binaries build failed:\n" + p.stdout[-6000:])
    log("[build] zydeco, cajun ready in %.1fs" % (time.time() - t0))


TLC_JAR = "/opt/veriftools/tla/tla2tools.jar"
_COMMUNITY = None


def _classpath():
    global _COMMUNITY
    if _COMMUNITY is None:
        # reuse whatever the `tlc` wrapper puts on the classpath
        wrapper = shutil.which("tlc")
        cp = TLC_JAR
        try:
            text = open(wrapper).read()
            m = re.search(r'-cp\s+"?([^"\s]+)"?', text)
            if m:
                cp = m.group(1)
        except Exception:
            pass
        _COMMUNITY = cp
    return _COMMUNITY


def run_tlc(module, cfg, outfile, workers=12, timeout=1500, simulate=None, depth_first=False,
            extra_env=None, java_opts=None, coverage=True, allow_violation=False, xmx=None, tlc_args=None):
    """Run TLC; returns dict(generated, distinct, depth, coverage{action: count}, violated: name|None).
    Raises ToolError on any TLC error other than a (permitted) invariant violation."""
    ensure_dirs()
    meta = os.path.join(WORK, "tlc-meta", os.path.basename(outfile) + ".%d" % os.getpid())
    shutil.rmtree(meta, ignore_errors=True)
    os.makedirs(meta, exist_ok=True)
    cmd = ["tlc", "-workers", str(workers), "-metadir", meta, "-cleanup", "-noGenerateSpecTE"]
    if coverage:
        cmd += ["-coverage", "1"]
    if simulate:
        cmd += ["-simulate", simulate]
    if tlc_args:
        cmd += list(tlc_args)
    cmd += ["-config", os.path.join(SPEC, cfg), os.path.join(SPEC, module)]
    env = dict(extra_env or {})
    jopts = java_opts or "-Xss512m"
    if depth_first:
        jopts += " -Dtlc2.tool.queue.IStateQueue=StateDeque"
    if xmx:
        jopts += " -Xmx" + xmx
    env["JAVA_TOOL_OPTIONS"] = jopts
    t0 = time.time()
    with open(outfile, "w") as out:
        e = dict(os.environ)
        e.update(env)
        try:
            p = subprocess.run(cmd, cwd=SPEC, env=e, stdout=out, stderr=subprocess.STDOUT, timeout=timeout)
            rc = p.returncode
        except subprocess.TimeoutExpired:
            if simulate:
                rc = 0  # simulation runs are ended by the outer timeout by design
            else:
                shutil.rmtree(meta, ignore_errors=True)
                raise ToolError("TLC timed out after %ds on %s" % (timeout, cfg))
    shutil.rmtree(meta, ignore_errors=True)
    text = open(outfile, errors="replace").read()
    res = {"generated": 0, "distinct": 0, "depth": 0, "coverage": {}, "violated": None,
           "wall_s": round(time.time() - t0, 1), "cfg": cfg, "module": module}
    m = re.findall(r"(\d+) states generated, (\d+) distinct states found", text)
    if m:
        res["generated"], res["distinct"] = int(m[-1][0]), int(m[-1][1])
    if not m:
        m2 = re.findall(r"number of states generated: (\d+)", text) or re.findall(r"(\d+) states checked", text)
        if m2:
            res["generated"] = res["distinct"] = int(m2[-1])
    m = re.search(r"depth of the complete state graph search is (\d+)", text)
    if m:
        res["depth"] = int(m.group(1))
    for am in re.finditer(r"^<(\w+) line \d+, col \d+ to line \d+, col \d+ of module (\w+)>: (\d+):(\d+)", text, re.M):
        res["coverage"][am.group(1)] = res["coverage"].get(am.group(1), 0) + int(am.group(4))
    vm = re.search(r"Invariant (\w+) is violated|Action property (\w+) is violated|Temporal properties were violated|Postcondition (\w+) .* is false", text)
    if vm:
        res["violated"] = vm.group(1) or vm.group(2) or vm.group(3) or "temporal"
        if not allow_violation:
            raise ToolError("TLC refuted %s in %s (a defect of the specification, not of the code); see %s"
                            % (res["violated"], cfg, outfile))
    elif rc != 0 or re.search(r"^Error:", text, re.M) or "Exception" in text and "Finished" not in text:
        tail = "\n".join(l for l in text.splitlines() if "REPLAY" not in l)[-3000:]
        raise ToolError("TLC failed on %s (rc=%s):\n%s" % (cfg, rc, tail))
    return res


def extract_replay(tlc_out, dest, tag="REPLAY"):
    n = 0
    pat = re.compile(r'<<"%s", "(.*)">>\s*$' % tag)
    with open(dest, "w") as out:
        for line in open(tlc_out, errors="replace"):
            if ('"%s"' % tag) not in line:
                continue
            m = pat.search(line)
            if not m:
                continue
            case = json.loads(json.loads('"' + m.group(1) + '"'))
            out.write(json.dumps(case, sort_keys=True) + "\n")
            n += 1
    return n


class HarnessAborted(Exception):
    """The code under test took the harness process down (stack overflow): not a tool error but an observation."""
    def __init__(self, args, indices, text):
        Exception.__init__(self, "zyconf %s aborted: stack overflow in the code under test" % args[0])
        self.zargs, self.indices, self.text = list(args), indices, text


def zyconf(args, timeout=3000, env=None, check=True):
    import shutil
    inflight = os.path.join(WORK, "inflight", "%d_%s" % (os.getpid(), args[0]))
    shutil.rmtree(inflight, ignore_errors=True)
    os.makedirs(inflight)
    e = dict(env or {})
    e["ZYCONF_INFLIGHT"] = inflight
    p = sh([ZYCONF] + list(args), cwd=VERIF, timeout=timeout, env=e, check=False)
    indices = []
    if p.returncode != 0:
        for f in sorted(os.listdir(inflight)):
            try:
                indices.append(int(open(os.path.join(inflight, f)).read().strip()))
            except ValueError:
                pass
    shutil.rmtree(inflight, ignore_errors=True)
    if check and p.returncode != 0:
        if "overflowed its stack" in (p.stdout or "") and indices:
            raise HarnessAborted(args, sorted(set(indices)), (p.stdout or "")[-1500:])
        raise ToolError("zyconf %s failed (%d):\n%s" % (args[0], p.returncode, (p.stdout or "")[-4000:]))
    return p


# ---------------------------------------------------------------------------------------------
# known findings

def load_known():
    if not os.path.exists(KNOWN):
        return []
    return json.load(open(KNOWN))["findings"]


def match_known(prop, finding, known):
    """A finding (dict with kind/detail/...) is known iff every key of an entry's `match` is a
    substring (strings) or equal (other) of the finding's same-named field."""
    for k in known:
        if k.get("property") != prop or k.get("status") != "known":
            continue
        ok = True
        for key, want in k.get("match", {}).items():
            have = finding.get(key)
            if isinstance(want, str):
                if not isinstance(have, str) or want not in have:
                    ok = False
            elif isinstance(want, list):
                if not isinstance(have, str) or not any(w in have for w in want):
                    ok = False
            elif have != want:
                ok = False
        if ok:
            return k
    return None


# ---------------------------------------------------------------------------------------------
# results

class Outcome:
    """Collects findings of one check run and produces evidence + exit status."""

    def __init__(self, prop, tier, level):
        self.prop, self.tier, self.level = prop, tier, level
        self.t0 = time.time()
        self.findings = []
        self.coverage = {}
        self.assumptions = []
        self.known = load_known()

    def add_findings(self, findings):
        self.findings.extend(f for f in findings if f.get("property", self.prop) == self.prop)

    def finish(self):
        ensure_dirs()
        new, known_hits = [], {}
        for f in self.findings:
            k = match_known(self.prop, f, self.known)
            if k:
                known_hits.setdefault(k["id"], [k, 0])[1] += 1
            else:
                new.append(f)
        for kid, (k, count) in sorted(known_hits.items()):
            log("KNOWN-FINDING: property=%s %s: %s (%d case(s) this run)" % (self.prop, kid, k["what"], count))
        # group new findings by (kind, detail prefix) and write one replay file per group
        groups = {}
        for f in new:
            key = (f.get("kind", "?"), (f.get("detail") or "")[:60])
            groups.setdefault(key, []).append(f)
        for key, fs in sorted(groups.items()):
            body = json.dumps(fs[0], sort_keys=True, indent=1)
            h = hashlib.sha256(body.encode()).hexdigest()[:12]
            path = os.path.join(REPLAYS, "%s-%s.json" % (self.prop, h))
            with open(path, "w") as out:
                json.dump({"property": self.prop, "kind": key[0], "count": len(fs), "first": fs[0],
                           "others": [x.get("detail") for x in fs[1:20]]}, out, indent=1, sort_keys=True)
            log("VIOLATION property=%s replay=%s" % (self.prop, path))
            log("  %s: %s (%d case(s))" % (key[0], (fs[0].get("detail") or "")[:300], len(fs)))
        cov = dict(self.coverage)
        cov.setdefault("samples", [])
        ev = {"property_id": self.prop, "tier": self.tier, "seed": seed(), "level": self.level,
              "coverage": cov, "assumptions": self.assumptions,
              "wall_s": round(time.time() - self.t0, 1), "violations": len(groups),
              "known_findings_reproduced": sorted(known_hits.keys())}
        with open(os.path.join(EVIDENCE, "%s.json" % self.prop), "w") as out:
            json.dump(ev, out, indent=1, sort_keys=True)
        log("[%s] tier=%s wall=%.0fs violations=%d known=%d" % (self.prop, self.tier, ev["wall_s"], len(groups), len(known_hits)))
        return 1 if groups else 0


def require(cond, msg):
    if not cond:
        raise ToolError("vacuity/consistency guard: " + msg)
