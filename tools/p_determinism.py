"""C16 — tool output is a deterministic function of the sources (N fresh processes per command and file)."""
import hashlib
import json
import os
import random
import subprocess
from concurrent.futures import ThreadPoolExecutor

import lib
from lib import log, require

W = os.path.join(lib.WORK, "determinism")

REJECTED_MULTI = '''param (
  (/core; /numeric; /system) :
  @(import("/repo/lib/std/builtin.zy"))
) in
let (/VType; /CType; /Thk; /Ret; /Unit) = core in
let (Scalar = Int64, int64) = numeric/int64 in
let (/process; /OS) = system in
begin
  let a : Int64 = () that
  let b : Unit = 1 that
  let c : Thk OS = 2 that
  let d : Int64 = { ret 1 } that
  let e : Unit = "s" that
  ! (process/exit) a
end
'''
BLOCK_MANY = '''param (
  (/core; /numeric; /system) :
  @(import("/repo/lib/std/builtin.zy"))
) in
let (/VType; /CType; /Thk; /Ret; /Unit) = core in
let (Scalar = Int64, int64) = numeric/int64 in
let (/process; /OS) = system in
let blk = {
  begin
%s    do s0 <- ret 0;
%s    ! (process/exit) s%d
  end
} in
! blk
'''


def corpus(tier, seed):
    d = os.path.join(W, "src")
    os.makedirs(d, exist_ok=True)
    files = []
    rnd = random.Random(seed)
    # repository executables and libraries
    repo = []
    for root in ("/repo/lib/tests/compile", "/repo/lib/tests/exec", "/repo/lib/spell", "/repo/lib/examples", "/repo/lib/tests/monadic", "/repo/lib/tests/fail"):
        for dp, _, fs in os.walk(root):
            for f in sorted(fs):
                if f.endswith((".zy", ".zydeco")):
                    repo.append(os.path.join(dp, f))
    rnd.shuffle(repo)
    skip = ("echo", "loop", "looping", "random", "interpreter")      # read stdin / run forever / random_int by construction
    repo = [f for f in repo if not any(s in os.path.basename(f) for s in skip)]

    def impure(f):
        # programs whose OUTPUT is not a function of the sources by construction: random numbers, standard input, time
        text = open(f, errors="replace").read()
        return any(w in text for w in ("/random", "random_int", "random/", "stdin", "read_line", "read_int", "read_all", "/time", "clock"))
    repo = [f for f in repo if not impure(f)]
    files += repo[: (14 if tier == "quick" else 120)]
    # a rejected program with several independent type errors
    p = os.path.join(d, "rejected_multi.zy")
    open(p, "w").write(REJECTED_MULTI)
    files.append(p)
    # a block with many independent contributions (elaboration order must not depend on hash order)
    n = 24
    lets = "".join("    let v%d : Int64 = %d that\n" % (i, i) for i in rnd.sample(range(n), n))
    sums = "".join("    do s%d <- ! (int64/add) s%d v%d;\n" % (i + 1, i, i) for i in range(n))
    p = os.path.join(d, "block_many.zy")
    open(p, "w").write(BLOCK_MANY % (lets, sums, n))
    files.append(p)
    # rejected programs with SEVERAL culprits of one kind: the one that is reported must not depend on hash order
    # (a) one pattern redefines four earlier block names; (b) five mutually recursive types, four with a kind error;
    # (c) a cycle through four values
    prelude = ('begin\n  param (\n    (/core; /representations; /system) :\n    @(import("/repo/lib/std/builtin.zy"))\n  ) that\n'
               '  let (/VType; /Ret; /Unit) = core that\n  let (/Scalar = Int64) = representations/i64 that\n  let (/process) = system that\n')
    names = ["a", "b", "c", "d"]
    body = "".join("  let %s = %d that\n" % (x, i) for i, x in enumerate(names)) + "  let (a, b, c, d) = (1, 2, 3, 4) that\n"
    p = os.path.join(d, "dup_pattern.zy")
    open(p, "w").write(prelude + body + "  ! (process/exit) 0\nend\n")
    files.append(p)
    tys = ["A", "B", "C", "D", "E"]
    body = ""
    for i, t in enumerate(tys):
        nxt = tys[(i + 1) % len(tys)]
        body += "  def %s : VType =\n    data\n    | +%s0 : Unit\n    | +%s1 : %s\n    end\n  that\n" % (t, t, t, nxt if i == 0 else nxt + " Unit")
    p = os.path.join(d, "rec_group_faulty.zy")
    open(p, "w").write(prelude + body + "  ! (process/exit) 0\nend\n")
    files.append(p)
    vals = ["w", "x", "y", "z"]
    body = "".join("  let %s : Int64 = %s that\n" % (v, vals[(i + 1) % len(vals)]) for i, v in enumerate(vals))
    p = os.path.join(d, "value_cycle.zy")
    open(p, "w").write(prelude + body + "  ! (process/exit) w\nend\n")
    files.append(p)
    return files


COMATCH_PRELUDE = '''param (
  (/core; /numeric; /system) :
  @(import("/repo/lib/std/builtin.zy"))
) in
let (/VType; /CType; /Thk; /Ret; /Unit) = core in
let (Scalar = Int64, int64) = numeric/int64 in
let (/process; /OS) = system in
'''


def model_generated(tier):
    """Rejected programs whose diagnostic lists several items, taken from the OTHER models' enumerations: non-exhaustive
    matches with >= 2 missing patterns (spec/ZyCoverage.tla, incl. the 11-constructor type whose list is truncated) and
    comatches missing >= 2 destructors (spec/ZyCoMatch.tla).  Which items are listed, and in which order, is where an
    unordered container shows."""
    import p_cov
    files = []
    d = os.path.join(W, "gen")
    import shutil
    shutil.rmtree(d, ignore_errors=True)
    os.makedirs(d)
    stats = {"states": 0, "transitions": 0}
    for cfg, name, n in (("MC_ZyCoverage_q.cfg", "q16", 24 if tier == "quick" else 200), ("MC_ZyCoverage_wide.cfg", "wide16", 12 if tier == "quick" else 100)):
        res, cases = p_cov.gen(cfg, name)
        stats["states"] += res["distinct"]; stats["transitions"] += res["generated"]
        sub = os.path.join(d, name)
        lib.zyconf(["render-coverage", cases, sub, str(n)], timeout=600)
        got = sorted(os.path.join(sub, f) for f in os.listdir(sub))
        require(len(got) >= min(n, 10), "too few rejected coverage programs from %s: %d" % (cfg, len(got)))
        for k, f in enumerate(got):
            t = os.path.join(d, "%s_%s" % (name, os.path.basename(f)))
            os.replace(f, t)
            files.append(t)
    cout = os.path.join(W, "comatch.tlc.out")
    res = lib.run_tlc("ZyCoMatch.tla", "MC_ZyCoMatch.cfg", cout, workers=4, coverage=False)
    stats["states"] += res["distinct"]; stats["transitions"] += res["generated"]
    ccases = os.path.join(W, "comatch.cases.ndjson")
    lib.extract_replay(cout, ccases)
    os.remove(cout)
    k = 0
    for l in open(ccases):
        c = json.loads(l)
        if len(c["missing"]) >= 2 and not c["dups"] and all(a in c["dtors"] for a in c["arms"]) and k < (8 if tier == "quick" else 60):
            decl = "".join(" | .%s : Ret Int64" % x for x in c["dtors"])
            body = "".join(" | .%s => ret %d" % (x, i + 1) for i, x in enumerate(c["arms"]))
            t = os.path.join(d, "comatch%03d.zy" % k)
            open(t, "w").write(COMATCH_PRELUDE + "let C = codata%s end in\nlet c : Thk C = { comatch%s end } in\n! (process/exit) 0\n" % (decl, body))
            files.append(t)
            k += 1
    require(k >= 4, "too few comatch programs with several missing destructors")
    return files, stats


COMMANDS = [["check"], ["run"], ["fmt", "--check"], ["build", "-t", "zir"], ["build", "-t", "zasm"], ["build", "-t", "asm"], ["build", "-t", "llvm"]]


def one(args):
    cmd, f, run = args
    try:
        p = subprocess.run([lib.ZYDECO] + cmd + [f], stdin=subprocess.DEVNULL, capture_output=True, timeout=120)
        out, err, code = p.stdout, p.stderr, p.returncode
    except subprocess.TimeoutExpired:
        out, err, code = b"", b"TIMEOUT", -1
    # a panicking process prints its thread id: normalise
    import re
    err = re.sub(rb"thread '[^']*' \(\d+\)", b"thread", err)
    return {"cmd": " ".join(cmd), "file": f, "run": run, "exit": code,
            "out": hashlib.sha256(out).hexdigest()[:16], "err": hashlib.sha256(err).hexdigest()[:16],
            "_out": out.decode(errors="replace"), "_err": err.decode(errors="replace")}


def run(prop, tier):
    lib.build_harness()
    lib.build_repo_bins()
    os.makedirs(W, exist_ok=True)
    out = lib.Outcome(prop, tier, "model_checking")
    seed = lib.seed()
    # design level: every iteration order gives one result (ZyGraph OrderConfluent)
    res0 = lib.run_tlc("ZyGraph.tla", "MC_ZyGraph_alg3.cfg", os.path.join(W, "graph.tlc.out"), workers=12, coverage=False, timeout=3000)
    files = corpus(tier, seed)
    generated, gstats = model_generated(tier)
    n = 5 if tier == "quick" else 25
    # the multi-culprit programs get more processes: two equally likely outcomes survive 12 runs with probability 2^-11
    adversarial = ("dup_pattern.zy", "rec_group_faulty.zy", "value_cycle.zy", "rejected_multi.zy")
    jobs = [(c, f, r) for f in files for c in COMMANDS for r in range(max(n, 12) if os.path.basename(f) in adversarial and c == ["check"] else n)]
    # model-generated rejected programs: `check` only, 12 processes each (two orders survive with probability 2^-11)
    jobs += [(["check"], f, r) for f in generated for r in range(max(n, 12))]
    with ThreadPoolExecutor(max_workers=16) as ex:
        results = list(ex.map(one, jobs))
    require(len(results) >= 500, "too few process runs")
    trace = os.path.join(W, "trace.ndjson")
    with open(trace, "w") as f:
        for r in results:
            f.write(json.dumps({k: v for k, v in r.items() if not k.startswith("_")}) + "\n")
    tout = os.path.join(W, "trace.tlc.out")
    res = lib.run_tlc("ZyDeterminismTrace.tla", "ZyDeterminismTrace.cfg", tout, workers=1, coverage=False,
                      extra_env={"TRACE": trace}, allow_violation=True, timeout=3000)
    rejected = res["violated"] is not None or res["depth"] - 1 != len(results)
    # list every (cmd, file) with more than one observation (the trace spec stops at the first)
    groups = {}
    for r in results:
        groups.setdefault((r["cmd"], r["file"]), []).append(r)
    differing = 0
    for (cmd, f), rs in sorted(groups.items()):
        obs = {(r["exit"], r["out"], r["err"]) for r in rs}
        if len(obs) > 1:
            differing += 1
            a = rs[0]
            b = next(r for r in rs if (r["exit"], r["out"], r["err"]) != (a["exit"], a["out"], a["err"]))
            stream = "_out" if a["out"] != b["out"] else "_err"
            la, lb = a[stream].splitlines(), b[stream].splitlines()
            first = next((i for i in range(min(len(la), len(lb))) if la[i] != lb[i]), min(len(la), len(lb)))
            out.add_findings([{"property": "C16", "kind": "nondeterministic-output",
                               "detail": "zydeco %s: %d different observations in %d runs; %s differs first at line %d: %r vs %r" %
                                         (cmd, len(obs), len(rs), stream[1:], first + 1, (la[first] if first < len(la) else "")[:120], (lb[first] if first < len(lb) else "")[:120]),
                               "file": f, "cmd": cmd, "stream": stream[1:]}])
    require(rejected == (differing > 0), "trace spec and driver disagree (rejected=%s differing=%d)" % (rejected, differing))
    classes = {}
    for r in results:
        classes["%s exit %s" % (r["cmd"], r["exit"])] = classes.get("%s exit %s" % (r["cmd"], r["exit"]), 0) + 1
    out.coverage = {"states": res["distinct"] + res0["distinct"] + gstats["states"], "transitions": res["generated"] + res0["generated"] + gstats["transitions"],
                    "model_generated_rejected_programs": len(generated),
                    "traces_validated_against_impl": len(groups),
                    "samples": [{k: v for k, v in r.items() if not k.startswith("_")} for r in results[:3]],
                    "files": len(files), "commands": [" ".join(c) for c in COMMANDS], "processes": len(results), "runs_per_command_and_file": n,
                    "exit_classes": classes,
                    "explanation": "every command (check, run, fmt --check, build -t zir|zasm|asm|llvm) on every corpus file (repository sources, a program with "
                                   "five independent type errors, a block with 24 independent contributions in shuffled textual order, multi-culprit programs) in N fresh processes; "
                                   "rejected programs generated by the other models whose diagnostic lists several items (ZyCoverage: >= 2 missing patterns incl. truncated "
                                   "lists over 11 constructors; ZyCoMatch: >= 2 missing destructors) under `check` in 12 processes each; "
                                   "the trace of (cmd, file, exit, sha256(stdout), sha256(stderr)) is validated by TLC (ZyDeterminismTrace); ZyGraph's "
                                   "OrderConfluent invariant is the design-level half."}
    out.assumptions = ["fresh processes differ in SipHash keys and ASLR by construction", "programs reading stdin, time or random_int are excluded from the corpus"]
    return out.finish()


def replay(prop, path):
    r = json.load(open(path))
    log(json.dumps(r["first"], indent=1)[:4000])
    return 0
