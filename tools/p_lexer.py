"""C11 — ZyLexer.tla: a source is parsed in full or rejected."""
import json
import os
import subprocess

import lib
from lib import log, require

W = os.path.join(lib.WORK, "lexer")


def cli_binding(out, tier):
    """`zydeco check` / `zydeco fmt` see the whole file: S passes, S ++ junk fails and is left untouched."""
    lib.build_repo_bins()
    d = os.path.join(W, "cli")
    os.makedirs(d, exist_ok=True)
    base = "/repo/lib/tests/compile/add.zy"
    src = open(base).read().replace('"../../std/', '"/repo/lib/std/')
    findings, n = [], 0
    junks = ["-/ junk", "/- never closed", "$", "/- a -- b -/\n"] if tier == "quick" else \
        ["-/ junk", "/- never closed", "$", "/- a -- b -/\n", "-/", "/- -/ -/ y", "`", "\""]
    ok = os.path.join(d, "ok.zy")
    open(ok, "w").write(src)
    p = subprocess.run([lib.ZYDECO, "check", ok], capture_output=True, text=True, timeout=120)
    require(p.returncode == 0, "baseline fixture does not check: %s" % p.stderr[-500:])
    for i, j in enumerate(junks):
        path = os.path.join(d, "junk%d.zy" % i)
        text = src + "\n" + j
        open(path, "w").write(text)
        for cmd in (["check"], ["fmt"], ["fmt", "--check"]):
            n += 1
            p = subprocess.run([lib.ZYDECO] + cmd + [path], capture_output=True, text=True, timeout=120)
            after = open(path).read()
            if p.returncode == 0 or after != text:
                findings.append({"property": "C11", "kind": "cli-ignores-suffix",
                                 "detail": "zydeco %s: exit %d, file %s, suffix %r" %
                                           (" ".join(cmd), p.returncode, "modified" if after != text else "unchanged", j),
                                 "suffix": j})
    return findings, n


def run(prop, tier):
    lib.build_harness()
    os.makedirs(W, exist_ok=True)
    out = lib.Outcome(prop, tier, "model_checking")
    cfg = "MC_ZyLexer_5.cfg" if tier == "quick" else "MC_ZyLexer_7.cfg"
    tout = os.path.join(W, "lexer.tlc.out")
    res = lib.run_tlc("ZyLexer.tla", cfg, tout, workers=12, coverage=False, timeout=3000)
    cases = os.path.join(W, "lexer.cases.ndjson")
    n = lib.extract_replay(tout, cases)
    os.remove(tout)
    require(n > 5000, "too few class strings")
    log("[tlc] %s: %d states, %d class strings" % (cfg, res["distinct"], n))
    summ = os.path.join(W, "lexer.summary.json")
    lib.zyconf(["replay-lexer", cases, summ])
    s = json.load(open(summ))
    out.add_findings(s["findings"])
    require(s["classes"].get("accepted", 0) > 0 and s["classes"].get("rejected", 0) > 0, "one verdict only")
    jsum = os.path.join(W, "junk.summary.json")
    lib.zyconf(["junk-suffix", jsum])
    j = json.load(open(jsum))
    out.add_findings(j["findings"])
    require(j["cases"] > 1000, "junk-suffix family too small")
    f, ncli = cli_binding(out, tier)
    out.add_findings(f)
    out.coverage = {"states": res["distinct"], "transitions": res["generated"],
                    "traces_validated_against_impl": s["cases"] + j["cases"] + ncli,
                    "samples": s["samples"], "exhaustive": True,
                    "class_strings": s["cases"], "verdicts": s["classes"], "junk_suffix_cases": j["cases"], "cli_runs": ncli,
                    "explanation": "every string over {Code, Open, Close, Line, Str, Unknown} up to the bound: TLC checks NoSilentTruncation on the "
                                   "lexer machine (stray closer reaches the grammar, EOF inside a comment is an error) and prints emitted positions and "
                                   "must-reject; the real Lexer's token stream, the parser's verdict and the root span are compared; every repository "
                                   "source followed by irregular junk must be rejected and by comments accepted; CLI check/fmt bound on a subsample."}
    out.assumptions = ["TLC 1.8.0", "concretisation table in harness/src/lexer.rs (Code = `x`, application spines parse)"]
    return out.finish()


def replay(prop, path):
    r = json.load(open(path))
    log(json.dumps(r["first"], indent=1)[:3000])
    return 0
