"""C18, C19 — ZySps.tla: IR well-formedness re-validated and the real SPS-low program executed by TLC."""
import json
import os

import lib
from lib import log, require
import p_core

W = os.path.join(lib.WORK, "backend")


def tlc_sps(exports, name, timeout=6000):
    tout = os.path.join(W, name + ".tlc.out")
    res = lib.run_tlc("ZySps.tla", "ZySps.cfg", tout, workers=16, coverage=False, timeout=timeout,
                      extra_env={"PROG": exports}, java_opts="-Xss1g", xmx="24g")
    rows = os.path.join(W, name + ".rows.ndjson")
    lib.extract_replay(tout, rows)
    os.remove(tout)
    wf, results = {}, {}
    for l in open(rows):
        r = json.loads(l)
        (wf if r["k"] == "wf" else results)[r["id"]] = r
    return res, wf, results


WF_KEYS = ["RootClosed", "BlocksClosed", "LabelsUnique", "BranchJoin", "OwnerCount", "NoHoles", "AsmTargets", "AsmSymbols", "AsmLayouts", "EntryCallsAligned"]


def run(prop, tier):
    lib.build_harness()
    os.makedirs(W, exist_ok=True)
    level = "model_checking" if prop == "C18" else "translation_validation"
    out = lib.Outcome(prop, tier, level)
    limit = (160 if tier == "quick" else 3000)
    cfgs = ["wt9"] if tier == "quick" else ["wt10", "wt10b"]
    states = transitions = 0
    programs = lowered = validated = agree = 0
    samples, per = [], {}
    headroom = []
    # sc5: a fix in eliminated position (applied / destructed) that re-enters itself - all of them, not a sample
    for cfg in cfgs + ["sc5", "products"]:
        if cfg == "products":
            # n-ary products with partial patterns (spec/ZyProducts.tla): layouts <product:E/A> with E < A
            pcfg = "MC_ZyProducts_5.cfg" if tier == "quick" else "MC_ZyProducts_7.cfg"
            tout = os.path.join(W, "products.out")
            res0 = lib.run_tlc("ZyProducts.tla", pcfg, tout, workers=4, coverage=False, timeout=3000)
            cases = os.path.join(W, "products.cases.ndjson")
            res0["cases"] = lib.extract_replay(tout, cases)
            os.remove(tout)
            require(res0["cases"] >= 100, "too few product programs")
            this_limit = 0
        else:
            res0, cases = p_core.tlc_cases(cfg)
            this_limit = limit if cfg != "sc5" else (200 if tier == "quick" else 2000)
        exports = os.path.join(W, cfg + ".exports.ndjson")
        summ = os.path.join(W, cfg + ".export.summary.json")
        lib.zyconf(["export-ir", cases, exports, summ, str(this_limit)], timeout=6000)
        s = json.load(open(summ))
        out.add_findings(s["findings"])            # C18: internal errors / panics at any stage; C19: interpreter vs arithmetic
        require(s["lowered"] >= min(this_limit or 100, 100), "only %d programs lowered" % s["lowered"])
        res, wf, results = tlc_sps(exports, cfg)
        recs = {}
        for l in open(exports):
            r = json.loads(l)
            recs[r["id"]] = {"interp": r["interp"], "source_body": r["source_body"], "fuel": r.get("fuel", 0)}
        os.remove(exports)
        states += res["distinct"] + res0["distinct"]
        transitions += res["generated"] + res0["generated"]
        programs += s["programs"]
        lowered += s["lowered"]
        require(len(wf) == len(recs), "TLC validated %d of %d exports" % (len(wf), len(recs)))
        for pid, w in wf.items():
            validated += 1
            bad = [k for k in WF_KEYS if not w[k]]
            if bad:
                out.add_findings([{"property": "C18", "kind": "ir-invariant-violated", "detail": "%s false for %s" % (", ".join(bad), recs[pid]["source_body"][:300]),
                                   "source": recs[pid]["source_body"]}])
        for pid, rec in recs.items():
            r = results.get(pid)
            if r is None:
                raise lib.ToolError("no machine result for program %s" % pid)
            want, got = rec["interp"], r["res"]
            outw = want["out"]
            outg = "".join(x + "\n" for x in r["out"])
            if got["end"] == "unsupported-extern":
                raise lib.ToolError("ZySps has no meaning for extern %s" % got.get("f"))
            ok = False
            if rec.get("fuel") and got["end"] != "fuel":
                headroom.append(r["steps"] / rec["fuel"])
            if want["end"] == "running":
                ok = outw.startswith(outg) or outg.startswith(outw)      # the source diverges within its fuel: prefix consistency only
            elif got["end"] == "fuel":
                # the source terminates (reference semantics AND interpreter) but its SPS-low form is still running after
                # 60 x (source steps + 60) machine steps; terminating runs use a small part of that (fuel_used_max in the evidence)
                ok = False
            elif got["end"] == "exit":
                ok = want["end"] == "exit" and want["code"] == got["code"] and outw == outg
            elif got["end"] == "trap":
                ok = want["end"] == "trap" and outw == outg
            if ok:
                agree += 1
            else:
                out.add_findings([{"property": "C19", "kind": "sps-low-program-stuck" if got["end"] == "stuck" else ("sps-low-does-not-terminate" if got["end"] == "fuel" else "sps-low-behaviour-differs"),
                                   "detail": "interpreter: %s; SPS-low machine: %s out=%r" % (json.dumps(want), json.dumps(got), outg),
                                   "source": rec["source_body"]}])
            if len(samples) < 4 and pid % 37 == 0:
                samples.append({"source": rec["source_body"][:400], "interpreter": want, "sps_low_machine": got, "steps": r["steps"]})
        per[cfg] = {"programs": s["programs"], "lowered": s["lowered"], "llvm_unsupported_local": s["llvm_unsupported"],
                    "machine_states": res["distinct"]}
    if prop == "C18":
        # the repository's own executables: every stage without internal error, exports re-validated
        csum = os.path.join(W, "corpus.summary.json")
        cexp = os.path.join(W, "corpus.exports.ndjson")
        lib.zyconf(["corpus-lower", csum, cexp], timeout=6000)
        c = json.load(open(csum))
        out.add_findings(c["findings"])
        require(c["classes"].get("executable", 0) >= 50, "corpus has too few executables: %s" % c["classes"])
        if tier == "thorough":
            res, wf, _ = tlc_sps(cexp, "corpus")
            states += res["distinct"]
            for pid, w in wf.items():
                validated += 1
                bad = [k for k in WF_KEYS if not w[k]]
                if bad:
                    out.add_findings([{"property": "C18", "kind": "ir-invariant-violated", "detail": "%s false for corpus program %s" % (", ".join(bad), pid)}])
        os.remove(cexp)
        per["corpus"] = c["classes"]
    out.coverage = {"states": max(states, 1), "transitions": max(transitions, 1), "traces_validated_against_impl": validated,
                    "samples": samples or [{"note": "see configurations"}], "programs": lowered, "disagreements_checked": lowered,
                    "configurations": per, "ir_exports_validated_by_tlc": validated, "behaviour_agreements": agree,
                    "fuel_used_max": round(max(headroom), 4) if headroom else None,
                    "explanation": "accepted executables of the ZyCore enumeration (largest + seeded sample) are lowered by the real pipeline through every stage "
                                   "(panics/errors are findings; LlvmUnsupportedLocal is the documented exception); the real SpsLowProgram and AssemblyProgram "
                                   "arenas are exported and TLC evaluates the invariants of ZySps.tla on them and executes the SPS-low program with its reference "
                                   "semantics; result and output must equal the interpreter's."}
    out.assumptions = ["TLC 1.8.0", "exporter harness/src/backend.rs (ids by Debug)", "host operations used by the corpus have one shared meaning (ZyCore/ZySps)",
                       "assembly, AMD64 and LLVM are validated structurally, not executed"]
    return out.finish()


def replay(prop, path):
    r = json.load(open(path))
    log(json.dumps(r["first"], indent=1)[:4000])
    return 0
