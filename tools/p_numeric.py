"""C05 — ZyNumeric.tla: fixed-width integer semantics, literal ranges, float comparison branches."""
import json
import os

import lib
from lib import log, require

W = os.path.join(lib.WORK, "numeric")


def run(prop, tier):
    lib.build_harness()
    os.makedirs(W, exist_ok=True)
    out = lib.Outcome(prop, tier, "model_checking")
    states = transitions = 0
    per = {}
    tasks = ["laws", "table8", "wide", "literals", "floats"]
    allcases = os.path.join(W, "all.cases.ndjson")
    with open(allcases, "w") as dest:
        for t in tasks:
            tout = os.path.join(W, t + ".tlc.out")
            res = lib.run_tlc("ZyNumeric.tla", "MC_ZyNumeric_%s.cfg" % t, tout, workers=12, coverage=False, timeout=3000,
                              java_opts="-Xss1g")
            cases = os.path.join(W, t + ".cases.ndjson")
            n = lib.extract_replay(tout, cases)
            os.remove(tout)
            if t != "laws":
                require(n > 100, "task %s produced only %d rows" % (t, n))
                dest.write(open(cases).read())
            states += res["distinct"]
            transitions += res["generated"]
            per[t] = {"tlc_states": res["distinct"], "rows": n, "wall_s": res["wall_s"]}
            log("[tlc] %s: %d states, %d rows, %.0fs" % (t, res["distinct"], n, res["wall_s"]))
    summ = os.path.join(W, "numeric.summary.json")
    lib.zyconf(["replay-numeric", allcases, summ], timeout=3000)
    s = json.load(open(summ))
    out.add_findings(s["findings"])
    require(s["applications"] > 1000000, "fewer host applications than the 8-bit tables need: %d" % s["applications"])
    dsum = os.path.join(W, "discipline.summary.json")
    lib.zyconf(["literal-discipline", dsum])
    d = json.load(open(dsum))
    out.add_findings(d["findings"])
    out.coverage = {"states": states, "transitions": transitions, "traces_validated_against_impl": s["applications"] + d["cases"],
                    "samples": s["samples"], "tasks": per, "table_rows": s["rows"], "host_applications": s["applications"],
                    "exhaustive": True,
                    "explanation": "bit-vector operators are checked by TLC against mathematics for all operand pairs at W=4,5 (all ops) and W=8 "
                                   "(add/sub/compare, division laws, MIN/-1, to_string, digit-string range predicate); TLC then prints every operand pair "
                                   "of Int8/UInt8 for every operation (2 x 8 x 65536 + to_string), 18^2 boundary pairs for each wider type and operation, "
                                   "literal strings around every range boundary and float comparison branches over special values; each row is applied "
                                   "on the real Runtime (hand-built Prim application) or analysed+run by the real tool chain."}
    out.assumptions = ["TLC 1.8.0", "IEEE arithmetic results, float printing and Float32 narrowing are not decided by the model (see level_note)"]
    return out.finish()


def replay(prop, path):
    r = json.load(open(path))
    log(json.dumps(r["first"], indent=1)[:4000])
    return 0
