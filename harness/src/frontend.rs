//! C10: the front end is total.  Inputs (TLC-generated lexeme sequences, byte strings, token-level mutants of
//! every repository source) are pushed through the in-process pipeline (overlay root in a directory that also
//! offers a valid provider), diagnostics are rendered the way the CLI does, and one outcome record per input is
//! written for the monitor spec/ZyFrontendTrace.tla.
use crate::common::*;
use serde_json::{Value, json};
use zydeco_session::{AnalysisError, AnalysisOutcome, SourceCaches};

/// The vocabulary: index (1-based in TLA+) -> lexeme.  Classes for ZyFrontend's constants are derived below.
pub const VOCAB: &[&str] = &[
    "end", "begin", "data", "codata", "as", "def", "define", "let", "param", "in", "that", "do", "ret", "fn", "pi", "fix", "match", "comatch",
    "forall", "sigma", "exists",
    "T", "x", "+C", ".d",
    "1", "-0", "+007", "999999999999999999999999999999999999999999999", "1.5", "1e309", "2e5", "\"s\"", "\"\\n\\q\"", "\"abc", "'a'", "'\\n'", "'ab'",
    "(", ")", "[", "]", "{", "}", ",", ":", "::", "=", ";", "!", "/", "|", "+", "*", ".", "=>", "->", "<-", "_", "@",
    "--| doc\n", "-- c\n", "/-", "-/", "$", "\u{a0}",
    "@[import(\"lib.zy\")]", "@(import(99999999999999999999))", "@[debug(\"d\")]", "@[monadic]", "@[format(width(1))]", "@[builtin(exit)]", "@[literal]",
    "@[doc]", "@(import(\"lib.zy\"))",
];
/// Sub-vocabulary around binders, destructors and metadata (longer sequences).
pub const SUBVOCAB: &[&str] = &["fn", "x", ".d", "=>", "(", ")", "!", "_", "codata", "|", "end", ":", "@[debug(\"d\")]", "let", "=", "in"];

pub fn vocab_classes(vocab: &[&str]) -> Value {
    let ix = |pred: &dyn Fn(&str) -> bool| -> Vec<usize> { vocab.iter().enumerate().filter(|(_, l)| pred(l)).map(|(i, _)| i + 1).collect() };
    json!({"V": vocab.len(), "open": ix(&|l| l == "/-"), "close": ix(&|l| l == "-/"), "line": ix(&|l| l.starts_with("--")),
        "unknown": ix(&|l| l == "$" || l == "\u{a0}" || l == "\"abc" || l == "'ab'")})
}

#[derive(Clone)]
pub struct Outcome {
    pub phase: &'static str,
    pub outcome: &'static str,
    pub spans_ok: bool,
    pub detail: String,
}

/// Run the whole pipeline on `text` installed as the root `case.zy`.
pub fn pipeline(an: &mut Analyzer, text: &str) -> Outcome {
    let path = an.path("case.zy");
    an.install("case.zy", text);
    let t0 = std::time::Instant::now();
    let session = &an.session;
    let r = guarded(|| {
        let result = session.analyze(&path);
        // render diagnostics exactly as the CLI does, into a buffer; collect the ranges they mention
        let mut spans_ok = true;
        let mut check_range = |file: &std::path::Path, range: &std::ops::Range<usize>, a: Option<&zydeco_session::ProgramAnalysis>| {
            let len = a.and_then(|a| a.source(file)).map(|s| s.len()).or_else(|| std::fs::read_to_string(file).ok().map(|s| s.len()));
            let len = if file.file_name().map(|f| f == "case.zy").unwrap_or(false) { Some(text.len()) } else { len };
            match len {
                | Some(len) => {
                    if !(range.start <= range.end && range.end <= len) {
                        spans_ok = false;
                    }
                }
                | None => spans_ok = false, // a diagnostic names a file that is not a loaded source
            }
        };
        let (phase, outcome): (&'static str, &'static str) = match &result {
            | Ok(a) => match a.outcome() {
                | AnalysisOutcome::Checked { .. } => ("check", "success"),
                | AnalysisOutcome::Rejected { reports } => {
                    for s in reports.spans.iter().flatten() {
                        check_range(s.0.as_path(), &s.1, Some(a));
                    }
                    for r in reports.reports.iter() {
                        let mut buf: Vec<u8> = Vec::new();
                        let _ = r.write(SourceCaches::analysis(a), &mut buf);
                    }
                    ("check", "diagnostic")
                }
            },
            | Err(AnalysisError::Source { error }) => {
                let _ = error.to_string();
                ("parse", "diagnostic")
            }
            | Err(AnalysisError::TextualProgram { error }) => {
                let _ = error.to_string();
                ("assemble", "diagnostic")
            }
            | Err(AnalysisError::Desugar { error }) => {
                let _ = error.to_string();
                ("desugar", "diagnostic")
            }
            | Err(AnalysisError::Resolve { error, graph }) => {
                let mut buf: Vec<u8> = Vec::new();
                let _ = error.to_report().write(SourceCaches::graph(graph), &mut buf);
                ("resolve", "diagnostic")
            }
        };
        (phase, outcome, spans_ok)
    });
    let elapsed = t0.elapsed();
    match r {
        | Ok((phase, outcome, spans_ok)) => {
            if elapsed.as_secs() >= 20 {
                Outcome { phase, outcome: "timeout", spans_ok, detail: format!("{elapsed:?}") }
            } else {
                Outcome { phase, outcome, spans_ok, detail: String::new() }
            }
        }
        | Err(p) => {
            an.reset_session();
            let phase = if p.file.contains("parser") || p.file.contains("textual") { "parse" }
                else if p.file.contains("bitter") { "desugar" }
                else if p.file.contains("scoped") { "resolve" }
                else if p.file.contains("diagnostics") || p.file.contains("ariadne") { "render" }
                else { "check" };
            Outcome { phase, outcome: "panic", spans_ok: true, detail: format!("{} @ {}", p.message, p.file) }
        }
    }
}

fn record(o: &Outcome, mustreject: bool) -> Value {
    json!({"phase": o.phase, "outcome": o.outcome, "spans_ok": o.spans_ok, "mustreject": mustreject})
}
fn finding(o: &Outcome, family: &str, input: &str, mustreject: bool) -> Option<Value> {
    let kind = match (o.outcome, o.spans_ok) {
        | ("panic", _) => "front-end-panic",
        | ("timeout", _) => "front-end-hang",
        | (_, false) => "diagnostic-location-outside-file",
        | ("success", _) if mustreject => "lexically-irregular-input-accepted",
        | _ => return None,
    };
    Some(json!({"property":"C10","kind":kind,"detail": if o.detail.is_empty() { format!("{} at phase {}", o.outcome, o.phase) } else { o.detail.clone() },
        "family": family, "input": input.chars().take(400).collect::<String>()}))
}

/// zyconf fuzz-frontend CASES(ndjson of {input:[ix..], mustreject, vocab:"main"|"sub"}) TRACE SUMMARY BYTES MUTANTS_PER_FILE
pub fn fuzz_frontend(cases_path: &str, trace_path: &str, summary_path: &str, nbytes: usize, mutants: usize) {
    let seed = seed_from_env();
    // family 1: TLC-generated lexeme sequences
    let cases = read_ndjson(std::path::Path::new(cases_path));
    let mut inputs: Vec<(String, String, bool)> = Vec::new(); // (family, text, mustreject)
    for c in &cases {
        if let Some(text) = c["text"].as_str() {
            // family 1b: syntactically valid terms enumerated by spec/ZyFormat.tla, as written and with their names bound
            inputs.push(("trees".into(), text.to_string(), false));
            inputs.push(("trees-closed".into(), format!("fn a f g x y => ({text})"), false));
            continue;
        }
        let vocab = if c["vocab"] == "sub" { SUBVOCAB } else { VOCAB };
        let text: String = c["input"].as_array().unwrap().iter().map(|i| vocab[i.as_u64().unwrap() as usize - 1]).collect::<Vec<_>>().join(" ");
        inputs.push(("lexemes".into(), text, c["mustreject"].as_bool().unwrap()));
    }
    // family 2: byte strings (invalid UTF-8 is lossily decoded, as a file read would fail earlier), NUL, CR, BOM
    let mut rng = Rng(seed ^ 0xB17E5);
    for _ in 0..nbytes {
        let len = rng.below(24);
        let bytes: Vec<u8> = (0..len).map(|_| {
            let pool: &[u8] = b"()[]{}!@_|+-*/.,:;=<>\"'\\ \n\r\t\0ax1TC\xef\xbb\xbf\xc3\xa9\xf0\x9f";
            pool[rng.below(pool.len())]
        }).collect();
        inputs.push(("bytes".into(), String::from_utf8_lossy(&bytes).into_owned(), false));
    }
    // family 3: token-level mutants of repository sources
    let files = crate::corpus::source_files();
    for (fi, f) in files.iter().enumerate() {
        let Ok(src) = std::fs::read_to_string(f) else { continue };
        if src.len() > 6000 {
            continue;
        }
        let src = src.replace("\"../../std/", "\"/repo/lib/std/").replace("\"../std/", "\"/repo/lib/std/");
        let mut rng = Rng(seed ^ (fi as u64 + 1).wrapping_mul(0x9E3779B97F4A7C15));
        let mut made = 0;
        let mut tries = 0;
        while made < mutants && tries < mutants * 5 {
            tries += 1;
            let toks = crate::corpus::coarse_tokens(&src);
            let m = match rng.below(4) {
                | 0 => crate::corpus::mutate(&src, &mut rng),
                | 1 => { let mut t = toks.clone(); let i = rng.below(t.len()); t.remove(i); Some(t.concat()) }          // delete
                | 2 => { let mut t = toks.clone(); let i = rng.below(t.len()); let x = t[i].clone(); t.insert(i, x); Some(t.concat()) } // duplicate
                | _ => { let mut t = toks.clone(); let i = rng.below(t.len()); t[i] = VOCAB[rng.below(VOCAB.len())].to_string(); Some(t.concat()) } // replace by a vocabulary lexeme
            };
            if let Some(m) = m {
                made += 1;
                inputs.push((format!("mutant of {}", f.file_name().unwrap().to_string_lossy()), m, false));
            }
        }
    }
    let inflight = format!("{}.inflight", summary_path);
    let _ = std::fs::remove_dir_all(&inflight);
    std::fs::create_dir_all(&inflight).expect("mkdir inflight");
    let results: Vec<(Value, Option<Value>, &'static str)> = par_map_with(
        &inputs,
        threads(),
        |tid| {
            let mut an = Analyzer::new(&format!("fe{tid}"));
            an.install("lib.zy", "()");
            (an, format!("{inflight}/{tid}.txt"))
        },
        |(an, marker), _idx, (family, text, mustreject)| {
            // a stack overflow of the code under test cannot be caught: it aborts this process.  Each worker leaves the
            // input it is working on in a marker file, and the driver confirms the culprit on the real binary.
            let _ = std::fs::write(&*marker, format!("{family}\n{text}"));
            let o = pipeline(an, text);
            (record(&o, *mustreject), finding(&o, family, text, *mustreject), o.outcome)
        },
        |(an, marker)| {
            let _ = std::fs::remove_file(marker);
            an.cleanup()
        },
    );
    let mut trace = String::new();
    let mut findings = Vec::new();
    let mut classes: std::collections::BTreeMap<&str, usize> = Default::default();
    for (rec, f, c) in results {
        trace.push_str(&serde_json::to_string(&rec).unwrap());
        trace.push('\n');
        findings.extend(f);
        *classes.entry(c).or_default() += 1;
    }
    std::fs::write(trace_path, trace).expect("write trace");
    let samples: Vec<Value> = inputs.iter().step_by((inputs.len() / 5).max(1)).take(5).map(|(f, t, _)| json!({"family": f, "input": t.chars().take(120).collect::<String>()})).collect();
    std::fs::write(summary_path, serde_json::to_string_pretty(&json!({"inputs": inputs.len(), "classes": classes, "findings": findings, "samples": samples})).unwrap()).expect("write");
    println!("fuzz-frontend: inputs={} classes={classes:?} findings={}", inputs.len(), findings.len());
}

/// zyconf vocab-classes : print the constants for ZyFrontend's configurations
pub fn print_vocab() {
    println!("{}", json!({"main": vocab_classes(VOCAB), "sub": vocab_classes(SUBVOCAB)}));
}
