//! C18 / C19: every accepted executable of the ZyCore corpus (and of the repository) is lowered through
//! stack IR, closure conversion, assembly, AMD64 and LLVM under catch_unwind; the real SpsLowProgram and
//! AssemblyProgram are exported as JSON.  spec/ZySps.tla re-validates their invariants (C18) and EXECUTES
//! the SPS-low program with its reference semantics; the result must equal the interpreter's (C19).
use crate::common::*;
use crate::core::{Ann, Naming, Renderer, parse};
use serde_json::{Map, Value as J, json};
use std::path::Path;
use zydeco_cli::{BackendProgram, CompileError, TargetArchitecture, TargetOs};
use zydeco_stackir::sps_low::syntax::*;

fn k<T: std::fmt::Debug>(id: &T) -> String {
    format!("{id:?}").replace(' ', "")
}
fn lit(l: &Literal) -> J {
    match l {
        | Literal::Integer(i) => json!({"l":"int","n": i.value() as i64}),
        | Literal::String(s) => json!({"l":"str","s": s.as_str()}),
        | Literal::Char(c) => json!({"l":"char","s": c.to_string()}),
        | Literal::Float(f) => json!({"l":"float","s": format!("{f:?}")}),
    }
}

pub fn export_sps_low(b: &BackendProgram) -> J {
    let arena = b.sps_low.arena();
    let inner = &arena.inner;
    let mut vp = Map::new();
    for (id, p) in inner.vpats.iter() {
        vp.insert(k(id), match p {
            | ValuePattern::Hole(_) => json!({"k":"hole"}),
            | ValuePattern::Var(d) => json!({"k":"var","d":k(d)}),
            | ValuePattern::Ctor(Ctor(c, p)) => json!({"k":"ctor","idx":c.idx,"p":k(p)}),
            | ValuePattern::Alias(Alias(ps)) => json!({"k":"alias","ps": ps.iter().map(k).collect::<Vec<_>>()}),
            | ValuePattern::Triv(_) => json!({"k":"triv"}),
            | ValuePattern::VCons(VCons { items, layout }) => json!({"k":"vcons","ps": items.iter().map(k).collect::<Vec<_>>(), "arity": layout.arity}),
        });
    }
    let mut vals = Map::new();
    for (id, v) in inner.values.iter() {
        vals.insert(k(id), match v {
            | Value::Hole(_) => json!({"k":"hole"}),
            | Value::Var(d) => json!({"k":"var","d":k(d)}),
            | Value::Block(Block { label, body }) => json!({"k":"block","label":k(label),"body":k(body)}),
            | Value::ClosurePackage(ClosurePackage { environment, code }) => json!({"k":"clo","env":k(environment),"code":k(code)}),
            | Value::Ctor(Ctor(c, v)) => json!({"k":"ctor","idx":c.idx,"v":k(v)}),
            | Value::Triv(_) => json!({"k":"triv"}),
            | Value::VCons(VCons { items, layout }) => json!({"k":"vcons","vs": items.iter().map(k).collect::<Vec<_>>(), "arity": layout.arity}),
            | Value::Literal(l) => json!({"k":"lit","lit": lit(l)}),
            | Value::Complex(Complex { operator, operands }) => json!({"k":"complex","op":operator,"vs": operands.iter().map(k).collect::<Vec<_>>()}),
        });
    }
    let mut stks = Map::new();
    for (id, s) in inner.stacks.iter() {
        stks.insert(k(id), match s {
            | Stack::Var(_) => json!({"k":"bullet"}),
            | Stack::Arg(Cons(v, s)) => json!({"k":"arg","v":k(v),"s":k(s)}),
            | Stack::Tag(Cons(d, s)) => json!({"k":"tag","idx":d.idx,"s":k(s)}),
            | Stack::ContinuationPackage(ContinuationPackage { code, residual }) => json!({"k":"kont","code":k(code),"s":k(residual)}),
        });
    }
    let mut cs = Map::new();
    for (id, c) in inner.compus.iter() {
        cs.insert(k(id), match c {
            | Computation::Hole(SHole(s)) => json!({"k":"hole","s":k(s)}),
            | Computation::Jump(Jump { target, stack }) => json!({"k":"jump","v":k(target),"s":k(stack)}),
            | Computation::ProductMatch(SProductMatch { scrut, binder, body }) => json!({"k":"pmatch","v":k(scrut),"p":k(binder),"c":k(body)}),
            | Computation::CoprodMatch(SCoprodMatch { scrut, arms }) => json!({"k":"cmatch","v":k(scrut),"arms": arms.iter().map(|m| json!({"p":k(&m.binder),"c":k(&m.tail)})).collect::<Vec<_>>()}),
            | Computation::LetValue(LetValue { binder, bindee, body }) => json!({"k":"letv","p":k(binder),"v":k(bindee),"c":k(body)}),
            | Computation::LetStack(LetStack { bindee, body }) => json!({"k":"lets","s":k(bindee),"c":k(body)}),
            | Computation::LetArg(LetArg { binder, bindee, body }) => json!({"k":"leta","p":k(binder),"s":k(bindee),"c":k(body)}),
            | Computation::CoCase(SCoMatch { scrut, arms }) => json!({"k":"cocase","s":k(scrut),"arms": arms.iter().map(|m| json!({"idx":m.dtor.0.idx,"c":k(&m.tail)})).collect::<Vec<_>>()}),
            | Computation::OpenClosure(OpenClosure { package, environment, code, body }) => json!({"k":"openclo","v":k(package),"pe":k(environment),"pc":k(code),"c":k(body)}),
            | Computation::OpenContinuation(OpenContinuation { package, code, body }) => json!({"k":"openkont","s":k(package),"pc":k(code),"c":k(body)}),
            | Computation::ExternCall(ExternCall { function, stack }) => json!({"k":"extern","f":function,"arity": arena.admin.builtins[function].arity, "s":k(stack)}),
        });
    }
    json!({"root": k(&b.sps_low.root()), "vpats": vp, "values": vals, "stacks": stks, "compus": cs})
}

pub fn export_assembly(b: &BackendProgram) -> J {
    use zydeco_assembly::syntax as a;
    let arena = &b.assembly.arena;
    let atom = |x: &a::Atom| -> J {
        match x {
            | a::Atom::Var(v) => json!({"k":"var","v":k(v)}),
            | a::Atom::Sym(s) => json!({"k":"sym","s":k(s)}),
            | a::Atom::Imm(_) => json!({"k":"imm"}),
        }
    };
    let layout = |l: &a::ProductLayout| json!({"arity": l.arity, "elements": l.elements, "fields": l.fields.len()});
    let mut progs = Map::new();
    for (id, p) in arena.programs.iter() {
        let v = match p {
            | a::Program::Terminator(t) => match t {
                | a::Terminator::Jump(a::Jump(t)) => json!({"k":"jump","t":k(t)}),
                | a::Terminator::PopJump(_) => json!({"k":"popjump"}),
                | a::Terminator::PopBranch(a::PopBranch(arms)) => json!({"k":"popbranch","arms": arms.iter().map(|(tag, t)| json!({"idx": tag.idx, "t": k(t)})).collect::<Vec<_>>()}),
                | a::Terminator::Abort(_) => json!({"k":"abort"}),
                | a::Terminator::Extern(e) => json!({"k":"extern","name": e.name, "arity": e.arity}),
            },
            | a::Program::Instruction(i, next) => {
                let ins = match i {
                    | a::Instruction::PackProduct(a::Pack(l)) => json!({"i":"pack","layout":layout(l)}),
                    | a::Instruction::UnpackProduct(a::Unpack(l)) => json!({"i":"unpack","layout":layout(l)}),
                    | a::Instruction::AllocContext(_) => json!({"i":"alloc"}),
                    | a::Instruction::PushArg(a::Push(x)) => json!({"i":"pusharg","atom":atom(x)}),
                    | a::Instruction::PopArg(a::Pop(v)) => json!({"i":"poparg","v":k(v)}),
                    | a::Instruction::PushTag(a::Push(t)) => json!({"i":"pushtag","idx":t.idx}),
                    | a::Instruction::Intrinsic(x) => json!({"i":"intrinsic","name":x.name}),
                    | a::Instruction::Clear(_) => json!({"i":"clear"}),
                };
                json!({"k":"instr","ins":ins,"next":k(next)})
            }
        };
        progs.insert(k(id), v);
    }
    let mut syms = Map::new();
    for (id, s) in arena.symbols.iter() {
        syms.insert(k(id), match &s.inner {
            | a::Symbol::Undefined(_) => json!({"name": s.name, "k":"undef"}),
            | a::Symbol::Prog(p) => json!({"name": s.name, "k":"prog","p":k(p)}),
            | a::Symbol::StringLiteral(_) => json!({"name": s.name, "k":"str"}),
        });
    }
    let vars: Vec<String> = arena.variables.iter().map(|(id, _)| k(id)).collect();
    json!({"root": k(&b.assembly.root), "progs": progs, "syms": syms, "vars": vars})
}

/// Light syntactic scan of emitted text: every referenced local label is defined exactly once.
/// The branch-free code after `entry:` of the emitted AMD64 text, abstracted to what moves rsp by an odd number of
/// words ("flip": push, pop, `sub|add rsp, K` with K/8 odd) and to calls.  spec/ZySps.tla decides alignment on it.
fn entry_stack_ops(text: &str) -> Vec<&'static str> {
    let mut ops = Vec::new();
    let mut on = false;
    for line in text.lines() {
        let t = line.trim();
        if !on {
            on = t == "entry:";
            continue;
        }
        if t.is_empty() || t.starts_with(";;;") {
            continue;
        }
        if t.ends_with(':') {
            break;
        }
        let mut it = t.split_whitespace();
        match it.next().unwrap_or("") {
            | "push" | "pop" => ops.push("flip"),
            | "sub" | "add" if it.next() == Some("rsp,") => {
                let k = it.next().unwrap_or("0");
                let k = if let Some(h) = k.strip_prefix("0x") { i64::from_str_radix(h, 16).unwrap_or(0) } else { k.parse::<i64>().unwrap_or(0) };
                if (k / 8) % 2 != 0 {
                    ops.push("flip");
                }
            }
            | "call" => ops.push("call"),
            | "jmp" | "ret" => break,
            | _ => {}
        }
    }
    ops
}

fn scan_amd64(text: &str) -> Option<String> {
    let mut defined: std::collections::BTreeMap<String, usize> = Default::default();
    let mut referenced: std::collections::BTreeSet<String> = Default::default();
    let mut externs: std::collections::BTreeSet<String> = Default::default();
    for line in text.lines() {
        let l = line.trim();
        if l.starts_with('#') || l.starts_with("//") || l.is_empty() {
            continue;
        }
        if let Some(name) = l.strip_suffix(':') {
            if !name.contains(' ') {
                *defined.entry(name.to_string()).or_default() += 1;
            }
            continue;
        }
        if let Some(rest) = l.strip_prefix(".extern").or(l.strip_prefix("extern")) {
            externs.insert(rest.trim().to_string());
            continue;
        }
        let mut it = l.split_whitespace();
        let op = it.next().unwrap_or("");
        if ["jmp", "je", "jne", "call", "jz", "jnz", "jl", "jg", "jle", "jge"].contains(&op) {
            if let Some(t) = it.next() {
                let t = t.trim_start_matches('*');
                let reg = ["rax", "rbx", "rcx", "rdx", "rsi", "rdi", "rbp", "rsp", "r8", "r9", "r10", "r11", "r12", "r13", "r14", "r15"].contains(&t);
                if !reg && !t.starts_with('%') && !t.starts_with('[') && !t.contains('(') && !t.contains('@') {
                    referenced.insert(t.to_string());
                }
            }
        }
    }
    for (n, c) in &defined {
        if *c > 1 {
            return Some(format!("label `{n}` defined {c} times"));
        }
    }
    for r in &referenced {
        if !defined.contains_key(r) && !externs.contains(r) && !externs.iter().any(|e| e.trim_start_matches('_') == r.trim_start_matches('_')) {
            return Some(format!("jump/call target `{r}` is neither a defined label nor a declared extern"));
        }
    }
    None
}

pub struct Lowered {
    pub findings: Vec<J>,
    pub record: Option<J>,
    pub llvm_unsupported: bool,
}

/// Lower one accepted executable through every stage; panics and errors are data.
pub fn lower_all(session: &zydeco_session::CompilerSession, analysis: &zydeco_session::ProgramAnalysis, what: &J, src: &str) -> Lowered {
    let mut findings = Vec::new();
    let mk = |prop: &str, kind: &str, detail: String| json!({"property":prop,"kind":kind,"detail":detail,"case":what,"source":src});
    let exe = match session.executable_program(analysis) {
        | Ok(e) => e,
        | Err(_) => return Lowered { findings, record: None, llvm_unsupported: false },
    };
    let b = match guarded(|| BackendProgram::lower(exe)) {
        | Ok(Ok(b)) => b,
        | Ok(Err(e)) => {
            findings.push(mk("C18", "lowering-error", format!("BackendProgram::lower: {e}")));
            return Lowered { findings, record: None, llvm_unsupported: false };
        }
        | Err(p) => {
            findings.push(mk("C18", "lowering-panic", format!("{} @ {}", p.message, p.file)));
            return Lowered { findings, record: None, llvm_unsupported: false };
        }
    };
    let mut llvm_unsupported = false;
    let stage = |name: &str, f: &dyn Fn() -> Result<String, String>, findings: &mut Vec<J>| -> Option<String> {
        match guarded(f) {
            | Ok(Ok(t)) => Some(t),
            | Ok(Err(e)) => {
                findings.push(mk("C18", "emit-error", format!("{name}: {e}")));
                None
            }
            | Err(p) => {
                findings.push(mk("C18", "emit-panic", format!("{name}: {} @ {}", p.message, p.file)));
                None
            }
        }
    };
    stage("render_sps_low", &|| Ok(b.render_sps_low()), &mut findings);
    stage("render_assembly", &|| Ok(b.render_assembly()), &mut findings);
    let mut entry_ops: Vec<&'static str> = Vec::new();
    for os in [TargetOs::Linux, TargetOs::Macos] {
        if let Some(text) = stage(&format!("emit_amd64 {os:?}"), &|| Ok(b.emit_amd64(os)), &mut findings) {
            if let Some(d) = scan_amd64(&text) {
                findings.push(mk("C18", "amd64-text-ill-formed", format!("{os:?}: {d}")));
            }
            if os == TargetOs::Linux {
                entry_ops = entry_stack_ops(&text);
            }
        }
    }
    for (arch, os) in [(TargetArchitecture::X86_64, TargetOs::Linux), (TargetArchitecture::Aarch64, TargetOs::Macos)] {
        let r = guarded(|| b.emit_llvm(arch, os));
        match r {
            | Ok(Ok(_)) => {}
            | Ok(Err(CompileError::LlvmUnsupportedLocal { .. })) => llvm_unsupported = true, // "where supported"
            | Ok(Err(e)) => findings.push(mk("C18", "emit-error", format!("emit_llvm {arch:?} {os:?}: {e}"))),
            | Err(p) => findings.push(mk("C18", "emit-panic", format!("emit_llvm: {} @ {}", p.message, p.file))),
        }
    }
    let record = json!({"low": export_sps_low(&b), "asm": export_assembly(&b), "amd64_entry": entry_ops});
    Lowered { findings, record: Some(record), llvm_unsupported }
}

/// zyconf export-ir CASES OUT_NDJSON SUMMARY LIMIT : ZyCore cases -> lowered IR exports + interpreter observation
/// A program of spec/ZyProducts.tla as source text (appended to core::PRELUDE).
fn render_product(c: &J) -> String {
    let n = c["n"].as_u64().unwrap() as usize;
    let k = c["k"].as_u64().unwrap() as usize;
    let boxed = c["first"] == "boxed";
    let tuple = (1..=n).map(|i| if boxed && i == 1 { "+Bx(1)".to_string() } else { i.to_string() }).collect::<Vec<_>>().join(", ");
    let tuple_ty = (1..=n).map(|i| if boxed && i == 1 { "Bx" } else { "Int64" }).collect::<Vec<_>>().join(" * ");
    let rest_is_int = n - k == 1;
    let then = c["then"].as_str().unwrap();
    let mut names: Vec<String> = (1..=k).map(|i| format!("x{i}")).collect();
    let pat = if boxed {
        format!("(+Bx(x1){}, rest)", names[1..].iter().map(|x| format!(", {x}")).collect::<String>())
    } else {
        format!("({}, rest)", names.join(", "))
    };
    let mut pre = String::new();
    if then == "unpackrest" {
        let ys: Vec<String> = (k + 1..=n).map(|i| format!("y{i}")).collect();
        pre.push_str(&format!("let ({}) = rest in\n", ys.join(", ")));
        names.extend(ys);
    } else if rest_is_int {
        names.push("rest".into());
    }
    // the sum of the named components, then exit with it
    let mut chain = String::new();
    let mut acc = names[0].clone();
    for (j, nm) in names.iter().enumerate().skip(1) {
        chain.push_str(&format!("do s{j} <- ! (int64/add) {acc} {nm};\n"));
        acc = format!("s{j}");
    }
    let finish = format!("{chain}! (process/exit) {acc}");
    let after = match then {
        | "exit" | "unpackrest" => format!("{pre}{finish}"),
        | "match" => format!("match b\n| +T(_) => {finish}\n| +F(i) => ! (process/exit) 99\nend"),
        | _ => format!("let u = ({}, rest) in\nlet c : B = +F(x1) in\n{chain}match c\n| +T(_) => ! (process/exit) 98\n| +F(i) => ! (process/exit) {acc}\nend", (1..=k).map(|i| format!("x{i}")).collect::<Vec<_>>().join(", ")),
    };
    let body = format!("let {pat} = t in\n{after}");
    let placed = match c["where"].as_str().unwrap() {
        | "entry" => body,
        | "afterdo" => format!("do z <- ret 0;\n{body}"),
        | _ => format!("! {{ {body} }}"),
    };
    if boxed {
        return format!("let Bx = data | +Bx : Int64 end in\nlet b : B = +T() in\nlet t : {tuple_ty} = ({tuple}) in\n{placed}\n");
    }
    format!("let b : B = +T() in\nlet t = ({tuple}) in\n{placed}\n")
}

pub fn export_ir(cases_path: &str, out_path: &str, summary_path: &str, limit: usize) {
    let mut cases: Vec<J> = read_ndjson(Path::new(cases_path)).into_iter().filter(|c| c["res"]["verdict"] == "accept" || c.get("n").is_some()).collect();
    // seeded subsample that keeps the largest programs (they exercise most formers)
    let seed = seed_from_env();
    if limit > 0 && cases.len() > limit {
        // The sample must not be blind to a way of composing formers: first cover every (parent former, child
        // position, child former) triple that occurs in the enumeration three times (greedy), then the largest
        // programs, then a seeded random rest.
        let mut rng = Rng(seed);
        fn triples(n: &crate::core::Node, out: &mut Vec<String>) {
            for (i, k) in n.kids.iter().enumerate() {
                out.push(format!("{}.{}>{}", n.tok["k"].as_str().unwrap_or("?"), i, k.tok["k"].as_str().unwrap_or("?")));
                triples(k, out);
            }
        }
        let keys: Vec<Vec<String>> = cases
            .iter()
            .map(|c| {
                let toks = c["prog"].as_array().unwrap();
                let mut i = 0;
                let root = parse(toks, &mut i);
                let mut v = Vec::new();
                triples(&root, &mut v);
                v.sort();
                v.dedup();
                v
            })
            .collect();
        let depth = if limit >= 1000 { 3 } else { 1 };
        let mut need: std::collections::HashMap<&str, usize> = Default::default();
        let mut freq: std::collections::HashMap<&str, usize> = Default::default();
        for ks in &keys {
            for k in ks {
                need.entry(k.as_str()).or_insert(depth);
                *freq.entry(k.as_str()).or_insert(0) += 1;
            }
        }
        let mut order: Vec<usize> = (0..cases.len()).collect();
        // seeded shuffle so that the covering programs differ from run to run
        for i in (1..order.len()).rev() {
            order.swap(i, rng.below(i + 1));
        }
        let mut chosen: Vec<bool> = vec![false; cases.len()];
        let mut picked = 0usize;
        // rarest compositions first
        let mut by_rarity: Vec<&str> = freq.keys().copied().collect();
        by_rarity.sort_by_key(|k| (freq[k], *k));
        for t in by_rarity {
            while need[t] > 0 && picked < limit * 2 / 3 {
                let Some(&ci) = order.iter().find(|ci| !chosen[**ci] && keys[**ci].iter().any(|k| k == t)) else { break };
                for k in &keys[ci] {
                    if let Some(n) = need.get_mut(k.as_str()) {
                        *n = n.saturating_sub(1);
                    }
                }
                chosen[ci] = true;
                picked += 1;
            }
        }
        let mut rest: Vec<usize> = (0..cases.len()).filter(|i| !chosen[*i]).collect();
        rest.sort_by_key(|i| std::cmp::Reverse(cases[*i]["prog"].as_array().map(|a| a.len()).unwrap_or(0)));
        let head = (limit - picked) / 2;
        for &i in rest.iter().take(head) {
            chosen[i] = true;
            picked += 1;
        }
        let mut tail: Vec<usize> = rest.into_iter().skip(head).collect();
        while picked < limit && !tail.is_empty() {
            let j = rng.below(tail.len());
            chosen[tail.swap_remove(j)] = true;
            picked += 1;
        }
        cases = cases.into_iter().enumerate().filter(|(i, _)| chosen[*i]).map(|(_, c)| c).collect();
    }
    let results: Vec<(Vec<J>, Option<J>, bool)> = par_map_with(
        &cases,
        threads(),
        |tid| Analyzer::new(&format!("ir{tid}")),
        |an, idx, case| {
            let product = case.get("n").is_some();
            let src = if product {
                format!("{}{}", crate::core::PRELUDE, render_product(case))
            } else {
                let toks = case["prog"].as_array().unwrap();
                let mut i = 0;
                let root = parse(toks, &mut i);
                let mut r = Renderer { ann: Ann::Full, naming: Naming::Unique, rng: Rng(idx as u64) };
                r.program(&root)
            };
            let (v, analysis) = an.analyze("case.zy", &src);
            let (Verdict::Accepted, Some(a)) = (&v, &analysis) else {
                if product {
                    return (vec![json!({"property": "C18", "kind": "product-program-not-accepted", "detail": format!("{} {}", case, v.short()), "source": src})], None, false);
                }
                return (vec![], None, false);
            };
            let fuel = if product { 400 } else { case["steps"].as_u64().unwrap_or(0) as usize };
            let run = run_bounded(&an.session, a, b"", &[], 40 * (fuel + 50));
            let what = if product { json!({"product": case}) } else { json!({"prog": case["prog"]}) };
            let mut low = lower_all(&an.session, a, &what, &src);
            if product && run.end != (RunEnd::Exit { code: case["exit"].as_i64().unwrap() as i32 }) {
                low.findings.push(json!({"property": "C19", "kind": "product-program-interpreter-differs-from-arithmetic", "detail": format!("{}: expected exit {}, interpreter {:?}", case, case["exit"], run.end), "source": src}));
            }
            let obs = match &run.end {
                | RunEnd::Exit { code } => json!({"end":"exit","code":code,"out":run.stdout}),
                | RunEnd::Ret => json!({"end":"ret","code":0,"out":run.stdout}),
                | RunEnd::Running => json!({"end":"running","code":0,"out":run.stdout}),
                | RunEnd::Panic { class: PanicClass::Trap, .. } => json!({"end":"trap","code":0,"out":run.stdout}),
                | _ => json!({"end":"other","code":0,"out":run.stdout}),
            };
            let rec = low.record.map(|mut rec| {
                rec["id"] = json!(idx);
                rec["interp"] = obs;
                rec["fuel"] = json!(60 * (fuel + 60));
                rec["source_body"] = json!(src[crate::core::PRELUDE.len()..].trim());
                rec
            });
            (low.findings, rec, low.llvm_unsupported)
        },
        |an| an.cleanup(),
    );
    let mut findings = Vec::new();
    let mut out = String::new();
    let (mut n, mut unsupported) = (0, 0);
    for (f, rec, u) in results {
        findings.extend(f);
        if u { unsupported += 1 }
        if let Some(rec) = rec {
            out.push_str(&serde_json::to_string(&rec).unwrap());
            out.push('\n');
            n += 1;
        }
    }
    std::fs::write(out_path, out).expect("write exports");
    std::fs::write(summary_path, serde_json::to_string_pretty(&json!({"programs": cases.len(), "lowered": n, "llvm_unsupported": unsupported, "findings": findings})).unwrap()).expect("write");
    println!("export-ir: programs={} lowered={n} llvm_unsupported={unsupported} findings={}", cases.len(), findings.len());
}

/// zyconf corpus-lower SUMMARY : every repository source that is an accepted executable lowers without internal error
pub fn corpus_lower(summary_path: &str, out_path: &str) {
    let mut files = crate::corpus::source_files();
    // regression scenarios kept with the framework
    if let Ok(rd) = std::fs::read_dir("/verif/scenarios/c18") {
        let mut extra: Vec<std::path::PathBuf> = rd.filter_map(|e| e.ok()).map(|e| e.path()).filter(|p| p.extension().and_then(|e| e.to_str()) == Some("zy")).collect();
        extra.sort();
        files.extend(extra);
    }
    let results: Vec<(Vec<J>, Option<J>, &'static str)> = par_map_with(
        &files,
        threads(),
        |_| (),
        |_, idx, path| {
            let session = zydeco_session::CompilerSession::default();
            let r = guarded(|| session.analyze(path));
            let Ok(Ok(a)) = r else { return (vec![], None, "not-analysed") };
            if a.outcome().root().is_none() {
                return (vec![], None, "rejected");
            }
            let Ok(exe) = session.executable_program(&a) else { return (vec![], None, "not-executable") };
            // the property quantifies over the programs the interpreter can run: the interpreter's own
            // linking step must accept the executable (it rejects e.g. a result type that is not the `os` witness)
            let linked = guarded(|| {
                zydeco_dynamics::BuiltinRootLinker { scoped: exe.scoped, statics: exe.statics, root: exe.root, signature: exe.signature }.run().is_ok()
            });
            if !matches!(linked, Ok(true)) {
                return (vec![], None, "not-runnable-by-the-interpreter");
            }
            let what = json!({"file": path.display().to_string()});
            let low = lower_all(&session, &a, &what, "");
            let rec = low.record.map(|mut rec| {
                rec["id"] = json!(100000 + idx);
                rec["file"] = json!(path.display().to_string());
                rec
            });
            (low.findings, rec, "executable")
        },
        |_| (),
    );
    let mut findings = Vec::new();
    let mut classes: std::collections::BTreeMap<&str, usize> = Default::default();
    let mut out = String::new();
    for (f, rec, c) in results {
        findings.extend(f);
        *classes.entry(c).or_default() += 1;
        if let Some(rec) = rec {
            // the machine part is not run for corpus programs (they use roles outside ZySps' table): WF only
            let slim = json!({"id": rec["id"], "file": rec["file"], "low": rec["low"], "asm": rec["asm"], "amd64_entry": rec["amd64_entry"], "interp": {"end":"skip","code":0,"out":""}, "fuel": 0, "source_body": ""});
            out.push_str(&serde_json::to_string(&slim).unwrap());
            out.push('\n');
        }
    }
    std::fs::write(out_path, out).expect("write");
    std::fs::write(summary_path, serde_json::to_string_pretty(&json!({"files": files.len(), "classes": classes, "findings": findings})).unwrap()).expect("write");
    println!("corpus-lower: files={} classes={classes:?} findings={}", files.len(), findings.len());
}
