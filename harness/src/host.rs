//! C06: rows and handle-table behaviours printed by spec/ZyHost.tla are turned into caller programs
//! typed at the declared Builtin signature, analysed and run by the real tool chain; role table dump
//! for TLC validation; one-role mutations of the declared classifiers.
use crate::common::*;
use serde_json::{Value, json};
use std::path::{Path, PathBuf};
use zydeco_statics::builtin::{BuiltinComputationClassifier as CC, BuiltinOperationAbi, BuiltinValueClassifier as VC};
use zydeco_syntax::BuiltinValueRole;

const PRELUDE: &str = r#"param (
  (/core; /representations; /numeric; /text; /system) :
  @(import("BUILTIN"))
) in
let (/VType; /CType; /Thk; /Ret; /Unit) = core in
let (/Scalar = String) = representations/string in
let (/Scalar = Char) = representations/char in
let (/Scalar = Bytes) = representations/bytes in
let (Scalar = Int64, int64) = numeric/int64 in
let (/string; /char; /bytes) = text in
let (/process; /OS; /stdio; /io; /fs; /Reader; /Writer) = system in
"#;
fn prelude(builtin: &str) -> String {
    PRELUDE.replace("BUILTIN", builtin)
}

const ALPHA: [&str; 6] = ["a", "b", "é", "λ", "€", "🙂"];
const VOCAB: [&str; 6] = ["0", "7", "-", "+", "x", " "];
fn text_of(ranks: &Value, table: &[&str; 6]) -> String {
    ranks.as_array().unwrap().iter().map(|r| table[r.as_u64().unwrap() as usize - 1]).collect()
}
fn strlit(s: &str) -> String {
    format!("\"{s}\"")
}
fn intlit(i: i64) -> String {
    if i < 0 { format!("({i})") } else { format!("{i}") }
}

/// snippet (with continuation hole `K`) and the line it must print
fn text_row(row: &Value) -> (String, String) {
    let k = row["k"].as_str().unwrap();
    let s = if k == "parse_int" { text_of(&row["s"], &VOCAB) } else if k == "from_codepoint" || k == "from_codepoint_wide" { String::new() } else { text_of(&row["s"], &ALPHA) };
    let wl = |t: &str| format!("! (stdio/write_line) {t} {{ @@K@@ }}");
    match k {
        | "len" | "bytelen" => {
            let op = if k == "len" { "length" } else { "byte_length" };
            (format!("do n <- ! (string/{op}) {}; do t <- ! (int64/to_string) n; {}", strlit(&s), wl("t")), row["n"].to_string())
        }
        | "append" => {
            let t = text_of(&row["t"], &ALPHA);
            (format!("do r <- ! (string/append) {} {}; do r2 <- ! (string/append) \"[\" r; do r3 <- ! (string/append) r2 \"]\"; {}", strlit(&s), strlit(&t), wl("r3")),
             format!("[{}]", text_of(&row["r"], &ALPHA)))
        }
        | "eq" => {
            let t = text_of(&row["t"], &ALPHA);
            (format!("! (string/eq) OS {} {} {{ {} }} {{ {} }}", strlit(&s), strlit(&t), wl("\"T\""), wl("\"F\"")),
             if row["r"].as_bool().unwrap() { "T".into() } else { "F".into() })
        }
        | "split_at" | "split_once" => {
            let arg = if k == "split_at" { intlit(row["i"].as_i64().unwrap()) } else { format!("'{}'", ALPHA[row["c"].as_u64().unwrap() as usize - 1]) };
            let want = if row["r"]["some"].as_bool().unwrap() {
                format!("{}|{}", text_of(&row["r"]["pre"], &ALPHA), text_of(&row["r"]["suf"], &ALPHA))
            } else {
                "N".into()
            };
            (format!("! (string/{k}) OS {} {arg} {{ {} }} {{ fn (p : String) (q : String) => do r <- ! (string/append) p \"|\"; do r2 <- ! (string/append) r q; {} }}", strlit(&s), wl("\"N\""), wl("r2")), want)
        }
        | "get" => {
            let want = if row["r"]["some"].as_bool().unwrap() {
                let ch = ALPHA[row["r"]["ch"].as_u64().unwrap() as usize - 1].chars().next().unwrap();
                format!("{}", ch as u32)
            } else {
                "N".into()
            };
            (format!("! (string/get) OS {} {} {{ {} }} {{ fn (c : Char) => do n <- ! (char/codepoint) c; do t <- ! (int64/to_string) n; {} }}", strlit(&s), intlit(row["i"].as_i64().unwrap()), wl("\"N\""), wl("t")), want)
        }
        | "parse_int" => {
            let want = if row["r"]["some"].as_bool().unwrap() { row["r"]["val"].to_string() } else { "N".into() };
            (format!("! (string/parse_int) OS {} {{ {} }} {{ fn (n : Int64) => do t <- ! (int64/to_string) n; {} }}", strlit(&s), wl("\"N\""), wl("t")), want)
        }
        | "from_codepoint" => {
            let n = row["n"].as_i64().unwrap();
            let want = if row["some"].as_bool().unwrap() { format!("{}:{n}", row["bytes"]) } else { "N".into() };
            (format!("! (char/from_codepoint) OS {} {{ {} }} {{ fn (c : Char) => do s <- ! (char/to_string) c; do b <- ! (string/byte_length) s; do m <- ! (char/codepoint) c; do t1 <- ! (int64/to_string) b; do t2 <- ! (int64/to_string) m; do r <- ! (string/append) t1 \":\"; do r2 <- ! (string/append) r t2; {} }}", intlit(n), wl("\"N\""), wl("r2")), want)
        }
        | "from_codepoint_wide" => {
            let w = &row["w"];
            let g = |k: &str| w[k].as_i64().unwrap() as i128;
            let mag: i128 = ((g("a") * 65536 + g("b")) * 65536 + g("c")) * 65536 + g("d");
            let n: i128 = if w["neg"].as_bool().unwrap() { -mag } else { mag };
            let lit = if n < 0 { format!("({n})") } else { format!("{n}") };
            let want = if row["some"].as_bool().unwrap() { format!("{}:{n}", row["bytes"]) } else { "N".into() };
            (format!("! (char/from_codepoint) OS {lit} {{ {} }} {{ fn (c : Char) => do s <- ! (char/to_string) c; do b <- ! (string/byte_length) s; do m <- ! (char/codepoint) c; do t1 <- ! (int64/to_string) b; do t2 <- ! (int64/to_string) m; do r <- ! (string/append) t1 \":\"; do r2 <- ! (string/append) r t2; {} }}", wl("\"N\""), wl("r2")), want)
        }
        | other => panic!("text row {other}"),
    }
}

const BYTES_PROGRAM: &str = r#"do r <- ! (stdio/stdin);
! (io/read_all) r { fn (code : Int64) (msg : String) => ! (process/exit) 9 } { fn (b : Bytes) =>
do n <- ! (bytes/length) b; do t <- ! (int64/to_string) n;
! (stdio/write_line) t {
! (bytes/to_string) OS b { ! (stdio/write_line) "N" { ! (process/exit) 0 } } { fn (s : String) =>
do k <- ! (string/length) s; do t2 <- ! (int64/to_string) k; ! (stdio/write_line) t2 { ! (process/exit) 0 } } } }
"#;

/// Render a handle-table behaviour as a program that prints one outcome line per operation.
fn handles_program(trace: &Value, dir: &Path) -> (String, Vec<String>) {
    let mut src = String::new();
    let mut close = String::new();
    let mut want = Vec::new();
    let err = |tag: &str| format!("{{ fn (code : Int64) (msg : String) => do t <- ! (int64/to_string) code; do l <- ! (string/append) \"{tag}e\" t; ! (stdio/write_line) l {{ NEXT }} }}");
    // handles are bound to variables r<h> / w<h>; standard handles come from stdio
    src.push_str("do r0 <- ! (stdio/stdin); do w0 <- ! (stdio/stdout); do w1 <- ! (stdio/stderr);\n");
    let mut chunks: Vec<String> = Vec::new();
    for (i, step) in trace.as_array().unwrap().iter().enumerate() {
        let op = &step["op"];
        let out = &step["out"];
        let o = op["o"].as_str().unwrap();
        let tag = format!("{i}");
        want.push(if out["ok"].as_bool().unwrap() {
            match o {
                | "read_all" => format!("{tag}ok[{}]", out["data"].as_array().unwrap().iter().map(|b| match b.as_u64().unwrap() { 1 => "a", 2 => "b", 3 => "x", _ => "?" }).collect::<String>()),
                | _ => format!("{tag}ok"),
            }
        } else {
            format!("{tag}e{}", out["kind"])
        });
        let okline = format!("! (stdio/write_line) \"{tag}ok\" {{ NEXT }}");
        // an open binds its handle only in the success continuation; the continuation the model does
        // not predict ends the program with a distinct exit code instead of continuing
        let stop = "{ fn (code : Int64) (msg : String) => ! (process/exit) 7 }".to_string();
        let chunk = match o {
            | "open_reader" => {
                let p = dir.join(op["p"].as_str().unwrap());
                if out["ok"].as_bool().unwrap() {
                    format!("! (fs/open_reader) \"{}\" {stop} {{ fn (r{} : Reader) => {okline} }}", p.display(), out["h"])
                } else {
                    format!("! (fs/open_reader) \"{}\" {} {{ fn (unexpected : Reader) => ! (process/exit) 8 }}", p.display(), err(&tag))
                }
            }
            | "create_writer" | "append_writer" => {
                let p = dir.join(op["p"].as_str().unwrap());
                format!("! (fs/{o}) \"{}\" {stop} {{ fn (w{} : Writer) => {okline} }}", p.display(), out["h"])
            }
            | "read_all" => format!(
                "! (io/read_all) r{} {} {{ fn (b : Bytes) => ! (bytes/to_string) OS b {{ ! (stdio/write_line) \"{tag}binary\" {{ NEXT }} }} {{ fn (s : String) => do l1 <- ! (string/append) \"{tag}ok[\" s; do l2 <- ! (string/append) l1 \"]\"; ! (stdio/write_line) l2 {{ NEXT }} }} }}",
                op["h"], err(&tag)
            ),
            | "write_all" => format!("do payload <- ! (bytes/from_string) \"x\"; ! (io/write_all) w{} payload {} {{ {okline} }}", op["h"], err(&tag)),
            | "flush" => format!("! (io/flush) w{} {} {{ {okline} }}", op["h"], err(&tag)),
            | "close_reader" => format!("! (io/close_reader) r{} {} {{ {okline} }}", op["h"], err(&tag)),
            | "close_writer" => format!("! (io/close_writer) w{} {} {{ {okline} }}", op["h"], err(&tag)),
            | other => panic!("handle op {other}"),
        };
        chunks.push(chunk);
    }
    // nest: each chunk's NEXT is the following chunk (handles bound by earlier chunks stay in scope)
    let mut body = "! (process/exit) 0".to_string();
    for (i, c) in chunks.into_iter().enumerate().rev() {
        if c.matches("NEXT").count() == 1 {
            body = c.replace("NEXT", &body);
        } else {
            body = format!("let n{i} : Thk OS = {{ {body} }} in\n{}", c.replace("NEXT", &format!("! n{i}")));
        }
    }
    src.push_str(&body);
    src.push('\n');
    close.clear();
    (src, want)
}

/// zyconf replay-host CASES SUMMARY
pub fn replay_host(cases_path: &str, out_path: &str) {
    let rows = read_ndjson(Path::new(cases_path));
    let builtin = "/repo/lib/std/builtin.zy";
    // text-like rows are packed into programs of BATCH rows
    const BATCH: usize = 40;
    let text_rows: Vec<&Value> = rows.iter().filter(|r| !["bytes_to_str", "handles"].contains(&r["k"].as_str().unwrap())).collect();
    let batches: Vec<Vec<&Value>> = text_rows.chunks(BATCH).map(|c| c.to_vec()).collect();
    let text_results: Vec<Vec<Value>> = par_map_with(
        &batches,
        threads(),
        |tid| Analyzer::new(&format!("host{tid}")),
        |an, _idx, batch| {
            let mut findings = Vec::new();
            // continuations are shared through named thunks (a branch role mentions its continuation twice)
            let mut body = format!("let k{} : Thk OS = {{ ! (process/exit) 0 }} in\n", batch.len());
            let mut want = Vec::new();
            for (i, row) in batch.iter().enumerate().rev() {
                let (snip, line) = text_row(row);
                body.push_str(&format!("let k{i} : Thk OS = {{ {} }} in\n", snip.replace("@@K@@", &format!("! k{}", i + 1))));
                want.push(line);
            }
            want.reverse();
            let src = format!("{}{}! k0\n", prelude(builtin), body);
            let (v, analysis) = an.analyze("case.zy", &src);
            match (&v, &analysis) {
                | (Verdict::Accepted, Some(a)) => {
                    let run = run_bounded(&an.session, a, b"", &[], 2_000_000);
                    let got: Vec<&str> = run.stdout.lines().collect();
                    if let RunEnd::Panic { panic, .. } = &run.end {
                        let at = got.len().min(batch.len() - 1);
                        findings.push(json!({"property":"C06","kind":"host-operation-panics","detail":format!("{} @ {} on row {}", panic.message, panic.file, batch[at]),"case":batch[at]}));
                    } else {
                        for (i, w) in want.iter().enumerate() {
                            if got.get(i).copied() != Some(w.as_str()) {
                                findings.push(json!({"property":"C06","kind":"host-operation-result","detail":format!("row {}: model {w:?}, runtime {:?}", batch[i], got.get(i)),"case":batch[i]}));
                                break;
                            }
                        }
                        if run.end != (RunEnd::Exit { code: 0 }) && findings.is_empty() {
                            findings.push(json!({"property":"C06","kind":"host-operation-result","detail":format!("caller program ended with {:?}", run.end),"case":batch[0]}));
                        }
                    }
                }
                | _ => findings.push(json!({"property":"C06","kind":"caller-program-rejected","detail":v.short(),"case":batch[0],"source":src})),
            }
            findings
        },
        |an| an.cleanup(),
    );
    let mut findings: Vec<Value> = text_results.into_iter().flatten().collect();
    // bytes rows: one analysed program, one run per byte buffer on stdin
    let byte_rows: Vec<&Value> = rows.iter().filter(|r| r["k"] == "bytes_to_str").collect();
    if !byte_rows.is_empty() {
        let mut an = Analyzer::new("hostbytes");
        let src = format!("{}{}", prelude(builtin), BYTES_PROGRAM);
        let (v, analysis) = an.analyze("case.zy", &src);
        match (&v, &analysis) {
            | (Verdict::Accepted, Some(a)) => {
                for row in &byte_rows {
                    let bytes: Vec<u8> = row["bytes"].as_array().unwrap().iter().map(|b| b.as_u64().unwrap() as u8).collect();
                    let run = run_bounded(&an.session, a, &bytes, &[], 100_000);
                    let want = if row["valid"].as_bool().unwrap() { format!("{}\n{}\n", bytes.len(), row["scalars"]) } else { format!("{}\nN\n", bytes.len()) };
                    if run.stdout != want || run.end != (RunEnd::Exit { code: 0 }) {
                        findings.push(json!({"property":"C06","kind":"utf8-validation","detail":format!("bytes {bytes:02x?}: model {want:?}, runtime {:?} {:?}", run.stdout, run.end),"case":row}));
                    }
                }
            }
            | _ => findings.push(json!({"property":"C06","kind":"caller-program-rejected","detail":v.short(),"source":src})),
        }
        an.cleanup();
    }
    // handle behaviours: one program each, on a private scratch directory
    let hrows: Vec<&Value> = rows.iter().filter(|r| r["k"] == "handles").collect();
    let hres: Vec<Vec<Value>> = par_map_with(
        &hrows,
        threads(),
        |tid| (Analyzer::new(&format!("hosth{tid}")), PathBuf::from(WORK).join("hostfs").join(format!("{}_{tid}", std::process::id()))),
        |(an, dir), _idx, row| {
            let _ = std::fs::remove_dir_all(&*dir);
            std::fs::create_dir_all(&*dir).unwrap();
            std::fs::write(dir.join("p1"), "ab").unwrap();
            let (body, want) = handles_program(&row["trace"], dir);
            let src = format!("{}{}", prelude(builtin), body);
            let (v, analysis) = an.analyze("case.zy", &src);
            let mut findings = Vec::new();
            match (&v, &analysis) {
                | (Verdict::Accepted, Some(a)) => {
                    let run = run_bounded(&an.session, a, b"", &[], 500_000);
                    let got: Vec<String> = run.stdout.lines().map(|l| l.to_string()).collect();
                    if got != want || run.end != (RunEnd::Exit { code: 0 }) {
                        findings.push(json!({"property":"C06","kind":"handle-table","detail":format!("model {want:?}, runtime {got:?} end {:?}", run.end),"case":row["trace"]}));
                    } else {
                        // final file contents
                        for (p, c) in row["files"].as_object().unwrap() {
                            let wantc: Option<String> = (c.as_array().unwrap().first().and_then(|x| x.as_i64()) != Some(-1))
                                .then(|| c.as_array().unwrap().iter().map(|b| match b.as_u64().unwrap() { 1 => 'a', 2 => 'b', 3 => 'x', _ => '\0' }).collect());
                            let gotc = std::fs::read_to_string(dir.join(p)).ok();
                            if wantc != gotc {
                                findings.push(json!({"property":"C06","kind":"handle-table-file-contents","detail":format!("{p}: model {wantc:?}, disk {gotc:?}"),"case":row["trace"]}));
                            }
                        }
                    }
                }
                | _ => findings.push(json!({"property":"C06","kind":"caller-program-rejected","detail":v.short(),"source":src})),
            }
            findings
        },
        |(an, dir)| {
            an.cleanup();
            let _ = std::fs::remove_dir_all(dir);
        },
    );
    findings.extend(hres.into_iter().flatten());
    let samples: Vec<&Value> = rows.iter().step_by((rows.len() / 5).max(1)).take(5).collect();
    std::fs::write(out_path, serde_json::to_string_pretty(&json!({"rows": rows.len(), "text_rows": text_rows.len(), "byte_rows": byte_rows.len(),
        "handle_behaviours": hrows.len(), "findings": findings, "samples": samples})).unwrap()).expect("write");
    println!("replay-host: rows={} findings={}", rows.len(), findings.len());
}

fn vc_json(v: &VC) -> Value {
    match v {
        | VC::Atom(a) => json!({"k":"atom","a":format!("{a}")}),
        | VC::Thunk(c) => json!({"k":"thunk","c":cc_json(c)}),
    }
}
fn cc_json(c: &CC) -> Value {
    match c {
        | CC::OS => json!({"k":"os"}),
        | CC::Bound(i) => json!({"k":"bound","i":i}),
        | CC::Return(v) => json!({"k":"ret","v":vc_json(v)}),
        | CC::Arrow(a, b) => json!({"k":"arrow","a":vc_json(a),"b":cc_json(b)}),
        | CC::ForallCType(b) => json!({"k":"forall","b":cc_json(b)}),
    }
}

/// zyconf role-table OUT : one record per role for spec/ZyHostTable.tla
pub fn role_table(out_path: &str) {
    let mut out = String::new();
    let mut n = 0;
    for role in BuiltinValueRole::all() {
        let cls = BuiltinOperationAbi::for_role(role).into_classifier();
        let rec = json!({"role": format!("{role}"), "arity": role.arity(), "host_name": role.host_name(),
            "roundtrip": BuiltinValueRole::from_source_name(&role.source_name()).map(|r| r == role).unwrap_or(false),
            "cls": vc_json(&cls)});
        out.push_str(&serde_json::to_string(&rec).unwrap());
        out.push('\n');
        n += 1;
    }
    std::fs::write(out_path, out).expect("write");
    println!("role-table: roles={n}");
}

fn copy_dir(from: &Path, to: &Path) {
    std::fs::create_dir_all(to).unwrap();
    for e in std::fs::read_dir(from).unwrap().flatten() {
        let p = e.path();
        let t = to.join(e.file_name());
        if p.is_dir() { copy_dir(&p, &t) } else { let _ = std::fs::copy(&p, &t); }
    }
}

/// All one-site textual mutations of the declared classifiers in one signature file.
fn signature_mutants(text: &str) -> Vec<(String, String)> {
    let mut out = Vec::new();
    let atoms = ["A", "ScalarType", "String", "Int64", "Char", "Bytes", "Reader", "Writer", "Done", "Error", "Line"];
    // M1: drop one parameter `X -> `
    for a in atoms {
        let pat = format!("{a} -> ");
        let mut from = 0;
        while let Some(i) = text[from..].find(&pat) {
            let at = from + i;
            // whole-word match only
            let before_ok = at == 0 || !text.as_bytes()[at - 1].is_ascii_alphanumeric();
            if before_ok {
                out.push((format!("drop parameter `{a}` at byte {at}"), format!("{}{}", &text[..at], &text[at + pat.len()..])));
            }
            from = at + pat.len();
        }
    }
    // M2: change a result type
    for (a, b) in [("Ret String", "Ret Int64"), ("Ret Int64", "Ret String"), ("Ret A)", "Ret String)"), ("Ret Bytes", "Ret String"), ("-> OS)", "-> Ret Int64)"), ("-> R)", "-> OS)"), ("Thk R ->", "Thk OS ->")] {
        let mut from = 0;
        while let Some(i) = text[from..].find(a) {
            let at = from + i;
            out.push((format!("`{a}` becomes `{b}` at byte {at}"), format!("{}{b}{}", &text[..at], &text[at + a.len()..])));
            from = at + a.len();
        }
    }
    // M3: add a parameter in front
    let mut from = 0;
    while let Some(i) = text[from..].find("Thk (") {
        let at = from + i + "Thk (".len();
        if !text[at..].starts_with('\n') {
            out.push((format!("extra Int64 parameter at byte {at}"), format!("{}Int64 -> {}", &text[..at], &text[at..])));
        }
        from = at;
    }
    out
}

/// zyconf classifier-mutants SUMMARY PER_FILE : every declared role type mutated at one site must be rejected.
pub fn classifier_mutants(out_path: &str, per_file: usize) {
    let seed = seed_from_env();
    let base = PathBuf::from(WORK).join("stdmut").join(format!("{}", std::process::id()));
    let _ = std::fs::remove_dir_all(&base);
    let mut files: Vec<PathBuf> = Vec::new();
    for sub in ["numeric", "text", "system"] {
        for e in std::fs::read_dir(Path::new("/repo/lib/std/builtin").join(sub)).unwrap().flatten() {
            if e.path().extension().and_then(|x| x.to_str()) == Some("zy") {
                files.push(e.path());
            }
        }
    }
    files.sort();
    let results: Vec<(Vec<Value>, usize, usize, Vec<String>)> = par_map_with(
        &files,
        threads(),
        |tid| {
            let std = base.join(format!("t{tid}")).join("std");
            copy_dir(Path::new("/repo/lib/std"), &std);
            std
        },
        |std, idx, file| {
            let rel = file.strip_prefix("/repo/lib/std").unwrap();
            let target = std.join(rel);
            let original = std::fs::read_to_string(file).unwrap();
            let mut muts = signature_mutants(&original);
            // seeded subsample, stable order otherwise
            let mut rng = Rng(seed ^ (idx as u64 + 7).wrapping_mul(0x9E3779B97F4A7C15));
            while per_file > 0 && muts.len() > per_file {
                let k = rng.below(muts.len());
                muts.swap_remove(k);
            }
            let root_src = format!("{}! (process/exit) 0\n", prelude(&std.join("builtin.zy").display().to_string()));
            let mut findings = Vec::new();
            let (mut n, mut rejected) = (0, 0);
            let mut reasons: Vec<String> = Vec::new();
            // the unmutated scratch copy must be accepted (otherwise nothing below means anything)
            let mut an = Analyzer::new(&format!("mut{idx}"));
            let (v0, a0) = an.analyze("root.zy", &root_src);
            let base_ok = matches!((&v0, &a0), (Verdict::Accepted, Some(a)) if an.session.executable_program(a).is_ok());
            if !base_ok {
                findings.push(json!({"property":"C06","kind":"scratch-library-rejected","detail":v0.short()}));
            }
            for (what, text) in muts {
                n += 1;
                std::fs::write(&target, &text).unwrap();
                an.reset_session();
                let (v, a) = an.analyze("root.zy", &root_src);
                let accepted_and_executable = match (&v, &a) {
                    | (Verdict::Accepted, Some(a)) => guarded(|| an.session.executable_program(a).is_ok()).unwrap_or(false),
                    | _ => false,
                };
                if let Verdict::Panic { panic } = &v {
                    findings.push(json!({"property":"C06","kind":"signature-validation-panics","detail":format!("{}: {what}: {} @ {}", rel.display(), panic.message, panic.file)}));
                } else if accepted_and_executable {
                    findings.push(json!({"property":"C06","kind":"mutated-classifier-accepted","detail":format!("{}: {what}", rel.display()), "file": rel.display().to_string()}));
                } else {
                    rejected += 1;
                    let why: String = match (&v, &a) {
                        | (Verdict::Accepted, Some(a)) => format!("executable: {}", an.session.executable_program(a).err().map(|e| e.to_string()).unwrap_or_default()),
                        | _ => v.short(),
                    };
                    reasons.push(why.chars().take(70).collect::<String>());
                }
            }
            std::fs::write(&target, &original).unwrap();
            an.cleanup();
            (findings, n, rejected, reasons)
        },
        |_| (),
    );
    let _ = std::fs::remove_dir_all(&base);
    let mut findings = Vec::new();
    let (mut n, mut rej) = (0, 0);
    let mut reasons: std::collections::BTreeMap<String, usize> = Default::default();
    for (f, a, b, rs) in results {
        findings.extend(f);
        n += a;
        rej += b;
        for r in rs { *reasons.entry(r).or_default() += 1 }
    }
    std::fs::write(out_path, serde_json::to_string_pretty(&json!({"mutants": n, "rejected": rej, "files": files.len(), "findings": findings, "rejection_reasons": reasons})).unwrap()).expect("write");
    println!("classifier-mutants: files={} mutants={n} rejected={rej} findings={}", files.len(), findings.len());
}
