//! C03, the F-omega layer: every program of spec/ZyPoly.tla (polymorphic function x type arguments - well- and
//! ill-kinded - x value arguments x use of the result; implementations of one scheme under every binder naming)
//! rendered, analysed and - when the model accepts it - run.
use crate::common::*;
use serde_json::{Value, json};

const PRELUDE: &str = r#"param (
  (/core; /representations; /system; builtin) :
  @(import("/repo/lib/std/builtin.zy"))
) in
let (/VType; /CType; /Thk; /Ret; /Unit) = core in
let (/Scalar = Int64) = representations/i64 in
let (/OS; /process) = system in
let exit = process/exit in
"#;

const DECLS: &str = r#"  let Bool = data | +T : Unit | +F : Unit end that
  let Id (A : VType) = A that
  let K (A : VType) = Int64 that
  let Dup (A : VType) = A * A that
  def Box (A : VType) = A that
  let Two (F : VType -> VType) (A : VType) = F (F A) that
  let vtt : Bool = +T() that
  let vpair : Int64 * Int64 = (3, 4) that
  let id : Thk (forall (X : VType) . X -> Ret X) = { fn (A : VType) (x : A) => ret x } that
  let k : Thk (forall (A : VType) (B : VType) . A -> B -> Ret A) = { fn (A : VType) (B : VType) (x : A) (y : B) => ret x } that
  let ap : Thk (forall (F : VType -> VType) (A : VType) . F A -> Ret (F A)) = { fn (F : VType -> VType) (A : VType) (x : F A) => ret x } that
  let dup : Thk (forall (A : VType) . A -> Ret (Dup A)) = { fn (A : VType) (x : A) => ret (x, x) } that
  let frc : Thk (forall (R : CType) . Thk R -> R) = { fn (R : CType) (t : Thk R) => ! t } that
"#;

fn ty(e: &Value, top: bool) -> String {
    let a = e.as_array().unwrap();
    let head = match a[0].as_str().unwrap() {
        | "Int" => "Int64",
        | h => h,
    };
    if head == "Prod" && a.len() == 3 {
        return format!("({} * {})", ty(&a[1], false), ty(&a[2], false));
    }
    if a.len() == 1 {
        return head.to_string();
    }
    let s = format!("{head} {}", a[1..].iter().map(|x| ty(x, false)).collect::<Vec<_>>().join(" "));
    if top { format!("({s})") } else { format!("({s})") }
}

pub fn render(c: &Value) -> String {
    if c["fam"] == "alpha" {
        let s = |k: &str| c[k].as_str().unwrap();
        return format!(
            "{PRELUDE}begin\n  let Bool = data | +T : Unit | +F : Unit end that\n  let kk : Thk (forall (A : VType) (B : VType) . A -> B -> Ret A) = {{ fn ({} : VType) ({} : VType) (x : {}) (y : {}) => ret {} }} that\n  do y <- ! kk Int64 Bool 3 +T();\n  ! exit y\nend\n",
            s("n1"), s("n2"), s("m1"), s("m2"), s("v")
        );
    }
    if c["fam"] == "quant" {
        let (a, b) = (c["a"].as_str().unwrap(), c["b"].as_str().unwrap());
        let t1 = "(forall (A : VType) . A -> Ret A)";
        let coerce = |from: &str| format!("let coerce : Thk (forall (B : VType) . {a} -> Ret {b}) = {from} in ! coerce A x");
        let body = match c["share"].as_str().unwrap() {
            | "fix" => format!("  let f = {{ fix (self : Thk {t1}) => fn (A : VType) (x : A) => {} }} that\n", coerce("self")),
            | "alias" => format!("  let T1 = {t1} that\n  let g : Thk T1 = {{ fn (A : VType) (x : A) => ret x }} that\n  let h : Thk T1 = {{ fn (A : VType) (x : A) => {} }} that\n", coerce("g")),
            | _ => format!("  let g : Thk {t1} = {{ fn (A : VType) (x : A) => ret x }} that\n  let h : Thk {t1} = {{ fn (A : VType) (x : A) => {} }} that\n", coerce("g")),
        };
        return format!("{PRELUDE}begin\n{body}  ! exit 3\nend\n");
    }
    if c["fam"] == "rank2" {
        let arg = match c["arg"].as_str().unwrap() {
            | "id" => "id",
            | "inline" => "{ fn (Z : VType) (z : Z) => ret z }",
            | "mono" => "{ fn (x : Int64) => ret x }",
            | "const3" => "{ fn (Z : VType) (z : Z) => ret 3 }",
            | "dupf" => "dup",
            | "kint" => "{ ! k Int64 }",
            | _ => "id2",
        };
        return format!(
            "{PRELUDE}begin\n{DECLS}  let id2 : Thk (forall (A : VType) . A -> Ret A) = {{ fn (A : VType) (x : A) => ret x }} that\n  let use2 = {{ fn (f : Thk (forall (A : VType) . A -> Ret A)) =>\n    do a <- ! f Int64 3; do b <- ! f Bool +T(); match b | +T() => ! exit a | +F() => ! exit 0 end }} that\n  ! use2 {arg}\nend\n"
        );
    }
    if c["fam"] == "selfinst" {
        let (t1, t2) = (c["t1"].as_str().unwrap(), c["t2"].as_str().unwrap());
        let v = |t: &str| if t == "A" { "a" } else { "b" };
        let t = "(forall (A : VType) . forall (B : VType) . A -> B -> Ret A)";
        let head = "fn (A : VType) (B : VType) (a : A) (b : B) =>";
        let call = |g: &str| format!("do r <- ! {g} {t1} {t2} {} {}; ret a", v(t1), v(t2));
        let body = match c["share"].as_str().unwrap() {
            | "fix" => format!("  let f : Thk {t} = {{ fix (self : Thk {t}) => {head} {} }} that\n", call("self")),
            | "alias" => format!("  let T2 = {t} that\n  let g : Thk T2 = {{ {head} ret a }} that\n  let h : Thk T2 = {{ {head} {} }} that\n", call("g")),
            | _ => format!("  let g : Thk {t} = {{ {head} ret a }} that\n  let h : Thk {t} = {{ {head} {} }} that\n", call("g")),
        };
        return format!("{PRELUDE}begin\n{body}  ! exit 3\nend\n");
    }
    let mut targs: Vec<String> = c["targs"].as_array().unwrap().iter().map(|e| ty(e, true)).collect();
    if c["dropped"] == true {
        targs.remove(0);
    }
    let vals: Vec<&str> = c["vals"]
        .as_array()
        .unwrap()
        .iter()
        .map(|v| match v.as_str().unwrap() {
            | "three" => "3",
            | "tt" => "+T()",
            | "pair" => "(3, 4)",
            | "thk3" => "{ ret 3 }",
            | v => v,
        })
        .collect();
    let usage = match c["use"].as_str().unwrap() {
        | "exit" => "! exit y",
        | "isT" => "match y | +T() => ! exit 1 | +F() => ! exit 0 end",
        | "snd" => "let (a, b) = y in ! exit b",
        | _ => "! exit 7",
    };
    format!("{PRELUDE}begin\n{DECLS}  do y <- ! {} {} {};\n  {usage}\nend\n", c["g"].as_str().unwrap(), targs.join(" "), vals.join(" "))
}

/// zyconf replay-poly CASES SUMMARY
pub fn replay_poly(cases_path: &str, out_path: &str) {
    let cases = read_ndjson(std::path::Path::new(cases_path));
    let results: Vec<(Vec<Value>, String)> = par_map_with(
        &cases,
        threads(),
        |tid| Analyzer::new(&format!("po{tid}")),
        |an, _idx, c| {
            let src = render(c);
            let want = c["verdict"].as_str().unwrap();
            let (v, analysis) = an.analyze("case.zy", &src);
            let mut findings = Vec::new();
            let what = if c["fam"] == "quant" {
                format!("a value of type forall (A) . A -> Ret A ascribed forall (B) . {} -> Ret {} under the binder A (shared through {})", c["a"], c["b"], c["share"])
            } else if c["fam"] == "rank2" {
                format!("a function expecting Thk (forall (A) . A -> Ret A) applied to {}", c["arg"])
            } else if c["fam"] == "selfinst" {
                format!("a value of type forall (A) (B) . A -> B -> Ret A instantiated at the skolems {} {} under its own binders (shared through {})", c["t1"], c["t2"], c["share"])
            } else if c["fam"] == "alpha" {
                format!("fn ({} : VType) ({} : VType) (x : {}) (y : {}) => ret {} under forall (A) (B) . A -> B -> Ret A", c["n1"], c["n2"], c["m1"], c["m2"], c["v"])
            } else {
                format!("{} at {} applied to {}, result used by {}", c["g"], c["targs"], c["vals"], c["use"])
            };
            let mk = |kind: &str, detail: String| json!({"property": "C03", "kind": kind, "detail": detail, "case": c, "source": src});
            let class;
            match (&v, want) {
                | (Verdict::Accepted, "accept") => {
                    class = "accepted-and-run".to_string();
                    let run = run_bounded(&an.session, analysis.as_ref().unwrap(), b"", &[], 100_000);
                    let exit = c["exit"].as_i64().unwrap() as i32;
                    if run.end != (RunEnd::Exit { code: exit }) {
                        findings.push(json!({"property": "C01", "kind": "polymorphic-program-behaviour", "case": c, "source": src,
                            "detail": format!("{what}: expected exit {exit}, got {:?}", run.end)}));
                    }
                }
                | (Verdict::Accepted, _) => {
                    class = "accepted".to_string();
                    let run = run_bounded(&an.session, analysis.as_ref().unwrap(), b"", &[], 100_000);
                    if let RunEnd::Panic { class: PanicClass::Stuck, panic } = &run.end {
                        findings.push(json!({"property": "C01", "kind": "stuck-after-instantiation", "case": c, "source": src,
                            "detail": format!("{} @ {} ({what})", panic.message, panic.file)}));
                    }
                    findings.push(mk("accepts-ill-typed", format!("{what}: the model says {want}, the checker accepts")));
                }
                | (Verdict::Rejected { messages }, _) => {
                    let first = messages.first().cloned().unwrap_or_default();
                    let got = if first.contains("Kind mismatch") { "kind" } else if first.contains("Type mismatch") { "mismatch" }
                              else if first.contains("Sort mismatch") { "sort" } else if first.contains("nbound") || first.contains("not found") || first.contains("esol") { "unbound" } else { "other" };
                    class = format!("model-{want}-checker-{got}");
                    if want == "accept" {
                        findings.push(mk("rejects-well-typed", format!("{what}: the model accepts, the checker says {}", first.lines().next().unwrap_or(""))));
                    }
                }
                | (Verdict::Resolve { .. }, "unbound") => class = "model-unbound-resolver-unbound".to_string(),
                | (other, _) => {
                    class = "other".to_string();
                    findings.push(mk("unexpected-outcome", format!("{what}: {}", other.short())));
                }
            }
            (findings, class)
        },
        |an| an.cleanup(),
    );
    let mut findings = Vec::new();
    let mut classes: std::collections::BTreeMap<String, usize> = Default::default();
    for (f, c) in results {
        if findings.len() < 400 {
            findings.extend(f);
        }
        *classes.entry(c).or_default() += 1;
    }
    let samples: Vec<String> = cases.iter().step_by((cases.len() / 3).max(1)).take(3).map(render).collect();
    std::fs::write(out_path, serde_json::to_string_pretty(&json!({"cases": cases.len(), "classes": classes, "findings": findings, "samples": samples})).unwrap()).expect("write");
    println!("replay-poly: cases={} findings={}", cases.len(), findings.len());
}
