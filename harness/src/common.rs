//! Shared plumbing: panic capture, in-process analysis through session overlays,
//! bounded interpretation with captured output, panic classification.
use serde::{Deserialize, Serialize};
use std::cell::RefCell;
use std::path::{Path, PathBuf};
use std::sync::Arc;
use zydeco_dynamics::syntax::Computation;
use zydeco_dynamics::{BuiltinRootLinker, Eval, ProgKont, Runtime, Step};
use zydeco_session::{AnalysisError, AnalysisOutcome, CompilerSession, ProgramAnalysis};

pub const WORK: &str = "/verif/work";
pub const BUILTIN: &str = "/repo/lib/std/builtin.zy";

thread_local! {
    static LAST_PANIC: RefCell<Option<PanicInfo>> = const { RefCell::new(None) };
}

#[derive(Clone, Debug, Serialize, Deserialize, PartialEq, Eq)]
pub struct PanicInfo {
    pub message: String,
    /// crate-relative file of the panic site (line numbers deliberately dropped)
    pub file: String,
    pub line: u32,
}

/// Install a hook that records message and location per thread and prints nothing.
pub fn install_panic_hook() {
    std::panic::set_hook(Box::new(|info| {
        let message = info
            .payload()
            .downcast_ref::<String>()
            .cloned()
            .or_else(|| info.payload().downcast_ref::<&str>().map(|s| s.to_string()))
            .unwrap_or_else(|| "<non-string panic>".into());
        let (file, line) = info
            .location()
            .map(|l| (l.file().to_string(), l.line()))
            .unwrap_or_else(|| ("<unknown>".into(), 0));
        let file = file.strip_prefix("/repo/").unwrap_or(&file).to_string();
        LAST_PANIC.with(|p| *p.borrow_mut() = Some(PanicInfo { message, file, line }));
    }));
}

/// Run `f`, turning a panic of the code under test into data.
pub fn guarded<T>(f: impl FnOnce() -> T) -> Result<T, PanicInfo> {
    LAST_PANIC.with(|p| *p.borrow_mut() = None);
    match std::panic::catch_unwind(std::panic::AssertUnwindSafe(f)) {
        | Ok(v) => Ok(v),
        | Err(_) => Err(LAST_PANIC.with(|p| p.borrow_mut().take()).unwrap_or(PanicInfo {
            message: "<panic without hook record>".into(),
            file: "<unknown>".into(),
            line: 0,
        })),
    }
}

/// Classification of a panic raised while *running* an accepted program (C01).
#[derive(Clone, Copy, Debug, Serialize, Deserialize, PartialEq, Eq)]
pub enum PanicClass {
    /// the one defined arithmetic trap: integer division or remainder by zero
    Trap,
    /// host I/O failure reported by a role that has no error continuation
    HostIo,
    /// an undefined machine state (panic!/expect/unreachable! of eval.rs, impls.rs, link.rs ...)
    Stuck,
}

pub fn classify_run_panic(p: &PanicInfo) -> PanicClass {
    let m = p.message.as_str();
    if m.contains("attempt to divide by zero")
        || m.contains("attempt to calculate the remainder with a divisor of zero")
    {
        PanicClass::Trap
    } else if m.contains("legacy standard-input read failed")
        || m.contains("failed to write")
        || m.contains("Broken pipe")
    {
        PanicClass::HostIo
    } else {
        PanicClass::Stuck
    }
}

/// What the front end said about one root.
#[derive(Clone, Debug, Serialize, Deserialize)]
#[serde(tag = "class")]
pub enum Verdict {
    Accepted,
    /// type checker reports (first line of each message)
    Rejected { messages: Vec<String> },
    /// loader / parser / directive errors
    Source { message: String },
    Textual { message: String },
    Desugar { message: String },
    Resolve { message: String },
    Panic { panic: PanicInfo },
}

impl Verdict {
    pub fn accepted(&self) -> bool {
        matches!(self, Verdict::Accepted)
    }
    pub fn is_diagnostic(&self) -> bool {
        !matches!(self, Verdict::Accepted | Verdict::Panic { .. })
    }
    pub fn short(&self) -> String {
        match self {
            | Verdict::Accepted => "accepted".into(),
            | Verdict::Rejected { messages } => {
                format!("rejected: {}", messages.first().cloned().unwrap_or_default())
            }
            | Verdict::Source { message } => format!("source: {message}"),
            | Verdict::Textual { message } => format!("textual: {message}"),
            | Verdict::Desugar { message } => format!("desugar: {message}"),
            | Verdict::Resolve { message } => format!("resolve: {message}"),
            | Verdict::Panic { panic } => format!("panic: {} @ {}", panic.message, panic.file),
        }
    }
}

fn first_line(s: &str) -> String {
    let l = s.lines().next().unwrap_or("").trim();
    l.chars().take(160).collect()
}

/// Strip ANSI escape sequences.
pub fn strip_ansi(s: &str) -> String {
    let mut out = String::new();
    let mut chars = s.chars().peekable();
    while let Some(c) = chars.next() {
        if c == '\u{1b}' {
            if chars.peek() == Some(&'[') {
                chars.next();
                for d in chars.by_ref() {
                    if d.is_ascii_alphabetic() {
                        break;
                    }
                }
            }
        } else {
            out.push(c);
        }
    }
    out
}

/// Render every type-checker report of a rejected analysis the way the CLI does (ariadne, source caches).
pub fn render_reports(a: &ProgramAnalysis) -> Vec<String> {
    let Some(reports) = a.outcome().reports() else { return Vec::new() };
    reports
        .reports
        .iter()
        .map(|r| {
            let mut buf: Vec<u8> = Vec::new();
            let _ = r.write(zydeco_session::SourceCaches::analysis(a), &mut buf);
            strip_ansi(&String::from_utf8_lossy(&buf))
        })
        .collect()
}

pub fn verdict_of(result: &Result<Arc<ProgramAnalysis>, AnalysisError>) -> Verdict {
    match result {
        | Ok(a) => match a.outcome() {
            | AnalysisOutcome::Checked { .. } => Verdict::Accepted,
            | AnalysisOutcome::Rejected { reports } => {
                let rendered = if reports.spans.iter().any(|s| s.is_none()) { render_reports(a) } else { Vec::new() };
                Verdict::Rejected {
                    messages: reports
                        .spans
                        .iter()
                        .enumerate()
                        .map(|(i, s)| match s {
                            | Some(x) => first_line(&x.2),
                            | None => rendered
                                .get(i)
                                .map(|t| first_line(t.trim_start_matches("Error: ")))
                                .unwrap_or_else(|| "<no span>".into()),
                        })
                        .collect(),
                }
            }
        },
        | Err(AnalysisError::Source { error }) => Verdict::Source { message: first_line(&error.to_string()) },
        | Err(AnalysisError::TextualProgram { error }) => {
            Verdict::Textual { message: first_line(&error.to_string()) }
        }
        | Err(AnalysisError::Desugar { error }) => Verdict::Desugar { message: first_line(&error.to_string()) },
        | Err(AnalysisError::Resolve { error, .. }) => {
            Verdict::Resolve { message: first_line(&error.to_string()) }
        }
    }
}

/// A long-lived session analysing texts installed as overlays on scratch files.
pub struct Analyzer {
    pub session: CompilerSession,
    pub dir: PathBuf,
    uses: usize,
    /// companion files installed as overlays; re-installed whenever the session is replaced
    installed: std::collections::BTreeMap<String, String>,
}

impl Analyzer {
    /// `tag` must be unique per thread/process user.
    pub fn new(tag: &str) -> Self {
        let dir = PathBuf::from(WORK).join("ov").join(format!("{}_{}", std::process::id(), tag));
        std::fs::create_dir_all(&dir).expect("create overlay dir");
        Analyzer { session: CompilerSession::default(), dir, uses: 0, installed: Default::default() }
    }
    pub fn path(&self, name: &str) -> PathBuf {
        self.dir.join(name)
    }
    fn touch(&self, path: &Path) {
        if !path.exists() {
            std::fs::write(path, "").expect("touch overlay file");
        }
    }
    /// Analyse `text` as file `name` (other files installed earlier stay visible).
    pub fn analyze(&mut self, name: &str, text: &str) -> (Verdict, Option<Arc<ProgramAnalysis>>) {
        self.uses += 1;
        if self.uses % 400 == 0 {
            // bound the memo tables of the long-lived session
            self.reset_session();
        }
        let path = self.path(name);
        self.touch(&path);
        let text = text.to_string();
        let session = &mut self.session;
        let r = guarded(|| {
            session.set_overlay(&path, text).expect("set_overlay");
            session.analyze(&path)
        });
        match r {
            | Ok(res) => {
                let v = verdict_of(&res);
                (v, res.ok())
            }
            | Err(panic) => {
                // a panic may leave the session poisoned: start over
                self.reset_session();
                (Verdict::Panic { panic }, None)
            }
        }
    }
    /// Install another file of the same scratch directory (an import target).
    pub fn install(&mut self, name: &str, text: &str) {
        let path = self.path(name);
        self.touch(&path);
        self.session.set_overlay(&path, text.to_string()).expect("set_overlay");
        self.installed.insert(name.to_string(), text.to_string());
    }
    /// Start over with a fresh session that sees the same installed files.
    pub fn reset_session(&mut self) {
        self.session = CompilerSession::default();
        for (name, text) in self.installed.clone() {
            let path = self.path(&name);
            self.session.set_overlay(&path, text).expect("set_overlay");
        }
    }
    pub fn cleanup(&self) {
        let _ = std::fs::remove_dir_all(&self.dir);
    }
}

/// How a bounded run of an accepted executable ended.
#[derive(Clone, Debug, Serialize, Deserialize, PartialEq, Eq)]
#[serde(tag = "class")]
pub enum RunEnd {
    Exit { code: i32 },
    Ret,
    /// still stepping at the step bound
    Running,
    Panic {
        #[serde(rename = "pclass")]
        class: PanicClass,
        panic: PanicInfo,
    },
    /// executable_program / linking refused the accepted analysis
    NotExecutable { message: String },
}

#[derive(Clone, Debug, Serialize, Deserialize)]
pub struct RunObs {
    pub end: RunEnd,
    pub stdout: String,
    pub steps: usize,
}

/// Link and run an accepted analysis with single public steps under a bound.
pub fn run_bounded(
    session: &CompilerSession, analysis: &ProgramAnalysis, stdin: &[u8], args: &[String], max_steps: usize,
) -> RunObs {
    let mut output: Vec<u8> = Vec::new();
    let mut steps = 0usize;
    let r = guarded(|| {
        let exe = match session.executable_program(analysis) {
            | Ok(e) => e,
            | Err(e) => return RunEnd::NotExecutable { message: e.to_string() },
        };
        let program = match (BuiltinRootLinker {
            scoped: exe.scoped,
            statics: exe.statics,
            root: exe.root,
            signature: exe.signature,
        })
        .run()
        {
            | Ok(p) => p,
            | Err(e) => return RunEnd::NotExecutable { message: format!("link: {e}") },
        };
        let mut input = std::io::BufReader::new(stdin);
        let mut rt = Runtime::new(&mut input, &mut output, args, program);
        let mut c: Computation = rt.program.root.as_ref().clone();
        loop {
            if steps >= max_steps {
                return RunEnd::Running;
            }
            steps += 1;
            match c.step(&mut rt) {
                | Step::Done(ProgKont::ExitCode(code)) => return RunEnd::Exit { code },
                | Step::Done(ProgKont::Ret(_)) => return RunEnd::Ret,
                | Step::Done(ProgKont::Dry) => return RunEnd::Ret,
                | Step::Step(next) => c = next,
            }
        }
    });
    let end = match r {
        | Ok(e) => e,
        | Err(panic) => RunEnd::Panic { class: classify_run_panic(&panic), panic },
    };
    RunObs { end, stdout: String::from_utf8_lossy(&output).into_owned(), steps }
}

/// Deterministic splitmix64 for seeded choices that must not depend on crate versions.
#[derive(Clone)]
pub struct Rng(pub u64);
impl Rng {
    pub fn next(&mut self) -> u64 {
        self.0 = self.0.wrapping_add(0x9E3779B97F4A7C15);
        let mut z = self.0;
        z = (z ^ (z >> 30)).wrapping_mul(0xBF58476D1CE4E5B9);
        z = (z ^ (z >> 27)).wrapping_mul(0x94D049BB133111EB);
        z ^ (z >> 31)
    }
    pub fn below(&mut self, n: usize) -> usize {
        if n == 0 { 0 } else { (self.next() % n as u64) as usize }
    }
    pub fn chance(&mut self, num: u64, den: u64) -> bool {
        self.next() % den < num
    }
}

pub fn seed_from_env() -> u64 {
    std::env::var("VERIF_SEED").ok().and_then(|s| s.parse::<u64>().ok()).unwrap_or(1)
}

/// Read newline-delimited JSON.
pub fn read_ndjson(path: &Path) -> Vec<serde_json::Value> {
    let text = std::fs::read_to_string(path).unwrap_or_else(|e| panic!("read {}: {e}", path.display()));
    text.lines()
        .filter(|l| !l.trim().is_empty())
        .map(|l| serde_json::from_str(l).unwrap_or_else(|e| panic!("bad json line: {e}: {l}")))
        .collect()
}

/// Run `f` over items on `threads` OS threads (big stacks) with per-thread state; results in input order.
pub fn par_map_with<T: Sync, S, R: Send>(
    items: &[T], threads: usize, init: impl Fn(usize) -> S + Sync, f: impl Fn(&mut S, usize, &T) -> R + Sync,
    fini: impl Fn(S) + Sync,
) -> Vec<R> {
    let n = items.len();
    let next = std::sync::atomic::AtomicUsize::new(0);
    let results: std::sync::Mutex<Vec<Option<R>>> = std::sync::Mutex::new((0..n).map(|_| None).collect());
    std::thread::scope(|s| {
        for tid in 0..threads.max(1) {
            let next = &next;
            let results = &results;
            let f = &f;
            let init = &init;
            let fini = &fini;
            std::thread::Builder::new()
                .stack_size(256 << 20)
                .spawn_scoped(s, move || {
                    let mut state = init(tid);
                    // a stack overflow in the code under test aborts the whole process and cannot be caught: every worker
                    // leaves the index of the item it is working on in a marker file the driver reads after an abort
                    let marker = std::env::var("ZYCONF_INFLIGHT").ok().map(|d| format!("{d}/{tid}"));
                    loop {
                        let i = next.fetch_add(1, std::sync::atomic::Ordering::Relaxed);
                        if i >= n {
                            break;
                        }
                        if let Some(m) = &marker {
                            let _ = std::fs::write(m, i.to_string());
                        }
                        let r = f(&mut state, i, &items[i]);
                        results.lock().unwrap()[i] = Some(r);
                    }
                    if let Some(m) = &marker {
                        let _ = std::fs::remove_file(m);
                    }
                    fini(state);
                })
                .expect("spawn");
        }
    });
    results.into_inner().unwrap().into_iter().map(|r| r.expect("result")).collect()
}

pub fn threads() -> usize {
    std::env::var("VERIF_THREADS").ok().and_then(|s| s.parse().ok()).unwrap_or(16)
}
