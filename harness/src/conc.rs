//! C17: randomized stress of analyses on session snapshots while the owner edits and other threads
//! allocate identifiers; the event trace is validated by spec/ZySessionConcTrace.tla.  Also the
//! sequential pending-slot scenario of `check_resolved`.
use crate::common::*;
use crate::session::{fname, text};
use serde_json::{Value, json};
use std::collections::BTreeSet;
use std::path::{Path, PathBuf};
use std::sync::mpsc;
use std::time::{Duration, Instant};
use zydeco_session::{AnalysisError, AnalysisOutcome, CompilerSession, SourceLoadError};

fn short(p: &Path) -> String {
    let n = p.file_name().map(|s| s.to_string_lossy().to_string()).unwrap_or_default();
    match n.trim_end_matches('/') {
        | "root.zy" => "root".into(),
        | "lib.zy" => "lib".into(),
        | "lib.zyi" => "sig".into(),
        | "other.zy" => "oth".into(),
        | o => o.to_string(),
    }
}
fn load_err(e: &SourceLoadError) -> (String, String) {
    match e {
        | SourceLoadError::RootPath { path, .. } => ("missing".into(), short(path)),
        | SourceLoadError::ImportPath { requested, .. } => ("missing".into(), short(requested)),
        | SourceLoadError::Read { path, .. } => ("missing".into(), short(path)),
        | SourceLoadError::Parse(zydeco_session::source::SourceParseError::Parse { path, .. }) => ("parse".into(), short(path)),
        | SourceLoadError::Parse(_) => ("parse-directive".into(), String::new()),
        | SourceLoadError::Cycle(_) => ("cycle".into(), "none".into()),
        | other => (format!("other:{other}"), String::new()),
    }
}

/// The queries of one analysis, with NO catch_unwind inside: salsa cancels by unwinding.
fn queries(s: &CompilerSession, root: &Path) -> Value {
    let (gk, gat, files) = match s.graph(root) {
        | Ok(g) => (
            "ok".to_string(),
            "none".to_string(),
            g.sources.iter().map(|(_, f)| short(&f.path)).filter(|n| ["root", "lib", "sig", "oth"].contains(&n.as_str())).collect::<BTreeSet<_>>(),
        ),
        | Err(e) => {
            let (k, at) = load_err(&e);
            (k, at, BTreeSet::new())
        }
    };
    let mut exe: i64 = -1;
    let an = match s.analyze(root) {
        | Ok(a) => match a.outcome() {
            | AnalysisOutcome::Checked { .. } => {
                if let Ok(e) = s.executable_program(&a) {
                    // run without the guarded wrapper for the same reason
                    let program = zydeco_dynamics::BuiltinRootLinker { scoped: e.scoped, statics: e.statics, root: e.root, signature: e.signature }.run();
                    if let Ok(program) = program {
                        let mut input = std::io::empty();
                        let mut out: Vec<u8> = Vec::new();
                        let args: Vec<String> = vec![];
                        exe = match zydeco_dynamics::Runtime::new(&mut input, &mut out, &args, program).run() {
                            | zydeco_dynamics::ProgKont::ExitCode(c) => c as i64,
                            | _ => -2,
                        };
                    }
                }
                "checked".to_string()
            }
            | AnalysisOutcome::Rejected { .. } => "rejected".to_string(),
        },
        | Err(AnalysisError::Source { error }) => load_err(&error).0,
        | Err(e) => format!("other:{e}").chars().take(60).collect(),
    };
    json!({"graph": gk, "at": gat, "files": files.into_iter().collect::<Vec<_>>(), "analyze": an, "exe": exe})
}

/// zyconf stress-snapshots TRACE THREADS SECONDS
pub fn stress_snapshots(trace_path: &str, workers: usize, secs: u64) {
    let seed = seed_from_env();
    let dir = PathBuf::from(WORK).join("conc").join(format!("{}", std::process::id()));
    let _ = std::fs::remove_dir_all(&dir);
    std::fs::create_dir_all(&dir).unwrap();
    let files = ["root", "lib", "sig", "oth"];
    let variants: [&[&str]; 4] =
        [&["R1", "R2", "R3", "R4", "R5", "R6", "R6", "R6"], &["L1", "L2", "L3", "L4", "L5", "L6", "L7"], &["S1", "S2", "S3", "S4"], &["O1", "O2", "O3"]];
    // every file exists on disk from the start; the owner edits through overlays and disk writes
    let mut eff: Vec<&str> = vec!["R6", "L6", "S2", "O2"];
    for i in 0..4 {
        std::fs::write(dir.join(fname(files[i])), text(eff[i])).unwrap();
    }
    let root = dir.join("root.zy");
    let mut session = CompilerSession::default();
    // The session reads a file from disk when it is first looked up.  Every file is looked up once
    // before any snapshot exists (the start state imports all four), so that afterwards disk contents
    // enter the session only through the owner's refresh_disk/clear_overlay and "the contents a
    // snapshot saw" is exactly what the owner had installed.
    let _ = queries(&session, &root);
    let (res_tx, res_rx) = mpsc::channel::<(usize, Value)>();
    let mut txs = vec![];
    let mut handles = vec![];
    for _w in 0..workers {
        let (tx, rx) = mpsc::channel::<(usize, CompilerSession)>();
        txs.push(tx);
        let res_tx = res_tx.clone();
        let root = root.clone();
        handles.push(std::thread::Builder::new().stack_size(256 << 20).spawn(move || {
            for (id, snap) in rx {
                let r = std::panic::catch_unwind(std::panic::AssertUnwindSafe(|| {
                    salsa::Cancelled::catch(std::panic::AssertUnwindSafe(|| queries(&snap, &root)))
                }));
                drop(snap);
                let ev = match r {
                    | Ok(Ok(answer)) => json!({"ev":"result","id":id,"cancelled":false,"answer":answer}),
                    | Ok(Err(_c)) => json!({"ev":"result","id":id,"cancelled":true,"answer":{"graph":"","at":"","files":[],"analyze":"","exe":-1}}),
                    | Err(_) => json!({"ev":"result","id":id,"cancelled":false,"answer":{"graph":"PANIC","at":"","files":[],"analyze":"PANIC","exe":-9}}),
                };
                let _ = res_tx.send((id, ev));
            }
        }).unwrap());
    }
    // allocator threads: every Parser owns a fresh IdAllocator, i.e. a fresh key space
    let stop = std::sync::Arc::new(std::sync::atomic::AtomicBool::new(false));
    let mut alloc_handles = vec![];
    for _ in 0..4 {
        let stop = stop.clone();
        alloc_handles.push(std::thread::spawn(move || {
            use zydeco_utils::arena::ArenaId;
            let mut ids: Vec<u64> = Vec::new();
            while !stop.load(std::sync::atomic::Ordering::Relaxed) && ids.len() < 4000 {
                if let Ok(p) = crate::front::parse_unit("x") {
                    ids.push(p.unit.root.key_space().as_u64());
                }
            }
            ids
        }));
    }
    let mut rng = Rng(seed.wrapping_mul(0x9E3779B97F4A7C15) | 1);
    let t0 = Instant::now();
    let mut snapshots: Vec<Value> = Vec::new();
    let mut max_block = Duration::ZERO;
    let mut writes = 0usize;
    while t0.elapsed() < Duration::from_secs(secs) {
        for _ in 0..(1 + rng.below(workers)) {
            let id = snapshots.len();
            snapshots.push(json!({"ev":"snapshot","id":id,"eff":{"root":eff[0],"lib":eff[1],"sig":eff[2],"oth":eff[3]}}));
            txs[rng.below(workers)].send((id, session.snapshot())).unwrap();
        }
        if rng.chance(1, 3) {
            std::thread::sleep(Duration::from_micros(rng.below(30000) as u64));
        }
        let i = rng.below(4);
        let v = variants[i][rng.below(variants[i].len())];
        // the owner names the file by one of its spellings (spec/ZySession.tla: the state is per file, not per spelling)
        let p = match rng.below(3) {
            | 0 => dir.join(fname(files[i])),
            | 1 => dir.join(".").join(fname(files[i])),
            | _ => {
                let _ = std::fs::create_dir_all(dir.join("sub"));
                dir.join("sub").join("..").join(fname(files[i]))
            }
        };
        let t1 = Instant::now();
        if rng.chance(1, 2) {
            session.set_overlay(&p, text(v).to_string()).unwrap();
        } else {
            // disk write + refresh; an overlay would shadow it, so clear the overlay as well
            std::fs::write(&p, text(v)).unwrap();
            let _ = session.refresh_disk(&p);
            let _ = session.clear_overlay(&p);
        }
        max_block = max_block.max(t1.elapsed());
        writes += 1;
        eff[i] = v;
        if max_block > Duration::from_secs(60) {
            break;
        }
    }
    drop(txs);
    stop.store(true, std::sync::atomic::Ordering::Relaxed);
    let sent = snapshots.len();
    let mut results: Vec<Option<Value>> = vec![None; sent];
    let mut got = 0;
    let mut timed_out = false;
    while got < sent {
        match res_rx.recv_timeout(Duration::from_secs(60)) {
            | Ok((id, ev)) => {
                results[id] = Some(ev);
                got += 1;
            }
            | Err(_) => {
                timed_out = true;
                break;
            }
        }
    }
    let mut out = String::new();
    let (mut completed, mut cancelled) = (0, 0);
    for (id, s) in snapshots.iter().enumerate() {
        out.push_str(&serde_json::to_string(s).unwrap());
        out.push('\n');
        match &results[id] {
            | Some(r) => {
                if r["cancelled"].as_bool().unwrap() { cancelled += 1 } else { completed += 1 }
                out.push_str(&serde_json::to_string(r).unwrap());
                out.push('\n');
            }
            | None => {
                // a worker that never answered: the spec rejects this event
                out.push_str(&serde_json::to_string(&json!({"ev":"result","id":id,"cancelled":false,"answer":{"graph":"TIMEOUT","at":"","files":[],"analyze":"TIMEOUT","exe":-9}})).unwrap());
                out.push('\n');
            }
        }
    }
    let mut spaces = 0;
    for h in alloc_handles {
        let ids = h.join().unwrap_or_default();
        spaces += ids.len();
        out.push_str(&serde_json::to_string(&json!({"ev":"keyspaces","ids":ids})).unwrap());
        out.push('\n');
    }
    std::fs::write(trace_path, out).expect("write trace");
    let _ = std::fs::remove_dir_all(&dir);
    println!(
        "stress-snapshots: workers={workers} snapshots={sent} completed={completed} cancelled={cancelled} writes={writes} keyspaces={spaces} max_write_block_ms={} timed_out={timed_out}",
        max_block.as_millis()
    );
}

/// zyconf pending-slot SUMMARY : sequential calls of check_resolved on ONE session must each be
/// answered with the result of their own program (the model's OwnAnswer).
pub fn pending_slot(out_path: &str) {
    let mut findings: Vec<Value> = Vec::new();
    let r = guarded(|| {
        let programs = ["ret 1", "()", "fn x => x", "(1, 2)"];
        let session = CompilerSession::default();
        let mut sorts = Vec::new();
        for p in programs {
            sorts.push(crate::conc_pending::check_resolved_sort(&session, p));
        }
        sorts
    });
    match r {
        | Ok(sorts) => {
            let fresh: Vec<String> = ["ret 1", "()", "fn x => x", "(1, 2)"]
                .iter()
                .map(|p| crate::conc_pending::check_resolved_sort(&CompilerSession::default(), p))
                .collect();
            if sorts != fresh {
                findings.push(json!({"property":"C17","kind":"pending-slot-answers-with-another-program",
                    "detail": format!("one session: {sorts:?}; one session per call: {fresh:?}")}));
            }
        }
        | Err(p) => findings.push(json!({"property":"C17","kind":"pending-slot-panic","detail":format!("{} @ {}", p.message, p.file)})),
    }
    std::fs::write(out_path, serde_json::to_string_pretty(&json!({"cases": 4, "findings": findings})).unwrap()).expect("write");
    println!("pending-slot: findings={}", findings.len());
}

/// zyconf snapshot-first-lookup : does an edit by the owner reach analyses whose inputs were first created inside a snapshot?
pub fn snapshot_first_lookup() {
    use zydeco_session::CompilerSession;
    let dir = std::path::PathBuf::from(crate::common::WORK).join("conc").join(format!("sfl_{}", std::process::id()));
    let _ = std::fs::remove_dir_all(&dir);
    std::fs::create_dir_all(&dir).unwrap();
    let root = dir.join("root.zy");
    std::fs::write(&root, "()").unwrap();
    let mut owner = CompilerSession::default();
    // the owner has never looked the file up; a snapshot does
    let s1 = owner.snapshot();
    let a1 = s1.analyze(&root).map(|a| a.outcome().root().is_some());
    drop(s1);
    owner.set_overlay(&root, "( (".to_string()).unwrap();   // now a syntax error
    let s2 = owner.snapshot();
    let a2 = s2.analyze(&root).map(|a| a.outcome().root().is_some());
    let a3 = owner.analyze(&root).map(|a| a.outcome().root().is_some());
    println!("first (valid text) {:?}; after the owner's edit: new snapshot {:?}, owner {:?}", a1.is_ok(), a2.is_ok(), a3.is_ok());
    // disk edit + refresh
    std::fs::write(&root, "( (").unwrap();
    let mut owner2 = CompilerSession::default();
    let s = owner2.snapshot();
    let b1 = s.analyze(&root).is_ok();
    drop(s);
    std::fs::write(&root, "()").unwrap();
    let r = owner2.refresh_disk(&root).is_ok();
    let b2 = owner2.snapshot().analyze(&root).is_ok();
    println!("disk: first (syntax error) ok={b1}; after write+refresh_disk (ok={r}) of valid text: new snapshot ok={b2}");
    let _ = std::fs::remove_dir_all(&dir);
}
