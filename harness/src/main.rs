//! zyconf — conformance harness binding the TLA+ specifications under /verif/spec to /repo.
mod common;
mod conc;
mod conc_pending;
mod core;
mod exists;
mod poly;
mod fmtcheck;
mod corpus;
mod backend;
mod blocks;
mod coverage;
mod front;
mod frontend;
mod graph;
mod host;
mod lexer;
mod monadic;
mod numeric;
mod roles;
mod scope;
mod session;
mod sources;

use crate::core::{Ann, Naming};

fn mode(m: &str) -> (Ann, Naming) {
    match m {
        | "full-unique" => (Ann::Full, Naming::Unique),
        | "full-shadow" => (Ann::Full, Naming::Shadow),
        | "full-random" => (Ann::Full, Naming::Random),
        | "lean-unique" => (Ann::Lean, Naming::Unique),
        | "lean-shadow" => (Ann::Lean, Naming::Shadow),
        | "lean-random" => (Ann::Lean, Naming::Random),
        | other => panic!("unknown mode {other}"),
    }
}

fn main() {
    common::install_panic_hook();
    let args: Vec<String> = std::env::args().collect();
    let cmd = args.get(1).map(String::as_str).unwrap_or("");
    match cmd {
        | "replay-core" => {
            // zyconf replay-core CASES OUT MODES
            let modes: Vec<(Ann, Naming)> = args
                .get(4)
                .map(String::as_str)
                .unwrap_or("full-unique")
                .split(',')
                .map(mode)
                .collect();
            core::replay_core(&args[2], &args[3], &modes, 97);
        }
        | "render-core" => {
            let (a, n) = mode(&args[4]);
            core::render_core(&args[2], &args[3], a, n);
        }
        | "replay-coverage" => coverage::replay_coverage(&args[2], &args[3], &args[4]),
        | "replay-comatch" => coverage::replay_comatch(&args[2], &args[3]),
        | "replay-graph" => graph::replay_graph(&args[2], &args[3]),
        | "replay-blocks" => blocks::replay_blocks(&args[2], &args[3]),
        | "replay-lexer" => lexer::replay_lexer(&args[2], &args[3]),
        | "junk-suffix" => lexer::junk_suffix(&args[2]),
        | "generativity" => sources::generativity(&args[2]),
        | "replay-sources" => sources::replay_sources(&args[2], &args[3]),
        | "replay-split" => core::replay_split(&args[2], &args[3]),
        | "record-session" => session::record_session(&args[2], args[3].parse().unwrap(), args[4].parse().unwrap()),
        | "replay-session" => session::replay_session(&args[2], &args[3]),
        | "stress-snapshots" => conc::stress_snapshots(&args[2], args[3].parse().unwrap(), args[4].parse().unwrap()),
        | "pending-slot" => conc::pending_slot(&args[2]),
        | "replay-numeric" => numeric::replay_numeric(&args[2], &args[3]),
        | "literal-discipline" => numeric::literal_discipline(&args[2]),
        | "replay-host" => host::replay_host(&args[2], &args[3]),
        | "classifier-mutants" => host::classifier_mutants(&args[2], args[3].parse().unwrap()),
        | "role-table" => host::role_table(&args[2]),
        | "replay-scope" => scope::replay_scope(&args[2], &args[3]),
        | "export-ir" => backend::export_ir(&args[2], &args[3], &args[4], args[5].parse().unwrap()),
        | "corpus-lower" => backend::corpus_lower(&args[2], &args[3]),
        | "replay-monadic" => monadic::replay_monadic(&args[2], &args[3]),
        | "fuzz-frontend" => frontend::fuzz_frontend(&args[2], &args[3], &args[4], args[5].parse().unwrap(), args[6].parse().unwrap()),
        | "vocab-classes" => frontend::print_vocab(),
        | "replay-exists" => exists::replay_exists(&args[2], &args[3]),
        | "render-coverage" => coverage::render_coverage(&args[2], &args[3], args[4].parse().unwrap()),
        | "replay-poly" => poly::replay_poly(&args[2], &args[3]),
        | "snapshot-first-lookup" => conc::snapshot_first_lookup(),
        | "fmt-dump" => fmtcheck::fmt_dump(&args[2]),
        | "corpus-format" => fmtcheck::corpus_format(&args[2], &args[3], &args[4], args[5].parse().unwrap()),
        | "replay-format" => fmtcheck::replay_format(&args[2], &args[3], &args[4], &args[5]),
        | "corpus-run" => {
            // zyconf corpus-run OUT MUTANTS_PER_FILE MAX_STEPS
            corpus::corpus_run(&args[2], args[3].parse().unwrap(), args[4].parse().unwrap());
        }
        | _ => {
            eprintln!("usage: zyconf <subcommand> ...");
            std::process::exit(2);
        }
    }
}
