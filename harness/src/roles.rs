//! Running one host role on a real `Runtime` through a hand-built `DynamicsProgram` (C05, C06).
use crate::common::*;
use std::rc::Rc;
use zydeco_dynamics::syntax::*;
use zydeco_dynamics::{ProgKont, Runtime};

pub fn lit(l: Literal) -> RcValue {
    Rc::new(Value::Lit(l))
}
pub fn int64(n: i64) -> RcValue {
    lit(Literal::Integer(IntegerLiteral::Int64(n)))
}
/// `{ ret code }`
pub fn thunk_ret(code: i64) -> RcValue {
    let body: Computation = Return(int64(code)).into();
    Rc::new(Value::Thunk(Thunk(Rc::new(body))))
}

#[derive(Debug, Clone)]
pub enum RoleEnd {
    Ret(SemValue),
    Exit(i32),
    Panic(PanicInfo),
}

/// Apply `role` to `args` and run to completion with the given stdin; returns the end and stdout.
pub fn run_role(role: BuiltinValueRole, args: Vec<RcValue>, stdin: &[u8], argv: &[String]) -> (RoleEnd, Vec<u8>) {
    let mut output: Vec<u8> = Vec::new();
    let r = guarded(|| {
        let mut c: Computation = Prim { arity: role.arity() as u64, role }.into();
        for a in args {
            c = App(Rc::new(c), a).into();
        }
        let program = DynamicsProgram { defs: Default::default(), root: Rc::new(c) };
        let mut input = std::io::BufReader::new(stdin);
        Runtime::new(&mut input, &mut output, argv, program).run()
    });
    let end = match r {
        | Ok(ProgKont::Ret(v)) => RoleEnd::Ret(v),
        | Ok(ProgKont::ExitCode(c)) => RoleEnd::Exit(c),
        | Ok(ProgKont::Dry) => RoleEnd::Exit(-1),
        | Err(p) => RoleEnd::Panic(p),
    };
    (end, output)
}

pub fn as_int(v: &SemValue) -> Option<i128> {
    match v {
        | SemValue::Literal(Literal::Integer(i)) => Some(i.value()),
        | _ => None,
    }
}
pub fn as_string(v: &SemValue) -> Option<String> {
    match v {
        | SemValue::Literal(Literal::String(s)) => Some(s.to_string()),
        | _ => None,
    }
}
