//! C07: named terms enumerated by spec/ZyScope.tla are rendered (recording the byte offset of every
//! name written), resolved by the real pipeline, and the real occurrence -> binder map — read back from
//! `ProgramAnalysis::{scoped, spans}` by source position — must equal the model's Res.
use crate::common::*;
use serde_json::{Value, json};
use std::collections::{BTreeMap, BTreeSet};
use zydeco_session::AnalysisError;
use zydeco_surface::scoped::syntax::Term;
use zydeco_syntax::SpanView;

struct R {
    files: Vec<String>,           // file 0 is the root
    cur: usize,
    uses: BTreeMap<i64, (usize, usize)>,            // use id -> (file, offset)
    binds: BTreeMap<(usize, usize), (usize, usize)>, // (token, slot) -> (file, offset)
}
impl R {
    fn w(&mut self, t: &str) {
        self.files[self.cur].push_str(t);
    }
    fn pos(&self) -> (usize, usize) {
        (self.cur, self.files[self.cur].len())
    }
}
fn s(t: &Value, k: &str) -> String {
    t[k].as_str().unwrap().to_string()
}

fn go(toks: &[Value], i: usize, r: &mut R) -> usize {
    let t = &toks[i];
    let k = s(t, "k");
    let tokno = i + 1; // TLA+ positions are 1-based
    let mut j = i + 1;
    match k.as_str() {
        | "var" => {
            let p = r.pos();
            r.uses.insert(tokno as i64, p);
            r.w(&s(t, "n"));
            return j;
        }
        | "unit" => {
            r.w("()");
            return j;
        }
        | _ => {}
    }
    r.w("(");
    let name = |r: &mut R, field: &str, slot: usize| {
        let p = r.pos();
        r.binds.insert((tokno, slot), p);
        r.w(&s(t, field));
    };
    match k.as_str() {
        | "fn" => { r.w("fn "); name(r, "n1", 1); r.w(" => "); j = go(toks, j, r); }
        | "fix" => { r.w("fix "); name(r, "n1", 1); r.w(" => "); j = go(toks, j, r); }
        | "fnp" => { r.w("fn ("); name(r, "n1", 1); r.w(", "); name(r, "n2", 2); r.w(") => "); j = go(toks, j, r); }
        | "fna" => {
            r.w("fn ("); name(r, "n1", 1); r.w(" : ");
            let p = r.pos();
            r.uses.insert(-(tokno as i64), p);
            r.w(&s(t, "n2"));
            r.w(") => "); j = go(toks, j, r);
        }
        | "do" => { r.w("do "); name(r, "n1", 1); r.w(" <- "); j = go(toks, j, r); r.w("; "); j = go(toks, j, r); }
        | "let" => { r.w("let "); name(r, "n1", 1); r.w(" = "); j = go(toks, j, r); r.w(" in "); j = go(toks, j, r); }
        | "letp" => { r.w("let ("); name(r, "n1", 1); r.w(", "); name(r, "n2", 2); r.w(") = "); j = go(toks, j, r); r.w(" in "); j = go(toks, j, r); }
        | "pair" => { j = go(toks, j, r); r.w(", "); j = go(toks, j, r); }
        | "match" => {
            r.w("match "); j = go(toks, j, r);
            r.w(" | +A("); name(r, "n1", 1); r.w(") => "); j = go(toks, j, r);
            r.w(" | +B("); name(r, "n2", 2); r.w(") => "); j = go(toks, j, r); r.w(" end");
        }
        | "block" => {
            r.w("begin let "); name(r, "n1", 1); r.w(" = "); j = go(toks, j, r);
            r.w(" that let "); name(r, "n2", 2); r.w(" = "); j = go(toks, j, r);
            r.w(" that "); j = go(toks, j, r); r.w(" end");
        }
        | "blockp" => { r.w("begin param "); name(r, "n1", 1); r.w(" that "); j = go(toks, j, r); r.w(" end"); }
        | "blk" => { r.w("begin "); j = go(toks, j, r); r.w(" end"); }
        | "lthat" => { r.w("let "); name(r, "n1", 1); r.w(" = "); j = go(toks, j, r); r.w(" that "); j = go(toks, j, r); }
        | "pthat" => { r.w("param "); name(r, "n1", 1); r.w(" that "); j = go(toks, j, r); }
        | "imp" => {
            let file = r.files.len();
            r.files.push(String::new());
            r.w(&format!("@(import(\"imp{file}.zy\"))"));
            let back = r.cur;
            r.cur = file;
            j = go(toks, j, r);
            r.cur = back;
        }
        | other => panic!("scope token {other}"),
    }
    r.w(")");
    j
}

/// zyconf replay-scope CASES SUMMARY
pub fn replay_scope(cases_path: &str, out_path: &str) {
    let cases = read_ndjson(std::path::Path::new(cases_path));
    let results: Vec<(Vec<Value>, &'static str)> = par_map_with(
        &cases,
        threads(),
        |tid| Analyzer::new(&format!("scope{tid}")),
        |an, _idx, case| {
            let toks = case["prog"].as_array().unwrap();
            let mut r = R { files: vec![String::new()], cur: 0, uses: Default::default(), binds: Default::default() };
            let end = go(toks, 0, &mut r);
            assert_eq!(end, toks.len());
            let names: Vec<String> = (0..r.files.len()).map(|i| if i == 0 { "case.zy".to_string() } else { format!("imp{i}.zy") }).collect();
            for i in 1..r.files.len() {
                an.install(&names[i], &r.files[i]);
            }
            let file_of = |p: Option<&std::path::PathBuf>| -> usize {
                let n = p.and_then(|p| p.file_name()).map(|x| x.to_string_lossy().to_string()).unwrap_or_default();
                names.iter().position(|x| *x == n).unwrap_or(0)
            };
            // the model's map by source position
            let mut want: BTreeMap<(usize, usize), (usize, usize)> = BTreeMap::new();
            let mut unbound: BTreeSet<String> = BTreeSet::new();
            for e in case["res"].as_array().unwrap() {
                let u = r.uses[&e["use"].as_i64().unwrap()];
                let tok = e["tok"].as_u64().unwrap() as usize;
                if tok == 0 {
                    let useid = e["use"].as_i64().unwrap();
                    let t = &toks[useid.unsigned_abs() as usize - 1];
                    unbound.insert(if useid > 0 { s(t, "n") } else { s(t, "n2") });
                } else {
                    want.insert(u, r.binds[&(tok, e["slot"].as_u64().unwrap() as usize)]);
                }
            }
            let dup = case["dup"].as_bool().unwrap();
            let noblock = case["noblock"].as_bool().unwrap_or(false);
            let src = r.files[0].clone();
            let session_result = {
                let path = an.path("case.zy");
                an.install("case.zy", &src);
                guarded(|| an.session.analyze(&path))
            };
            let mut findings = Vec::new();
            let mk = |kind: &str, detail: String| json!({"property":"C07","kind":kind,"detail":detail,"case":case,"sources":r.files});
            let class;
            match session_result {
                | Err(p) => {
                    class = "panic";
                    // not a scoping verdict; panics of the checker on these untyped terms belong to C10
                    let _ = p;
                }
                | Ok(Ok(a)) => {
                    class = "resolved";
                    let ctx = (a.spans(), a.scoped());
                    let mut got: BTreeMap<(usize, usize), (usize, usize)> = BTreeMap::new();
                    for (id, term) in a.scoped().terms.iter() {
                        if let Term::Var(def) = term {
                            let us = id.span(&ctx);
                            let bs = def.span(&ctx);
                            got.insert((file_of(us.get_path()), us.get_cursor1().0), (file_of(bs.get_path()), bs.get_cursor1().0));
                        }
                    }
                    if !unbound.is_empty() || dup || noblock {
                        findings.push(mk("resolves-what-the-rules-reject", format!("model: unbound {unbound:?} duplicate {dup} that-without-block {noblock}")));
                    } else if got != want {
                        let diff: Vec<String> = want.iter().filter(|(k, v)| got.get(k) != Some(v)).map(|(k, v)| format!("use {k:?}: rules say binder {v:?}, resolver says {:?}", got.get(k))).collect();
                        findings.push(mk("occurrence-bound-to-wrong-binder", diff.join("; ")));
                    }
                }
                | Ok(Err(AnalysisError::Resolve { error, .. })) => {
                    let msg = format!("{error}");
                    if msg.starts_with("Unbound variable") {
                        class = "unbound";
                        let name = msg.split_whitespace().nth(2).unwrap_or("").to_string();
                        if !unbound.contains(&name) {
                            findings.push(mk("spurious-unbound-variable", format!("resolver: {msg}; rules: unbound {unbound:?}")));
                        }
                    } else if msg.starts_with("Duplicate definition") {
                        class = "duplicate";
                        if !dup {
                            findings.push(mk("spurious-duplicate-definition", msg));
                        }
                    } else if msg.contains("requires an enclosing `begin` block") {
                        class = "that-without-block";
                        if !noblock {
                            findings.push(mk("spurious-that-without-block", msg));
                        }
                    } else {
                        class = "other-resolve-error";
                        findings.push(mk("unexpected-resolve-error", msg));
                    }
                }
                | Ok(Err(other)) => {
                    let msg: String = format!("{other}").chars().take(200).collect();
                    if msg.contains("Mobile binding without a block") || msg.contains("without a block") {
                        class = "that-without-block";
                        if !noblock {
                            findings.push(mk("spurious-that-without-block", msg));
                        }
                    } else {
                        class = "other-error";
                        findings.push(mk("unexpected-error", msg));
                    }
                }
            }
            (findings, class)
        },
        |an| an.cleanup(),
    );
    let mut findings = Vec::new();
    let mut classes: BTreeMap<&str, usize> = BTreeMap::new();
    for (f, c) in results {
        findings.extend(f);
        *classes.entry(c).or_default() += 1;
    }
    let samples: Vec<&Value> = cases.iter().step_by((cases.len() / 4).max(1)).take(4).collect();
    std::fs::write(out_path, serde_json::to_string_pretty(&json!({"cases": cases.len(), "classes": classes, "findings": findings, "samples": samples})).unwrap()).expect("write");
    println!("replay-scope: cases={} findings={}", cases.len(), findings.len());
}
