//! ZyCore conformance: prefix-token programs printed by TLC (spec/ZyCore.tla) are rendered as
//! Zydeco source, analysed and run by the real tool chain, and compared with TLC's prediction.
//! Serves C01 (stuck freedom), C02 (observable behaviour), C03 (verdict), C07 (naming strategies).
use crate::common::*;
use serde_json::{Value, json};
use std::collections::BTreeMap;

pub const PRELUDE: &str = r#"param (
  (/core; /representations; /numeric; /text; /system) :
  @(import("/repo/lib/std/builtin.zy"))
) in
let (/VType; /CType; /Thk; /Ret; /Unit) = core in
let (/Scalar = String) = representations/string in
let (Scalar = Int64, int64) = numeric/int64 in
let string = text/string in
let (/process; /OS; /stdio) = system in
let B = data | +T : Unit | +F : Int64 end in
let O = data | +N : Unit | +J : Int64 * Int64 | +K : B end in
let S = codata | .fst : Ret Int64 | .snd : Int64 -> Ret Int64 end in
let P = codata | .run : OS | .get : Ret B end in
let B1 = data | +T : Unit end in
let S1 = codata | .fst : Ret Int64 end in
let S3 = codata | .go : Int64 -> Int64 -> Int64 -> Ret Int64 end in
"#;

#[derive(Clone, Debug)]
pub struct Node {
    pub tok: Value,
    pub kids: Vec<Node>,
}

fn data_arms(d: &str) -> Vec<(&'static str, Value)> {
    match d {
        | "B" => vec![("T", json!({"t":"unit"})), ("F", json!({"t":"int"}))],
        | "B1" => vec![("T", json!({"t":"unit"}))],
        | "O" => vec![
            ("N", json!({"t":"unit"})),
            ("J", json!({"t":"pair","a":{"t":"int"},"b":{"t":"int"}})),
            ("K", json!({"t":"data","n":"B"})),
        ],
        | _ => vec![],
    }
}
fn co_arms(d: &str) -> Vec<(&'static str, Value)> {
    match d {
        | "S" => vec![
            ("fst", json!({"t":"ret","a":{"t":"int"}})),
            ("snd", json!({"t":"fn","a":{"t":"int"},"c":{"t":"ret","a":{"t":"int"}}})),
        ],
        | "P" => vec![("run", json!({"t":"os"})), ("get", json!({"t":"ret","a":{"t":"data","n":"B"}}))],
        | "S1" => vec![("fst", json!({"t":"ret","a":{"t":"int"}}))],
        | "S3" => vec![("go", json!({"t":"fn","a":{"t":"int"},"c":{"t":"fn","a":{"t":"int"},"c":{"t":"fn","a":{"t":"int"},"c":{"t":"ret","a":{"t":"int"}}}}}))],
        | _ => vec![],
    }
}

fn s(v: &Value, k: &str) -> String {
    v[k].as_str().unwrap_or_else(|| panic!("token field {k} missing in {v}")).to_string()
}
fn n(v: &Value, k: &str) -> i64 {
    v[k].as_i64().unwrap_or_else(|| panic!("token int field {k} missing in {v}"))
}

pub fn arity(tok: &Value) -> usize {
    let k = s(tok, "k");
    match k.as_str() {
        | "var" | "int" | "unit" | "str" | "tyterm" | "import" => 0,
        | "thunk" | "ret" | "lam" | "force" | "exit" | "ctor" | "dtor" | "fix" | "i2s" | "vlam" => 1,
        | "do" | "app" | "let" | "arith" | "pair" | "matchP" | "wl" | "sapp" | "vapp" | "vlet" => 2,
        | "br" => 4,
        | "match" => 1 + data_arms(&s(tok, "d")).len() - if n(tok, "skip") == 0 { 0 } else { 1 },
        | "comatch" => co_arms(&s(tok, "d")).len() - if n(tok, "skip") == 0 { 0 } else { 1 },
        | other => panic!("unknown token kind {other}"),
    }
}

pub fn parse(toks: &[Value], i: &mut usize) -> Node {
    let tok = toks[*i].clone();
    *i += 1;
    let kids = (0..arity(&tok)).map(|_| parse(toks, i)).collect();
    Node { tok, kids }
}

pub fn ty(t: &Value) -> String {
    match s(t, "t").as_str() {
        | "int" => "Int64".into(),
        | "unit" => "Unit".into(),
        | "str" => "String".into(),
        | "os" => "OS".into(),
        | "kind" => "VType".into(),
        | "data" | "codata" => s(t, "n"),
        | "pair" => format!("({} * {})", ty(&t["a"]), ty(&t["b"])),
        | "thk" => format!("Thk ({})", ty(&t["c"])),
        | "ret" => format!("Ret ({})", ty(&t["a"])),
        | "fn" => format!("({} -> {})", ty(&t["a"]), ty(&t["c"])),
        | "vfn" => format!("({} -> {})", ty(&t["a"]), ty(&t["b"])),
        | other => panic!("unknown type former {other}"),
    }
}

/// How binder names are chosen (C07 varies this; the prediction never depends on it).
#[derive(Clone, Copy, Debug, PartialEq, Eq)]
pub enum Naming {
    /// x0, x1, ... by binding depth
    Unique,
    /// reuse the same few names as aggressively as capture-freedom allows
    Shadow,
    /// seeded random choice among capture-free names, including prelude names
    Random,
}

/// How many annotations are written.
#[derive(Clone, Copy, Debug, PartialEq, Eq)]
pub enum Ann {
    /// every former carries its type
    Full,
    /// only what bidirectional checking needs: binders and checking-only formers in synthesis position
    Lean,
}

pub struct Renderer {
    pub ann: Ann,
    pub naming: Naming,
    pub rng: Rng,
}

/// Names that are free for binders: none of them is used by the prelude or by rendered code.
const POOL: [&str; 6] = ["a", "b", "c", "x", "y", "z"];

impl Renderer {
    /// Levels (1-based de Bruijn levels) that occur free in the scope `nodes` entered with `depth` binders.
    fn used_levels(node: &Node, out: &mut Vec<usize>) {
        if s(&node.tok, "k") == "var" {
            out.push(n(&node.tok, "i") as usize);
        }
        for k in &node.kids {
            Self::used_levels(k, out);
        }
    }

    /// Choose a name for a new binder whose scope is `scope`; `ctx` holds the names in scope.
    /// The name may shadow any outer binder that is not referenced inside the scope.
    fn fresh(&mut self, ctx: &[String], scopes: &[&Node]) -> String {
        match self.naming {
            | Naming::Unique => format!("x{}", ctx.len()),
            | Naming::Shadow | Naming::Random => {
                let mut used = Vec::new();
                for sc in scopes {
                    Self::used_levels(sc, &mut used);
                }
                let blocked: Vec<&String> =
                    used.iter().filter(|&&l| l >= 1 && l <= ctx.len()).map(|&l| &ctx[l - 1]).collect();
                let free: Vec<&str> = POOL.iter().copied().filter(|p| !blocked.iter().any(|b| b == p)).collect();
                if free.is_empty() {
                    return format!("x{}", ctx.len());
                }
                match self.naming {
                    | Naming::Shadow => {
                        // prefer a name that is already in scope (maximal shadowing)
                        free.iter()
                            .find(|f| ctx.iter().any(|c| c == *f))
                            .or(free.first())
                            .unwrap()
                            .to_string()
                    }
                    | _ => free[self.rng.below(free.len())].to_string(),
                }
            }
        }
    }

    fn full(&self) -> bool {
        self.ann == Ann::Full
    }

    /// Does the node synthesise a type without an expected type (mode discipline of check/mod.rs)?
    fn synth(node: &Node) -> bool {
        match s(&node.tok, "k").as_str() {
            | "var" | "int" | "unit" | "str" => true,
            | "ctor" | "comatch" | "import" => false,
            | "thunk" | "ret" | "force" | "dtor" => Self::synth(&node.kids[0]),
            | "pair" => node.kids.iter().all(Self::synth),
            | "lam" | "fix" | "vlam" => Self::synth(&node.kids[0]),
            | "vapp" => Self::synth(&node.kids[0]),
            | "do" | "let" | "vlet" => Self::synth(&node.kids[1]),
            | "app" => Self::synth(&node.kids[0]),
            | "arith" | "i2s" | "sapp" | "exit" | "wl" | "br" => true,
            | "matchP" => Self::synth(&node.kids[1]),
            | "match" => node.kids.len() > 1 && node.kids[1..].iter().all(Self::synth),
            | _ => false,
        }
    }

    /// Type the model assigns to a well-formed node (used for lean annotations).
    fn node_ty(node: &Node, ctx_tys: &[Value]) -> Option<Value> {
        let t = &node.tok;
        Some(match s(t, "k").as_str() {
            | "var" => ctx_tys.get(n(t, "i") as usize - 1)?.clone(),
            | "int" => json!({"t":"int"}),
            | "unit" => json!({"t":"unit"}),
            | "str" => json!({"t":"str"}),
            | "import" => t["ty"].clone(),
            | "thunk" => json!({"t":"thk","c":t["c"]}),
            | "ctor" => json!({"t":"data","n":t["d"]}),
            | "pair" => json!({"t":"pair","a":t["a"],"b":t["b"]}),
            | "ret" => json!({"t":"ret","a":t["a"]}),
            | "lam" => json!({"t":"fn","a":t["a"],"c":t["c"]}),
            | "vlam" => json!({"t":"vfn","a":t["a"],"b":t["b"]}),
            | "vapp" | "vlet" => t["b"].clone(),
            | "do" | "app" | "force" | "let" | "fix" | "br" | "matchP" | "match" | "dtor" => t["c"].clone(),
            | "arith" => json!({"t":"ret","a":{"t":"int"}}),
            | "i2s" | "sapp" => json!({"t":"ret","a":{"t":"str"}}),
            | "exit" | "wl" => json!({"t":"os"}),
            | "comatch" => json!({"t":"codata","n":t["d"]}),
            | _ => return None,
        })
    }

    /// Render a node in a position that needs a synthesising term.
    fn syn(&mut self, node: &Node, ctx: &[String], tys: &[Value]) -> String {
        let body = self.term(node, ctx, tys);
        if self.full() {
            return body; // already annotated
        }
        if Self::synth(node) {
            format!("({body})")
        } else {
            match Self::node_ty(node, tys) {
                | Some(t) => format!("({body} : {})", ty(&t)),
                | None => format!("({body})"),
            }
        }
    }

    /// Render any node (values and computations share one term syntax).
    pub fn term(&mut self, node: &Node, ctx: &[String], tys: &[Value]) -> String {
        let t = &node.tok;
        let k = s(t, "k");
        let full = self.full();
        let wrap = |body: String, tyv: &Value| -> String {
            if full { format!("({body} : {})", ty(tyv)) } else { body }
        };
        match k.as_str() {
            | "var" => {
                let i = n(t, "i") as usize;
                ctx.get(i - 1).cloned().unwrap_or_else(|| format!("unbound{i}"))
            }
            | "int" => format!("{}", n(t, "n")),
            | "unit" => "()".into(),
            | "str" => format!("\"{}\"", s(t, "s")),
            | "tyterm" => s(t, "w"),
            | "import" => wrap(format!("@(import(\"{}\"))", s(t, "path")), &t["ty"]),
            | "thunk" => {
                let b = self.term(&node.kids[0], ctx, tys);
                wrap(format!("{{ {b} }}"), &json!({"t":"thk","c":t["c"]}))
            }
            | "ctor" => {
                let a = self.term(&node.kids[0], ctx, tys);
                wrap(format!("+{}({a})", s(t, "c")), &json!({"t":"data","n":t["d"]}))
            }
            | "pair" => {
                let a = self.term(&node.kids[0], ctx, tys);
                let b = self.term(&node.kids[1], ctx, tys);
                wrap(format!("({a}, {b})"), &json!({"t":"pair","a":t["a"],"b":t["b"]}))
            }
            | "ret" => {
                let a = self.term(&node.kids[0], ctx, tys);
                wrap(format!("ret {}", paren(&a)), &json!({"t":"ret","a":t["a"]}))
            }
            | "lam" => {
                let x = self.fresh(ctx, &[&node.kids[0]]);
                let (c2, t2) = push(ctx, tys, &x, &t["a"]);
                let b = self.term(&node.kids[0], &c2, &t2);
                // a binder the body does not use is written as a wildcard in every second rendering
                let mut used = Vec::new();
                Self::used_levels(&node.kids[0], &mut used);
                let shown = if !used.contains(&(ctx.len() + 1)) && self.rng.chance(1, 2) { "_".to_string() } else { x };
                wrap(format!("fn ({shown} : {}) => {b}", ty(&t["a"])), &json!({"t":"fn","a":t["a"],"c":t["c"]}))
            }
            | "vlam" => {
                let x = self.fresh(ctx, &[&node.kids[0]]);
                let (c2, t2) = push(ctx, tys, &x, &t["a"]);
                let b = self.term(&node.kids[0], &c2, &t2);
                let body = format!("fn ({x} : {}) => {b}", ty(&t["a"]));
                if full { wrap(body, &json!({"t":"vfn","a":t["a"],"b":t["b"]})) } else { format!("({body})") }
            }
            | "vapp" => {
                let f = self.syn(&node.kids[0], ctx, tys);
                let a = self.term(&node.kids[1], ctx, tys);
                let body = format!("{f} {}", paren(&a));
                if full { wrap(body, &t["b"]) } else { format!("({body})") }
            }
            | "do" => {
                let m = if full {
                    self.term(&node.kids[0], ctx, tys)
                } else {
                    let raw = self.term(&node.kids[0], ctx, tys);
                    format!("({raw} : {})", ty(&json!({"t":"ret","a":t["a"]})))
                };
                let x = self.fresh(ctx, &[&node.kids[1]]);
                let (c2, t2) = push(ctx, tys, &x, &t["a"]);
                let b = self.term(&node.kids[1], &c2, &t2);
                wrap(format!("do ({x} : {}) <- {m}; {b}", ty(&t["a"])), &t["c"])
            }
            | "app" => {
                let f = self.syn(&node.kids[0], ctx, tys);
                let a = self.term(&node.kids[1], ctx, tys);
                wrap(format!("{f} {}", paren(&a)), &t["c"])
            }
            | "force" => {
                let v = self.syn(&node.kids[0], ctx, tys);
                wrap(format!("! {v}"), &t["c"])
            }
            | "let" => {
                let v = self.term(&node.kids[0], ctx, tys);
                let x = self.fresh(ctx, &[&node.kids[1]]);
                let (c2, t2) = push(ctx, tys, &x, &t["a"]);
                let b = self.term(&node.kids[1], &c2, &t2);
                // lean: a bindee that synthesises its type needs no annotation on the binder
                if !self.full() && Self::synth(&node.kids[0]) {
                    wrap(format!("let {x} = {v} in {b}"), &t["c"])
                } else {
                    wrap(format!("let {x} : {} = {v} in {b}", ty(&t["a"])), &t["c"])
                }
            }
            | "vlet" => {
                let v = self.term(&node.kids[0], ctx, tys);
                let x = self.fresh(ctx, &[&node.kids[1]]);
                let (c2, t2) = push(ctx, tys, &x, &t["a"]);
                let b = self.term(&node.kids[1], &c2, &t2);
                wrap(format!("let {x} : {} = {v} in {b}", ty(&t["a"])), &t["b"])
            }
            | "fix" => {
                let x = self.fresh(ctx, &[&node.kids[0]]);
                let thk = json!({"t":"thk","c":t["c"]});
                let (c2, t2) = push(ctx, tys, &x, &thk);
                let b = self.term(&node.kids[0], &c2, &t2);
                wrap(format!("fix ({x} : {}) => {b}", ty(&thk)), &t["c"])
            }
            | "arith" => {
                let a = self.term(&node.kids[0], ctx, tys);
                let b = self.term(&node.kids[1], ctx, tys);
                format!("! (int64/{}) {} {}", s(t, "op"), paren(&a), paren(&b))
            }
            | "i2s" => {
                let a = self.term(&node.kids[0], ctx, tys);
                format!("! (int64/to_string) {}", paren(&a))
            }
            | "sapp" => {
                let a = self.term(&node.kids[0], ctx, tys);
                let b = self.term(&node.kids[1], ctx, tys);
                format!("! (string/append) {} {}", paren(&a), paren(&b))
            }
            | "exit" => {
                let a = self.term(&node.kids[0], ctx, tys);
                format!("! (process/exit) {}", paren(&a))
            }
            | "wl" => {
                let a = self.term(&node.kids[0], ctx, tys);
                let b = self.term(&node.kids[1], ctx, tys);
                format!("! (stdio/write_line) {} {}", paren(&a), paren(&b))
            }
            | "br" => {
                let a = self.term(&node.kids[0], ctx, tys);
                let b = self.term(&node.kids[1], ctx, tys);
                let x = self.term(&node.kids[2], ctx, tys);
                let y = self.term(&node.kids[3], ctx, tys);
                format!(
                    "! (int64/{}) ({}) {} {} {} {}",
                    s(t, "op"),
                    ty(&t["c"]),
                    paren(&a),
                    paren(&b),
                    paren(&x),
                    paren(&y)
                )
            }
            | "matchP" => {
                let v = self.syn(&node.kids[0], ctx, tys);
                let (pa, pb) = match Self::node_ty(&node.kids[0], tys) {
                    | Some(p) if p["t"] == "pair" => (p["a"].clone(), p["b"].clone()),
                    | _ => (json!({"t":"int"}), json!({"t":"int"})),
                };
                let x = self.fresh(ctx, &[&node.kids[1]]);
                let (c1, t1) = push(ctx, tys, &x, &pa);
                let mut y = self.fresh(&c1, &[&node.kids[1]]);
                if y == x {
                    // both components are live in the arm only through distinct levels; a repeated
                    // name would shadow the first component, which is a capture if it is used
                    let mut used = Vec::new();
                    Self::used_levels(&node.kids[1], &mut used);
                    if used.contains(&(ctx.len() + 1)) {
                        y = format!("x{}", c1.len());
                    }
                }
                let (c2, t2) = push(&c1, &t1, &y, &pb);
                let b = self.term(&node.kids[1], &c2, &t2);
                wrap(format!("match {v} | ({x}, {y}) => {b} end"), &t["c"])
            }
            | "match" => {
                let v = self.syn(&node.kids[0], ctx, tys);
                let skip = n(t, "skip") as usize;
                let arms = data_arms(&s(t, "d"));
                let mut out = format!("match {v}");
                let mut j = 1;
                for (i, (c, a)) in arms.iter().enumerate() {
                    if skip == i + 1 {
                        continue;
                    }
                    let x = self.fresh(ctx, &[&node.kids[j]]);
                    let (c2, t2) = push(ctx, tys, &x, a);
                    let b = self.term(&node.kids[j], &c2, &t2);
                    out.push_str(&format!(" | +{c}({x}) => {b}"));
                    j += 1;
                }
                out.push_str(" end");
                wrap(out, &t["c"])
            }
            | "comatch" => {
                let skip = n(t, "skip") as usize;
                let arms = co_arms(&s(t, "d"));
                let mut out = "comatch".to_string();
                let mut j = 0;
                for (i, (d, _)) in arms.iter().enumerate() {
                    if skip == i + 1 {
                        continue;
                    }
                    // lean renderings write the parameters of a function-typed arm as a destructor CLAUSE
                    // (`| .d x y z => body`: copattern elaboration), full renderings as nested `fn`
                    let mut params: Vec<String> = Vec::new();
                    let (mut c2, mut t2) = (ctx.to_vec(), tys.to_vec());
                    let mut body = &node.kids[j];
                    if !self.full() {
                        while s(&body.tok, "k") == "lam" {
                            let x = self.fresh(&c2, &[&body.kids[0]]);
                            let (c3, t3) = push(&c2, &t2, &x, &body.tok["a"]);
                            c2 = c3;
                            t2 = t3;
                            params.push(x);
                            body = &body.kids[0];
                        }
                    }
                    let b = self.term(body, &c2, &t2);
                    out.push_str(&format!(" | .{d}{} => {b}", params.iter().map(|x| format!(" {x}")).collect::<String>()));
                    j += 1;
                }
                out.push_str(" end");
                wrap(out, &json!({"t":"codata","n":t["d"]}))
            }
            | "dtor" => {
                let h = self.syn(&node.kids[0], ctx, tys);
                wrap(format!("{h} .{}", s(t, "d")), &t["c"])
            }
            | other => panic!("render: unknown token {other}"),
        }
    }

    pub fn program(&mut self, root: &Node) -> String {
        let body = self.term(root, &[], &[]);
        format!("{PRELUDE}(({body}) : OS)\n")
    }
}

fn push(ctx: &[String], tys: &[Value], x: &str, t: &Value) -> (Vec<String>, Vec<Value>) {
    let mut c = ctx.to_vec();
    c.push(x.to_string());
    let mut ts = tys.to_vec();
    ts.push(t.clone());
    (c, ts)
}
fn paren(sx: &str) -> String {
    let simple = sx.chars().all(|c| c.is_alphanumeric() || c == '_')
        || (sx.starts_with('"') && sx.ends_with('"') && sx.matches('"').count() == 2)
        || sx == "()";
    if simple || (sx.starts_with('(') && balanced_outer(sx)) || (sx.starts_with('{') && balanced_outer(sx)) {
        sx.to_string()
    } else {
        format!("({sx})")
    }
}
fn balanced_outer(sx: &str) -> bool {
    let bytes = sx.as_bytes();
    let (open, close) = (bytes[0], if bytes[0] == b'(' { b')' } else { b'}' });
    let mut depth = 0i32;
    let mut in_str = false;
    for (i, &b) in bytes.iter().enumerate() {
        if b == b'"' {
            in_str = !in_str;
        }
        if in_str {
            continue;
        }
        if b == open {
            depth += 1;
        } else if b == close {
            depth -= 1;
            if depth == 0 && i != bytes.len() - 1 {
                return false;
            }
        }
    }
    depth == 0
}

// ------------------------------------------------------------------------------------------------
// Soundness amplification (C01): when the real checker accepts a program the model rejects, the
// mistyped binding is a candidate soundness hole.  Every elimination form of the type the binder
// CLAIMS to have is applied to it; if the checker accepts that too and the run gets stuck, the hole
// is a type-safety violation with a concrete stuck state.

fn tok(v: Value) -> Node {
    Node { tok: v, kids: vec![] }
}
fn node(v: Value, kids: Vec<Node>) -> Node {
    Node { tok: v, kids }
}
/// Computations of type OS that consume variable `x` (de Bruijn level) at type `t` in every way `t` allows.
fn eliminators(t: &Value, x: usize) -> Vec<Node> {
    let var = || tok(json!({"k":"var","i":x}));
    let int = |n: i64| tok(json!({"k":"int","n":n}));
    let os = json!({"t":"os"});
    let tint = json!({"t":"int"});
    let exit_of = |level: usize| node(json!({"k":"exit"}), vec![tok(json!({"k":"var","i":level}))]);
    // `do y : a <- m; cont(y)` where y gets level x + 1
    let bind = |m: Node, a: &Value, cont: Node| node(json!({"k":"do","a":a,"c":os}), vec![m, cont]);
    let observe = |m: Node, a: &Value| -> Node {
        // make the bound value observable when it is an integer, otherwise just finish
        if *a == tint { bind(m, a, exit_of(x + 1)) } else { bind(m, a, node(json!({"k":"exit"}), vec![int(0)])) }
    };
    let mut out = Vec::new();
    match s(t, "t").as_str() {
        | "int" => out.push(node(json!({"k":"exit"}), vec![var()])),
        | "unit" | "str" => {}
        | "pair" => out.push(node(json!({"k":"matchP","c":os}), vec![var(), node(json!({"k":"exit"}), vec![int(0)])])),
        | "data" => {
            let d = s(t, "n");
            let arms = data_arms(&d);
            let mut kids = vec![var()];
            for (i, _) in arms.iter().enumerate() {
                kids.push(node(json!({"k":"exit"}), vec![int(i as i64)]));
            }
            out.push(node(json!({"k":"match","d":d,"c":os,"skip":0}), kids));
        }
        | "thk" => {
            let c = &t["c"];
            let force = || node(json!({"k":"force","c":c}), vec![var()]);
            match s(c, "t").as_str() {
                | "os" => out.push(force()),
                | "ret" => out.push(observe(force(), &c["a"])),
                | "fn" => {
                    if c["a"] == tint {
                        let app = node(json!({"k":"app","a":tint,"c":c["c"]}), vec![force(), int(1)]);
                        if s(&c["c"], "t") == "ret" { out.push(observe(app, &c["c"]["a"])) } else if c["c"] == os { out.push(app) }
                    }
                }
                | "codata" => {
                    for (d, dt) in co_arms(&s(c, "n")) {
                        let call = node(json!({"k":"dtor","d":d,"c":dt}), vec![force()]);
                        match s(&dt, "t").as_str() {
                            | "os" => out.push(call),
                            | "ret" => out.push(observe(call, &dt["a"])),
                            | "fn" if dt["a"] == tint && s(&dt["c"], "t") == "ret" => {
                                let app = node(json!({"k":"app","a":tint,"c":dt["c"]}), vec![call, int(1)]);
                                out.push(observe(app, &dt["c"]["a"]));
                            }
                            | _ => {}
                        }
                    }
                }
                | _ => {}
            }
        }
        | _ => {}
    }
    out
}
/// All variants of `root` in which the body of one `let`/`do` is replaced by an eliminator of the binder's declared type.
fn amplify(root: &Node, depth: usize, out: &mut Vec<Node>, rebuild: &dyn Fn(Node) -> Node) {
    let k = s(&root.tok, "k");
    if (k == "let" || k == "do") && root.tok["c"] == json!({"t":"os"}) {
        let a = &root.tok["a"];
        for e in eliminators(a, depth + 1) {
            out.push(rebuild(Node { tok: root.tok.clone(), kids: vec![root.kids[0].clone(), e] }));
        }
        // the same eliminations behind a function whose parameter restates the declared type
        // (the binder itself may have been given the type of the mistyped value)
        for e in eliminators(a, depth + 2) {
            let os = json!({"t":"os"});
            let lam = node(json!({"k":"lam","a":a,"c":os}), vec![e]);
            let app = node(json!({"k":"app","a":a,"c":os}), vec![lam, tok(json!({"k":"var","i":depth + 1}))]);
            out.push(rebuild(Node { tok: root.tok.clone(), kids: vec![root.kids[0].clone(), app] }));
        }
    }
    let binds: Vec<usize> = match k.as_str() {
        | "lam" | "fix" | "vlam" => vec![1],
        | "do" | "let" | "vlet" => vec![0, 1],
        | "matchP" => vec![0, 2],
        | "match" => std::iter::once(0).chain(std::iter::repeat(1)).take(root.kids.len()).collect(),
        | _ => vec![0; root.kids.len()],
    };
    for (i, c) in root.kids.iter().enumerate() {
        let me = root.clone();
        let rb = move |nc: Node| {
            let mut kids = me.kids.clone();
            kids[i] = nc;
            rebuild(Node { tok: me.tok.clone(), kids })
        };
        amplify(c, depth + binds[i], out, &rb);
    }
}

/// Expected observation from the model's result record.
pub fn predicted_end(res: &Value) -> String {
    match res["end"].as_str().unwrap_or("") {
        | "exit" => format!("exit {}", res["code"].as_i64().unwrap()),
        | "ret" => "ret".into(),
        | "trap" => "trap".into(),
        | "fuel" => "fuel".into(),
        | "rejected" => "rejected".into(),
        | other => format!("?{other}"),
    }
}

fn observed_end(end: &RunEnd) -> String {
    match end {
        | RunEnd::Exit { code } => format!("exit {code}"),
        | RunEnd::Ret => "ret".into(),
        | RunEnd::Running => "running".into(),
        | RunEnd::Panic { class: PanicClass::Trap, .. } => "trap".into(),
        | RunEnd::Panic { class: PanicClass::HostIo, .. } => "hostio".into(),
        | RunEnd::Panic { class: PanicClass::Stuck, panic } => format!("STUCK {} @ {}", panic.message, panic.file),
        | RunEnd::NotExecutable { message } => format!("notexe {message}"),
    }
}

/// One disagreement between prediction and observation.
#[derive(serde::Serialize, Clone, Debug)]
pub struct Finding {
    pub property: String,
    pub kind: String,
    pub detail: String,
    pub case: Value,
    pub source: String,
    pub mode: String,
}

pub struct ReplayStats {
    pub cases: usize,
    pub renders: usize,
    pub accepted: usize,
    pub rejected: usize,
    pub runs: usize,
    pub by_fault: BTreeMap<String, usize>,
    pub reject_kinds: BTreeMap<String, usize>,
    pub ends: BTreeMap<String, usize>,
    pub samples: Vec<Value>,
}

/// Replay all cases of `cases_path`.  Writes `out_path` (json summary with findings).
pub fn replay_core(cases_path: &str, out_path: &str, modes: &[(Ann, Naming)], sample_every: usize) {
    let cases = read_ndjson(std::path::Path::new(cases_path));
    let seed = seed_from_env();
    let per_case: Vec<(Vec<Finding>, Vec<(String, String, String)>, Option<Value>)> = par_map_with(
        &cases,
        threads(),
        |tid| Analyzer::new(&format!("core{tid}")),
        |an, idx, case| {
            let toks = case["prog"].as_array().expect("prog");
            let mut i = 0;
            let root = parse(toks, &mut i);
            assert_eq!(i, toks.len(), "prefix program not fully consumed");
            let verdict = case["res"]["verdict"].as_str().unwrap_or("?").to_string();
            let fuel_steps = case["steps"].as_u64().unwrap_or(0) as usize;
            let want_end = predicted_end(&case["res"]);
            let want_out: String = case["io"]
                .as_array()
                .map(|a| a.iter().map(|l| format!("{}\n", l.as_str().unwrap_or(""))).collect())
                .unwrap_or_default();
            let mut findings = Vec::new();
            let mut obs = Vec::new();
            let mut sample = None;
            for (mi, (ann, naming)) in modes.iter().enumerate() {
                // lean rendering is only meaningful for well-typed programs (see DESIGN.md C03)
                // (a scenario whose faults stay definite errors without annotations asks for them explicitly: ZYCORE_LEAN_FAULTS)
                // ZYCORE_LEAN_FAULTS lists the model's rejection reasons that need no annotation to be errors (arms that disagree)
                if *ann == Ann::Lean && verdict != "accept" && !std::env::var("ZYCORE_LEAN_FAULTS").is_ok_and(|l| l.split(',').any(|w| w == verdict)) {
                    continue;
                }
                let mode = format!("{ann:?}/{naming:?}");
                let mut r =
                    Renderer { ann: *ann, naming: *naming, rng: Rng(seed ^ (idx as u64).wrapping_mul(0x9E37) ^ mi as u64) };
                let src = r.program(&root);
                let (v, analysis) = an.analyze("case.zy", &src);
                let mut end_s = String::new();
                let mut amplify_why: Option<String> = None;
                let mk = |property: &str, kind: &str, detail: String| Finding {
                    property: property.into(),
                    kind: kind.into(),
                    detail,
                    case: case.clone(),
                    source: src.clone(),
                    mode: mode.clone(),
                };
                if let Verdict::Panic { panic } = &v {
                    findings.push(mk("C03", "checker-panic", format!("{} @ {}", panic.message, panic.file)));
                }
                match (&v, verdict.as_str()) {
                    | (Verdict::Accepted, "accept") => {}
                    | (Verdict::Accepted, why) => {
                        findings.push(mk("C03", "accepts-ill-typed", format!("model rejects with {why}")));
                        amplify_why = Some(why.to_string());
                    }
                    | (Verdict::Panic { .. }, _) => {}
                    | (other, "accept") => {
                        findings.push(mk("C03", "rejects-well-typed", other.short()))
                    }
                    | (Verdict::Rejected { .. }, _) => {}
                    | (other, why) => {
                        // rejected, but not by the type checker: the property asks for a type diagnostic
                        // (resolver errors are legitimate only for scope faults)
                        if !(why.starts_with("S-") && matches!(other, Verdict::Resolve { .. })) {
                            findings.push(mk("C03", "rejected-without-type-diagnostic", other.short()))
                        }
                    }
                }
                if let (Verdict::Accepted, Some(a)) = (&v, &analysis) {
                    // C01 applies to whatever the code accepts, whatever the model thinks
                    let bound = 40 * (fuel_steps + 50);
                    let run = run_bounded(&an.session, a, b"", &[], bound);
                    end_s = observed_end(&run.end);
                    if let RunEnd::Panic { class: PanicClass::Stuck, panic } = &run.end {
                        findings.push(mk("C01", "stuck", format!("{} @ {}", panic.message, panic.file)));
                    }
                    if let RunEnd::NotExecutable { message } = &run.end {
                        findings.push(mk("C01", "accepted-not-executable", message.clone()));
                    }
                    if verdict == "accept" {
                        // C02: observable behaviour equals the reference semantics
                        let ok = match want_end.as_str() {
                            | "fuel" => {
                                // the model ran out of fuel: only prefix consistency can be asked
                                matches!(run.end, RunEnd::Running | RunEnd::Exit { .. } | RunEnd::Ret | RunEnd::Panic { class: PanicClass::Trap, .. })
                                    && (run.stdout.starts_with(&want_out) || want_out.starts_with(&run.stdout))
                            }
                            | w => end_s == w && run.stdout == want_out,
                        };
                        if !ok {
                            findings.push(mk(
                                "C02",
                                "behaviour",
                                format!("predicted end={want_end} out={want_out:?}; observed end={end_s} out={:?}", run.stdout),
                            ));
                        }
                    }
                }
                if let Some(why) = &amplify_why {
                        // C01: try to turn the soundness hole into a stuck state
                        let mut variants = Vec::new();
                        amplify(&root, 0, &mut variants, &|n| n);
                        for var in variants.iter().take(40) {
                            let mut r2 = Renderer { ann: Ann::Full, naming: Naming::Unique, rng: Rng(1) };
                            let src2 = r2.program(var);
                            let (v2, a2) = an.analyze("case.zy", &src2);
                            if let (Verdict::Accepted, Some(a2)) = (&v2, &a2) {
                                let run2 = run_bounded(&an.session, a2, b"", &[], 20_000);
                                if let RunEnd::Panic { class: PanicClass::Stuck, panic } = &run2.end {
                                    findings.push(Finding {
                                        property: "C01".into(),
                                        kind: "stuck-after-amplification".into(),
                                        detail: format!("{} @ {} (the checker accepts a binding the model rejects with {why}; eliminating it at its declared type gets stuck)", panic.message, panic.file),
                                        case: case.clone(),
                                        source: src2.clone(),
                                        mode: mode.clone(),
                                    });
                                    break;
                                }
                            }
                        }
                }
                obs.push((mode.clone(), v.short(), end_s.clone()));
                if sample.is_none() && sample_every > 0 && idx % sample_every == 0 {
                    sample = Some(json!({"source_body": src[PRELUDE.len()..].trim(), "mode": mode,
                        "predicted": {"verdict": verdict, "end": want_end, "out": want_out},
                        "observed": {"verdict": v.short(), "end": end_s}}));
                }
            }
            (findings, obs, sample)
        },
        |an| an.cleanup(),
    );
    // aggregate
    let mut stats = ReplayStats {
        cases: cases.len(),
        renders: 0,
        accepted: 0,
        rejected: 0,
        runs: 0,
        by_fault: BTreeMap::new(),
        reject_kinds: BTreeMap::new(),
        ends: BTreeMap::new(),
        samples: vec![],
    };
    let mut findings = Vec::new();
    for (case, (f, obs, sample)) in cases.iter().zip(per_case.into_iter()) {
        *stats.by_fault.entry(case["faulty"].as_str().unwrap_or("?").to_string()).or_default() += 1;
        for (_, v, e) in &obs {
            stats.renders += 1;
            if v == "accepted" {
                stats.accepted += 1;
                stats.runs += 1;
                let key = e.split(' ').next().unwrap_or("").to_string();
                *stats.ends.entry(key).or_default() += 1;
            } else {
                stats.rejected += 1;
                let key: String = v.split(':').take(2).collect::<Vec<_>>().join(":");
                let key: String = key.chars().take(60).collect();
                *stats.reject_kinds.entry(key).or_default() += 1;
            }
        }
        findings.extend(f);
        if let Some(sm) = sample {
            if stats.samples.len() < 8 {
                stats.samples.push(sm);
            }
        }
    }
    let summary = json!({
        "cases": stats.cases, "renders": stats.renders, "accepted": stats.accepted, "rejected": stats.rejected,
        "runs": stats.runs, "by_fault": stats.by_fault, "reject_kinds": stats.reject_kinds, "ends": stats.ends,
        "samples": stats.samples, "findings": findings,
    });
    std::fs::write(out_path, serde_json::to_string_pretty(&summary).unwrap()).expect("write summary");
    println!("replay-core: cases={} renders={} accepted={} rejected={} findings={}", stats.cases, stats.renders, stats.accepted, stats.rejected, findings.len());
}

/// zyconf render-core CASES DIR MODE: write DIR/p<i>.zy for every case (used for CLI-level binding).
pub fn render_core(cases_path: &str, dir: &str, ann: Ann, naming: Naming) {
    let cases = read_ndjson(std::path::Path::new(cases_path));
    std::fs::create_dir_all(dir).expect("mkdir");
    for (idx, case) in cases.iter().enumerate() {
        let toks = case["prog"].as_array().expect("prog");
        let mut i = 0;
        let root = parse(toks, &mut i);
        let mut r = Renderer { ann, naming, rng: Rng(seed_from_env() ^ idx as u64) };
        std::fs::write(format!("{dir}/p{idx}.zy"), r.program(&root)).expect("write");
    }
    println!("render-core: {}", cases.len());
}

// ------------------------------------------------------------------------------------------------
// C09, semantic half: an import occurrence means what pasting the provider's closed term would mean.

const PROVIDER_PRELUDE: &str = r#"let Thk = @(import("/repo/lib/std/builtin/intrinsic/thk.zy")) in
let Ret = @(import("/repo/lib/std/builtin/intrinsic/ret.zy")) in
let Int64 = @(import("/repo/lib/std/builtin/intrinsic/i64.zy")) in
let Unit = @(import("/repo/lib/std/builtin/intrinsic/unit.zy")) in
let String = @(import("/repo/lib/std/builtin/intrinsic/string.zy")) in
let B = data | +T : Unit | +F : Int64 end in
let O = data | +N : Unit | +J : Int64 * Int64 | +K : B end in
let S = codata | .fst : Ret Int64 | .snd : Int64 -> Ret Int64 end in
"#;

fn closed_and_pure(node: &Node, depth: usize) -> bool {
    let k = s(&node.tok, "k");
    if matches!(k.as_str(), "arith" | "i2s" | "sapp" | "exit" | "wl" | "br" | "tyterm") {
        return false;
    }
    if k == "var" && (n(&node.tok, "i") as usize) <= depth {
        return false;
    }
    node.kids.iter().all(|c| closed_and_pure(c, depth))
}
fn mentions_os(v: &Value) -> bool {
    match v {
        | Value::Object(m) => m.get("t").map(|t| t == "os").unwrap_or(false) || m.values().any(mentions_os) || m.get("d").map(|d| d == "P").unwrap_or(false) || m.get("n").map(|d| d == "P").unwrap_or(false),
        | Value::Array(a) => a.iter().any(mentions_os),
        | _ => false,
    }
}
fn tree_mentions_os(node: &Node) -> bool {
    mentions_os(&node.tok) || node.kids.iter().any(tree_mentions_os)
}
fn shift(node: &Node, by: usize) -> Node {
    let mut tok = node.tok.clone();
    if s(&tok, "k") == "var" {
        tok["i"] = json!(n(&tok, "i") as usize - by);
    }
    Node { tok, kids: node.kids.iter().map(|c| shift(c, by)).collect() }
}
/// First `let` (preorder) whose bound value is closed and free of host operations: returns the
/// tree with that value replaced by an import token, the value (renumbered) and its type.
fn split_first(node: &Node, depth: usize) -> Option<(Node, Node, Value)> {
    let k = s(&node.tok, "k");
    if k == "let" && closed_and_pure(&node.kids[0], depth) && !tree_mentions_os(&node.kids[0]) && s(&node.kids[0].tok, "k") != "var" {
        let ty = node.tok["a"].clone();
        if !mentions_os(&ty) {
            let imp = Node { tok: json!({"k":"import","path":"prov.zy","ty":ty}), kids: vec![] };
            let new = Node { tok: node.tok.clone(), kids: vec![imp, node.kids[1].clone()] };
            return Some((new, shift(&node.kids[0], depth), ty));
        }
    }
    // binders introduced by this node for each child
    let binds: Vec<usize> = match k.as_str() {
        | "lam" | "fix" | "vlam" => vec![1],
        | "do" | "let" | "vlet" => vec![0, 1],
        | "matchP" => vec![0, 2],
        | "match" => std::iter::once(0).chain(std::iter::repeat(1)).take(node.kids.len()).collect(),
        | _ => vec![0; node.kids.len()],
    };
    for (i, c) in node.kids.iter().enumerate() {
        if let Some((nc, v, ty)) = split_first(c, depth + binds[i]) {
            let mut kids = node.kids.clone();
            kids[i] = nc;
            return Some((Node { tok: node.tok.clone(), kids }, v, ty));
        }
    }
    None
}

fn shift_up(node: &Node) -> Node {
    let mut tok = node.tok.clone();
    if s(&tok, "k") == "var" {
        tok["i"] = json!(n(&tok, "i") as usize + 1);
    }
    Node { tok, kids: node.kids.iter().map(shift_up).collect() }
}
fn other_type(t: &Value) -> Value {
    if t["t"] == "int" { json!({"t":"unit"}) } else { json!({"t":"int"}) }
}

/// zyconf replay-split CASES SUMMARY
pub fn replay_split(cases_path: &str, out_path: &str) {
    let cases: Vec<Value> = read_ndjson(std::path::Path::new(cases_path))
        .into_iter()
        .filter(|c| c["res"]["verdict"] == "accept")
        .collect();
    let results: Vec<(Vec<Finding>, usize, Option<Value>)> = par_map_with(
        &cases,
        threads(),
        |tid| Analyzer::new(&format!("split{tid}")),
        |an, idx, case| {
            let toks = case["prog"].as_array().unwrap();
            let mut i = 0;
            let root = parse(toks, &mut i);
            let Some((split, value, vty)) = split_first(&root, 0) else { return (vec![], 0, None) };
            let want_end = predicted_end(&case["res"]);
            let want_out: String =
                case["io"].as_array().map(|a| a.iter().map(|l| format!("{}\n", l.as_str().unwrap_or(""))).collect()).unwrap_or_default();
            let fuel_steps = case["steps"].as_u64().unwrap_or(0) as usize;
            let mut r = Renderer { ann: Ann::Full, naming: Naming::Unique, rng: Rng(idx as u64) };
            let provider = format!("{PROVIDER_PRELUDE}({} : {})\n", r.term(&value, &[], &[]), ty(&vty));
            let importer = r.program(&split);
            // the same import at a second, unused occurrence (every occurrence is a fresh copy)
            let outer = Node {
                tok: json!({"k":"let","a":vty,"c":{"t":"os"}}),
                kids: vec![Node { tok: json!({"k":"import","path":"prov.zy","ty":vty}), kids: vec![] }, shift_up(&split)],
            };
            let twice = r.program(&outer);
            let sig_ok = format!("{PROVIDER_PRELUDE}{}\n", ty(&vty));
            let sig_bad = format!("{PROVIDER_PRELUDE}{}\n", ty(&other_type(&vty)));
            let mut findings = Vec::new();
            let mut variants = 0;
            let plans: [(&str, &str, Option<&str>, bool); 4] = [
                ("split", &importer, None, true),
                ("split+signature", &importer, Some(&sig_ok), true),
                ("split+wrong-signature", &importer, Some(&sig_bad), false),
                ("imported-twice", &twice, None, true),
            ];
            for (name, main_src, sig, expect_ok) in plans {
                variants += 1;
                // (re)create the files of this variant: provider, optional companion signature
                an.install("prov.zy", &provider);
                let sig_path = an.path("prov.zyi");
                match sig {
                    | Some(text) => {
                        std::fs::write(&sig_path, text).unwrap();
                        let _ = an.session.refresh_disk(&sig_path);
                        let _ = an.session.clear_overlay(&sig_path);
                    }
                    | None => {
                        let _ = std::fs::remove_file(&sig_path);
                        let _ = an.session.refresh_disk(&sig_path);
                        let _ = an.session.clear_overlay(&sig_path);
                    }
                }
                // a fresh session per variant: C15 is about staleness, this check is about meaning
                an.install("prov.zy", &provider);
                an.reset_session();
                let (v, analysis) = an.analyze("case.zy", main_src);
                let mk = |kind: &str, detail: String| Finding {
                    property: "C09".into(),
                    kind: kind.into(),
                    detail,
                    case: case.clone(),
                    source: format!("--- case.zy\n{main_src}--- prov.zy\n{provider}--- prov.zyi\n{}", sig.unwrap_or("<absent>")),
                    mode: name.into(),
                };
                match (&v, expect_ok) {
                    | (Verdict::Accepted, true) => {
                        let run = run_bounded(&an.session, analysis.as_ref().unwrap(), b"", &[], 40 * (fuel_steps + 50));
                        let end_s = observed_end(&run.end);
                        let ok = match want_end.as_str() {
                            | "fuel" => matches!(run.end, RunEnd::Running | RunEnd::Exit { .. } | RunEnd::Ret | RunEnd::Panic { class: PanicClass::Trap, .. }),
                            | w => end_s == w && run.stdout == want_out,
                        };
                        if !ok {
                            findings.push(mk("split-changes-behaviour", format!("single file: end={want_end} out={want_out:?}; {name}: end={end_s} out={:?}", run.stdout)));
                        }
                    }
                    | (Verdict::Accepted, false) => findings.push(mk("wrong-signature-accepted", format!("companion declares {}", ty(&other_type(&vty))))),
                    | (Verdict::Panic { panic }, _) => findings.push(mk("split-panic", format!("{} @ {}", panic.message, panic.file))),
                    | (other, true) => findings.push(mk("split-rejected", other.short())),
                    | (_, false) => {}
                }
            }
            let _ = std::fs::remove_file(an.path("prov.zyi"));
            let sample = (idx % 53 == 0).then(|| json!({"importer_body": importer[PRELUDE.len()..].trim(), "provider_term": provider[PROVIDER_PRELUDE.len()..].trim(), "predicted_end": want_end}));
            (findings, variants, sample)
        },
        |an| an.cleanup(),
    );
    let mut findings = Vec::new();
    let mut variants = 0;
    let mut splits = 0;
    let mut samples = Vec::new();
    for (f, v, sm) in results {
        findings.extend(f);
        variants += v;
        if v > 0 { splits += 1 }
        if let Some(sm) = sm { if samples.len() < 5 { samples.push(sm) } }
    }
    let summary = json!({"cases": cases.len(), "split_programs": splits, "variants": variants, "findings": findings, "samples": samples});
    std::fs::write(out_path, serde_json::to_string_pretty(&summary).unwrap()).expect("write summary");
    println!("replay-split: cases={} split={splits} variants={variants} findings={}", cases.len(), findings.len());
}
