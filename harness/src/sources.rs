//! C09 (graph half): configurations of spec/ZySources.tla materialised as real files (real symlinks,
//! mixed spellings of the same path) and loaded with `CompilerSession::graph`.
use crate::common::*;
use serde_json::{Value, json};
use std::collections::{BTreeMap, BTreeSet};
use std::path::{Path, PathBuf};
use zydeco_session::{CompilerSession, SourceLoadError};

pub const NAMES: [&str; 6] = ["a.zy", "a.zyi", "b.zy", "b.zyi", "c.zy", "c.zyi"];

/// `from_store`: the importing file is reached through a symlink into `store/`, and relative imports
/// resolve beside the canonical file.
fn spelling(rng: &mut Rng, dir: &Path, name: &str, from_store: bool) -> String {
    let dn = dir.file_name().unwrap().to_string_lossy().to_string();
    if from_store {
        return match rng.below(3) {
            | 0 => format!("../{name}"),
            | 1 => format!("{}/{name}", dir.display()),
            | _ => format!("../../{dn}/link/{name}"),
        };
    }
    match rng.below(5) {
        | 0 => name.to_string(),
        | 1 => format!("./{name}"),
        | 2 => format!("../{dn}/{name}"),
        | 3 => format!("{}/{name}", dir.display()),
        | _ => format!("link/{name}"),
    }
}

fn ints(v: &Value) -> Vec<usize> {
    v.as_array().unwrap().iter().map(|x| x.as_u64().unwrap() as usize).collect()
}

/// zyconf replay-sources CASES SUMMARY
pub fn replay_sources(cases_path: &str, out_path: &str) {
    let cases = read_ndjson(Path::new(cases_path));
    let seed = seed_from_env();
    let results: Vec<(Vec<Value>, String)> = par_map_with(
        &cases,
        threads(),
        |tid| {
            let dir = PathBuf::from(WORK).join("srcgraph").join(format!("{}_{tid}", std::process::id())).join("proj");
            let _ = std::fs::remove_dir_all(&dir);
            std::fs::create_dir_all(&dir).unwrap();
            let _ = std::os::unix::fs::symlink(&dir, dir.join("link"));
            dir
        },
        |dir, idx, case| {
            let nf = case["nf"].as_u64().unwrap() as usize;
            let mut rng = Rng(seed ^ (idx as u64).wrapping_mul(0xD1342543DE82EF95));
            let ex: BTreeSet<usize> = ints(&case["ex"]).into_iter().collect();
            let imp: Vec<Vec<usize>> = case["imp"].as_array().unwrap().iter().map(ints).collect();
            let store = dir.join("store");
            let _ = std::fs::create_dir_all(&store);
            for f in 1..=nf {
                let path = dir.join(NAMES[f - 1]);
                let _ = std::fs::remove_file(&path);
                let _ = std::fs::remove_file(store.join(NAMES[f - 1]));
                if ex.contains(&f) {
                    // a signature file may be a symlink to the real file in another directory (an implementation is
                    // not moved: its companion is the sibling of its CANONICAL path)
                    let via_link = f % 2 == 0 && rng.chance(1, 2);
                    let parts: Vec<String> =
                        imp[f - 1].iter().map(|&t| format!("@(import(\"{}\"))", spelling(&mut rng, dir, NAMES[t - 1], via_link))).collect();
                    let text = if parts.is_empty() { "()".to_string() } else { format!("({}, ())", parts.join(", ")) };
                    if via_link {
                        std::fs::write(store.join(NAMES[f - 1]), text).unwrap();
                        std::os::unix::fs::symlink(Path::new("store").join(NAMES[f - 1]), &path).unwrap();
                    } else {
                        std::fs::write(&path, text).unwrap();
                    }
                }
            }
            let canon: BTreeMap<PathBuf, usize> =
                (1..=nf).filter(|f| ex.contains(f)).map(|f| (dir.join(NAMES[f - 1]).canonicalize().unwrap(), f)).collect();
            let file_of = |p: &Path| -> usize {
                canon.get(p).copied().or_else(|| p.canonicalize().ok().and_then(|c| canon.get(&c).copied())).unwrap_or_else(|| {
                    // a path that does not exist: identify by file name
                    let n = p.file_name().map(|s| s.to_string_lossy().to_string()).unwrap_or_default();
                    NAMES.iter().position(|x| *x == n.trim_end_matches('/')).map(|i| i + 1).unwrap_or(0)
                })
            };
            let mut findings = Vec::new();
            let mk = |kind: &str, detail: String| json!({"property":"C09","kind":kind,"detail":detail,"case":case});
            let root_spelling = match rng.below(3) {
                | 0 => dir.join("a.zy"),
                | 1 => dir.join("link").join("a.zy"),
                | _ => dir.join(".").join("a.zy"),
            };
            let session = CompilerSession::default();
            let r = guarded(|| session.graph(&root_spelling));
            let want = case["outcome"].as_str().unwrap();
            let class;
            match r {
                | Err(p) => {
                    class = "panic".to_string();
                    findings.push(mk("loader-panic", format!("{} @ {}", p.message, p.file)));
                }
                | Ok(Ok(g)) => {
                    class = "ok".into();
                    if want != "ok" {
                        findings.push(mk(if want == "cycle" { "cycle-missed" } else { "missing-import-ignored" }, format!("model outcome {want}")));
                    } else {
                        // sources: once per canonical path
                        let got: Vec<usize> = g.sources.iter().map(|(_, f)| file_of(&f.path)).collect();
                        let got_set: BTreeSet<usize> = got.iter().copied().collect();
                        let want_set: BTreeSet<usize> = ints(&case["sources"]).into_iter().collect();
                        if got.len() != got_set.len() {
                            findings.push(mk("file-loaded-twice", format!("sources {got:?}")));
                        }
                        if got_set != want_set {
                            findings.push(mk("wrong-source-set", format!("predicted {want_set:?}, observed {got_set:?}")));
                        }
                        // import edges as a multiset, signature links
                        let mut got_edges: Vec<(usize, usize)> = g
                            .imports
                            .iter()
                            .map(|(_, e)| (file_of(&g.sources[&e.importer].path), file_of(&g.sources[&e.imported].path)))
                            .collect();
                        got_edges.sort();
                        let mut want_edges: Vec<(usize, usize)> = case["edges"]
                            .as_array()
                            .unwrap()
                            .iter()
                            .map(|e| (e[0].as_u64().unwrap() as usize, e[1].as_u64().unwrap() as usize))
                            .collect();
                        want_edges.sort();
                        if got_edges != want_edges {
                            findings.push(mk("wrong-import-edges", format!("predicted {want_edges:?}, observed {got_edges:?}")));
                        }
                        let got_sigs: BTreeSet<usize> =
                            g.sources.iter().filter(|(_, f)| f.signature.is_some()).map(|(_, f)| file_of(&f.path)).collect();
                        let want_sigs: BTreeSet<usize> = ints(&case["sigs"]).into_iter().collect();
                        if got_sigs != want_sigs {
                            findings.push(mk("wrong-signature-links", format!("predicted {want_sigs:?}, observed {got_sigs:?}")));
                        }
                        for (_, f) in g.sources.iter() {
                            if let Some(sig) = f.signature {
                                let (i, s) = (file_of(&f.path), file_of(&g.sources[&sig].path));
                                if s != i + 1 {
                                    findings.push(mk("companion-of-wrong-file", format!("{i} linked to {s}")));
                                }
                            }
                        }
                        // provider order: everything once, providers first
                        let order: Vec<usize> = g.provider_order().iter().map(|s| file_of(&g.sources[s].path)).collect();
                        let oset: BTreeSet<usize> = order.iter().copied().collect();
                        if oset != want_set || order.len() != oset.len() {
                            findings.push(mk("provider-order-incomplete", format!("order {order:?}, sources {want_set:?}")));
                        }
                        let mut deps: Vec<(usize, usize)> = want_edges.clone();
                        deps.extend(want_sigs.iter().map(|&i| (i, i + 1)));
                        for (pos, &f) in order.iter().enumerate() {
                            for &(a, b) in &deps {
                                if a == f && !order[..pos].contains(&b) {
                                    findings.push(mk("consumer-before-provider", format!("order {order:?}: {a} needs {b}")));
                                }
                            }
                        }
                    }
                }
                | Ok(Err(e)) => match &*e {
                    | SourceLoadError::Cycle(c) => {
                        class = "cycle".into();
                        if want != "cycle" {
                            findings.push(mk("spurious-cycle", format!("model outcome {want}: {e}")));
                        } else {
                            let steps: Vec<(usize, usize)> = c.steps.iter().map(|s| (file_of(&s.dependent), file_of(&s.dependency))).collect();
                            let exist_edge = |a: usize, b: usize| -> bool {
                                a >= 1 && a <= nf && ((imp[a - 1].contains(&b) && ex.contains(&a)) || (a % 2 == 1 && b == a + 1 && ex.contains(&b)))
                            };
                            for (k, &(a, b)) in steps.iter().enumerate() {
                                if !exist_edge(a, b) {
                                    findings.push(mk("cycle-step-is-not-an-edge", format!("{a}->{b} in {steps:?}")));
                                }
                                if b != steps[(k + 1) % steps.len()].0 {
                                    findings.push(mk("cycle-steps-not-closed", format!("{steps:?}")));
                                }
                            }
                            if steps.is_empty() {
                                findings.push(mk("empty-cycle", String::new()));
                            }
                        }
                    }
                    | SourceLoadError::ImportPath { importer, requested, .. } => {
                        class = "import".into();
                        if want != "import" {
                            findings.push(mk("spurious-missing-import", format!("model outcome {want}: {e}")));
                        } else {
                            let (i, r) = (file_of(importer), file_of(requested));
                            let (wi, wr) = (case["importer"].as_u64().unwrap() as usize, case["requested"].as_u64().unwrap() as usize);
                            // which missing import is reported first is fixed by the DFS load order
                            if !(ex.contains(&i) && imp[i - 1].contains(&r) && !ex.contains(&r)) {
                                findings.push(mk("missing-import-misreported", format!("reported {i}->{r}, which is not a missing import")));
                            } else if (i, r) != (wi, wr) {
                                // a different but genuine missing import: recorded, not a violation
                            }
                        }
                    }
                    | other => {
                        class = "other".into();
                        findings.push(mk("unexpected-load-error", format!("model outcome {want}: {other}")));
                    }
                },
            }
            (findings, class)
        },
        |dir| {
            let _ = std::fs::remove_dir_all(dir.parent().unwrap());
        },
    );
    let mut findings = Vec::new();
    let mut classes = BTreeMap::new();
    for (f, c) in results {
        findings.extend(f);
        *classes.entry(c).or_insert(0usize) += 1;
    }
    let samples: Vec<&Value> = cases.iter().step_by((cases.len() / 4).max(1)).take(4).collect();
    let summary = json!({"cases": cases.len(), "findings": findings, "classes": classes, "samples": samples});
    std::fs::write(out_path, serde_json::to_string_pretty(&summary).unwrap()).expect("write");
    println!("replay-sources: cases={} findings={}", cases.len(), findings.len());
}

/// C09: every import occurrence is a fresh copy of the provider (generative definitions of a provider
/// imported twice are distinct), one import bound to a name is shared.  Scenarios and expectations are the
/// instances of spec/ZySources.tla's `FreshCopies` statement.
pub fn generativity(out_path: &str) {
    const HEAD: &str = r#"param (
  (/core; /representations; /numeric; /text; /system) :
  @(import("/repo/lib/std/builtin.zy"))
) in
let (/VType; /CType; /Thk; /Ret; /Unit) = core in
let (/process; /OS; /stdio) = system in
"#;
    let provider = r#"begin
  let Unit = @(import("/repo/lib/std/builtin/intrinsic/unit.zy")) that
  let VType = @(import("/repo/lib/std/builtin/intrinsic/vtype.zy")) that
  def T : VType = data | +A : Unit end that
  T
end
"#;
    let transparent = r#"begin
  let Unit = @(import("/repo/lib/std/builtin/intrinsic/unit.zy")) that
  let T = data | +A : Unit end that
  T
end
"#;
    // (name, provider text, body, expected accept)
    let scenarios: Vec<(&str, &str, &str, bool)> = vec![
        ("two-imports-of-a-sealed-type-are-distinct", provider,
         "let T1 = @(import(\"tprov.zy\")) in let T2 = @(import(\"tprov.zy\")) in let x : T1 = +A() in let y : T2 = x in ! (process/exit) 3", false),
        ("one-import-bound-to-a-name-is-shared", provider,
         "let T1 = @(import(\"tprov.zy\")) in let x : T1 = +A() in let y : T1 = x in ! (process/exit) 3", true),
        ("two-imports-of-a-transparent-type-are-equal", transparent,
         "let T1 = @(import(\"tprov.zy\")) in let T2 = @(import(\"tprov.zy\")) in let x : T1 = +A() in let y : T2 = x in ! (process/exit) 3", true),
        ("two-spellings-are-still-two-occurrences", provider,
         "let T1 = @(import(\"tprov.zy\")) in let T2 = @(import(\"./tprov.zy\")) in let x : T1 = +A() in let y : T2 = x in ! (process/exit) 3", false),
        ("each-copy-is-usable-on-its-own", provider,
         "let T1 = @(import(\"tprov.zy\")) in let T2 = @(import(\"tprov.zy\")) in let x : T1 = +A() in let y : T2 = +A() in match y | +A(u) => ! (process/exit) 3 end", true),
    ];
    let mut findings = Vec::new();
    let mut an = Analyzer::new("generativity");
    for (name, prov, body, expect) in &scenarios {
        an.install("tprov.zy", prov);
        an.reset_session();
        let src = format!("{HEAD}{body}\n");
        let (v, analysis) = an.analyze("case.zy", &src);
        let mk = |kind: &str, detail: String| json!({"property":"C09","kind":kind,"detail":detail,"scenario":name,"source":src,"provider":prov});
        match (&v, *expect) {
            | (Verdict::Accepted, true) => {
                let run = run_bounded(&an.session, analysis.as_ref().unwrap(), b"", &[], 100_000);
                if run.end != (RunEnd::Exit { code: 3 }) {
                    findings.push(mk("generativity-behaviour", format!("{name}: {:?}", run.end)));
                }
            }
            | (Verdict::Accepted, false) => findings.push(mk("import-copies-share-identity", name.to_string())),
            | (Verdict::Rejected { .. }, false) => {}
            | (other, _) => findings.push(mk("generativity-scenario-failed", format!("{name}: {}", other.short()))),
        }
    }
    an.cleanup();
    std::fs::write(out_path, serde_json::to_string_pretty(&json!({"cases": scenarios.len(), "findings": findings})).unwrap()).expect("write");
    println!("generativity: cases={} findings={}", scenarios.len(), findings.len());
}
