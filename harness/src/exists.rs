//! C03, existential layer: every program of spec/ZyExists.tla (package kind x nesting path x opening
//! construct x body x context) rendered, analysed and - when the rule accepts it - run.
use crate::common::*;
use serde_json::{Value, json};

const PRELUDE: &str = r#"param (
  (/core; /representations; /system; builtin) :
  @(import("/repo/lib/std/builtin.zy"))
) in
let (/VType; /CType; /Thk; /Ret; /Unit) = core in
let (/Scalar = Int64) = representations/i64 in
let (/OS; /process) = system in
let exit = process/exit in
"#;

pub fn render(c: &Value) -> String {
    if c.get("fam").and_then(|f| f.as_str()) == Some("seal") && (c["kind"] == "self" || c["kind"] == "cycle") {
        // non-productive definitions: A = A, or A = B and B = A; a constructor is checked against A (use "construct") or a
        // value of type A is matched (use "cross")
        let (ma, mb) = (c["ma"].as_str().unwrap(), c["mb"].as_str().unwrap());
        let decls = if c["kind"] == "self" { format!("{ma} A : VType = A that\n  {mb} B : VType = A that") } else { format!("{ma} A : VType = B that\n  {mb} B : VType = A that") };
        let body = if c["use"] == "construct" { "let a : B = +K(3) that\n  ! exit 3".to_string() } else { "let f = { fn (x : B) => match x | +K(n) => ! exit n end } that\n  ! exit 3".to_string() };
        return format!("{PRELUDE}begin\n  {decls}\n  {body}\nend\n");
    }
    if c.get("fam").and_then(|f| f.as_str()) == Some("seal") {
        let rhs = if c["kind"] == "data" { "data | +K : Int64 end" } else { "Int64" };
        let build = if c["kind"] == "data" { "+K(3)" } else { "3" };
        let (ma, mb) = (c["ma"].as_str().unwrap(), c["mb"].as_str().unwrap());
        let at = if c["use"] == "cross" { "B" } else { "A" };
        let elim = if c["kind"] == "data" { "match b | +K(n) => ! exit n end".to_string() } else { "! exit b".to_string() };
        // an Int64-sealed value cannot be eliminated at Int64 (that is the point); it is only passed on
        let elim = if c["kind"] == "int" && ((at == "A" && ma == "def") || (at == "B" && mb == "def")) { "! exit 3".to_string() } else { elim };
        return format!("{PRELUDE}begin\n  {ma} A = {rhs} that\n  {mb} B = {rhs} that\n  let a : A = {build} that\n  let b : {at} = a that\n  {elim}\nend\n");
    }
    if c.get("fam").and_then(|f| f.as_str()) == Some("cross") {
        let path: Vec<&str> = c["path"].as_array().unwrap().iter().map(|s| s.as_str().unwrap()).collect();
        let (mut ty, mut pat) = ("Box".to_string(), "(X, value, use)".to_string());
        let (mut v1, mut v2) = ("ints".to_string(), "pairs".to_string());
        let mut decls = vec![
            "let Box = exists (A : VType) . A * (A -> Int64) that".to_string(),
            "let ints : Box = (Int64, 5, fn (x : Int64) => x) that".to_string(),
            "let pairs : Box = (Int64 * Int64, (1, 2), fn (q : Int64 * Int64) => (let (a, b) = q in b)) that".to_string(),
        ];
        for (k, step) in path.iter().enumerate().rev() {
            match *step {
                | "C" => {
                    let name = format!("W{k}");
                    decls.push(format!("let {name} = data | +{name} : {ty} end that"));
                    v1 = format!("+{name}({v1})");
                    v2 = format!("+{name}({v2})");
                    pat = format!("+{name}({pat})");
                    ty = name;
                }
                | "L" => {
                    v1 = format!("({v1}, 2)");
                    v2 = format!("({v2}, 2)");
                    pat = format!("({pat}, _)");
                    ty = format!("({ty} * Int64)");
                }
                | _ => {
                    v1 = format!("(2, {v1})");
                    v2 = format!("(2, {v2})");
                    pat = format!("(_, {pat})");
                    ty = format!("(Int64 * {ty})");
                }
            }
        }
        return format!(
            "{PRELUDE}begin\n  {}\n  let open = fn (p : {ty}) => (let {pat} = p in (value, use)) that\n  let (v1, f1) = open {v1} that\n  let (v2, f2) = open {v2} that\n  let n : Int64 = f2 v1 that\n  ! exit n\nend\n",
            decls.join("\n  ")
        );
    }
    if c.get("fam").and_then(|f| f.as_str()) == Some("field") {
        let n = c["n"].as_u64().unwrap() as usize;
        let name = |i: u64| if i == 0 { "z".to_string() } else { format!("f{i}") };
        let ty = (1..=n as u64).map(|i| format!("({} :: Int64)", name(i))).collect::<Vec<_>>().join(" * ");
        let value = (1..=n as u64).map(|i| format!("{} = {i}", name(i))).collect::<Vec<_>>().join(", ");
        let labels: Vec<u64> = c["labels"].as_array().map(|a| a.iter().map(|x| x.as_u64().unwrap()).collect()).unwrap_or_default();
        let g = c["g"].as_u64().unwrap();
        let body = match c["kind"].as_str().unwrap() {
            | "proj" => format!("let p : P = ({value}) that\n  ! exit p/{}", name(g)),
            | "projpat" => format!("let p : P = ({value}) that\n  let (/{}) = p in\n  ! exit {}", name(g), name(g)),
            | "build" => format!("let p : P = ({}) that\n  ! exit p/f1", labels.iter().enumerate().map(|(i, l)| format!("{} = {}", name(*l), i + 1)).collect::<Vec<_>>().join(", ")),
            | _ => format!("let p : P = ({value}) that\n  let ({}) = p in\n  ! exit a{n}", labels.iter().enumerate().map(|(i, l)| format!("{} = a{}", name(*l), i + 1)).collect::<Vec<_>>().join(", ")),
        };
        return format!("{PRELUDE}begin\n  let P = {ty} that\n  {body}\nend\n");
    }
    let pkg = c["pkg"].as_str().unwrap();
    let path: Vec<&str> = c["path"].as_array().unwrap().iter().map(|s| s.as_str().unwrap()).collect();
    let (pkg_ty, pkg_def, mut val, mut pat) = if pkg == "box" {
        ("Box", "let Box = exists (A : VType) . A that", "(Int64, 5)".to_string(), "(B, value)".to_string())
    } else {
        ("Box", "let Box = exists (A : VType) . A * (A -> Int64) that", "(Int64, 5, fn (x : Int64) => x)".to_string(), "(B, value, use)".to_string())
    };
    let mut ty = pkg_ty.to_string();
    let mut decls = vec![pkg_def.to_string()];
    // the path lists the formers from the outside in; build from the inside out
    for (k, step) in path.iter().enumerate().rev() {
        match *step {
            | "C" => {
                let name = format!("W{k}");
                decls.push(format!("let {name} = data | +{name} : {ty} end that"));
                val = format!("+{name}({val})");
                pat = format!("+{name}({pat})");
                ty = name;
            }
            | "L" => {
                val = format!("({val}, 2)");
                pat = format!("({pat}, _)");
                ty = format!("({ty} * Int64)");
            }
            | _ => {
                val = format!("(2, {val})");
                pat = format!("(_, {pat})");
                ty = format!("(Int64 * {ty})");
            }
        }
    }
    decls.push(format!("let v : {ty} = {val} that"));
    let body = match c["body"].as_str().unwrap() {
        | "exitconst" => "! exit 3",
        | "exituse" => "! exit (use value)",
        | "exitrepr" => "! exit value",
        | "retunit" => "ret ()",
        | "retvalue" => "ret value",
        | "retuse" => "ret use",
        | "retapp" => "ret (use value)",
        | "retrepack" => "ret ((B, value) : Box)",
        | "retthunk" => "ret { ! exit (use value) }",
        | "vvalue" => "value",
        | "vunit" => "()",
        | "vapp" => "use value",
        | "vpair" => "(1, value)",
        | o => panic!("body {o}"),
    };
    let opener = match c["opener"].as_str().unwrap() {
        | "let" => format!("(let {pat} = v in {body})"),
        | "match" => format!("(match v | {pat} => {body} end)"),
        | "fn" => format!("(! {{ fn ({pat} : {ty}) => {body} }} v)"),
        | "do" => format!("(do {pat} <- ret v; {body})"),
        | o => panic!("opener {o}"),
    };
    let main = match c["ctx"].as_str().unwrap() {
        | "root" => opener,
        | "do" => format!("do r <- {opener};\n  {}", if c["body"] == "retthunk" { "! r" } else { "! exit 0" }),
        | "vlet" => format!("let r = {opener} in\n  {}", if c["body"] == "vapp" { "! exit r" } else { "! exit 0" }),
        | o => panic!("ctx {o}"),
    };
    format!("{PRELUDE}begin\n  {}\n  {main}\nend\n", decls.join("\n  "))
}

/// zyconf replay-exists CASES SUMMARY
pub fn replay_exists(cases_path: &str, out_path: &str) {
    let cases = read_ndjson(std::path::Path::new(cases_path));
    let results: Vec<(Vec<Value>, String)> = par_map_with(
        &cases,
        threads(),
        |tid| Analyzer::new(&format!("ex{tid}")),
        |an, _idx, c| {
            let src = render(c);
            let want = c["verdict"].as_str().unwrap();
            let (v, analysis) = an.analyze("case.zy", &src);
            let mut findings = Vec::new();
            let mk = |kind: &str, detail: String| json!({"property": "C03", "kind": kind, "detail": detail, "case": c, "source": src});
            let class;
            match (&v, want) {
                | (Verdict::Accepted, "accept") => {
                    class = "accepted-and-run".to_string();
                    let run = run_bounded(&an.session, analysis.as_ref().unwrap(), b"", &[], 100_000);
                    let exit = c["exit"].as_i64().unwrap() as i32;
                    if run.end != (RunEnd::Exit { code: exit }) {
                        findings.push(mk("existential-program-behaviour", format!("{} {} {} {:?}: expected exit {exit}, got {:?}", c["pkg"], c["opener"], c["body"], c["path"], run.end)));
                    }
                }
                | (Verdict::Accepted, _) => {
                    class = "accepted".to_string();
                    // C01: does the hole let the interpreter go wrong?
                    let run = run_bounded(&an.session, analysis.as_ref().unwrap(), b"", &[], 100_000);
                    if let RunEnd::Panic { class: PanicClass::Stuck, panic } = &run.end {
                        findings.push(json!({"property": "C01", "kind": "stuck-after-escape", "case": c, "source": src,
                            "detail": format!("{} @ {} (the checker accepts a program in which an existential witness escapes; path {:?})", panic.message, panic.file, c["path"])}));
                    }
                    findings.push(mk("accepts-ill-typed", format!("{} opened by {} under path {:?}, body {}, context {}: the rule says {want}, the checker accepts", c["pkg"], c["opener"], c["path"], c["body"], c["ctx"])));
                }
                | (Verdict::Rejected { messages }, _) => {
                    let first = messages.first().cloned().unwrap_or_default();
                    let got = if first.contains("Existential witness escapes") { "escape" } else if first.contains("Type mismatch") { "mismatch" }
                              else if first.contains("Missing named field") { "missingfield" } else if first.contains("Named label mismatch") { "labelmismatch" } else { "other" };
                    class = format!("rejected-{got}");
                    if want == "reject" {
                        // any diagnostic will do
                    } else if want == "accept" {
                        findings.push(mk("rejects-well-typed", format!("{} opened by {} under path {:?}, body {}, context {}: the rule accepts, the checker says {first}", c["pkg"], c["opener"], c["path"], c["body"], c["ctx"])));
                    } else if got != want {
                        findings.push(mk("rejected-without-the-expected-diagnostic", format!("{} {} {:?} {} {}: expected {want}, checker says {first}", c["pkg"], c["opener"], c["path"], c["body"], c["ctx"])));
                    }
                }
                | (Verdict::Resolve { .. }, "reject") => class = "rejected-by-the-resolver".to_string(),
                | (other, _) => {
                    class = "other".to_string();
                    findings.push(mk("unexpected-outcome", format!("{} {} {:?} {} {}: {}", c["pkg"], c["opener"], c["path"], c["body"], c["ctx"], other.short())));
                }
            }
            (findings, class)
        },
        |an| an.cleanup(),
    );
    let mut findings = Vec::new();
    let mut classes: std::collections::BTreeMap<String, usize> = Default::default();
    for (f, c) in results {
        findings.extend(f);
        *classes.entry(c).or_default() += 1;
    }
    let samples: Vec<String> = cases.iter().step_by((cases.len() / 3).max(1)).take(3).map(render).collect();
    std::fs::write(out_path, serde_json::to_string_pretty(&json!({"cases": cases.len(), "classes": classes, "findings": findings, "samples": samples})).unwrap()).expect("write");
    println!("replay-exists: cases={} findings={}", cases.len(), findings.len());
}
