//! `CompilerSession::check_resolved` driven through the public pass pipeline (parse, desugar, resolve).
use std::sync::Arc;
use zydeco_session::CompilerSession;
use zydeco_surface::bitter::SourceUnitDesugarer;
use zydeco_surface::scoped::Resolver;
use zydeco_surface::textual::{Lexer, SourceUnitParser, syntax::Parser};
use zydeco_utils::pass::CompilerPass;
use zydeco_utils::span::{FileInfo, LocationCtx};

/// The sort ("Value", "Compu", ..., "rejected") the session reports for the closed program `src`.
pub fn check_resolved_sort(session: &CompilerSession, src: &str) -> String {
    let info = FileInfo::new(src, Some(Arc::new(std::path::PathBuf::from("mem.zy"))));
    let loc = LocationCtx::File(info);
    let mut parser = Parser::new();
    let unit = match SourceUnitParser::new().parse(src, &loc, &mut parser, Lexer::new(src)) {
        | Ok(u) => u,
        | Err(_) => return "syntax".into(),
    };
    let (spans, arena) = parser.finish();
    let d = match SourceUnitDesugarer::new(&spans, &arena, unit).run() {
        | Ok(d) => d,
        | Err(_) => return "desugar".into(),
    };
    let r = match Resolver::new(&spans, d.arena, d.prim).run_source(d.root) {
        | Ok(r) => r,
        | Err(_) => return "resolve".into(),
    };
    let out = session.check_resolved(spans.clone(), r.prim, r.arena, r.root);
    match out.outcome.into_result() {
        | Ok(checked) => format!("{:?}", checked.root).split('(').next().unwrap_or("?").to_string(),
        | Err(_) => "rejected".into(),
    }
}
