//! C04: pattern matrices enumerated by spec/ZyCoverage.tla are rendered as `match` programs; the real
//! checker's verdict, the reported missing patterns (structured `CoverageError`s) and the arm taken at
//! run time for every value of the type are recorded.  Verdict and arm are compared with TLC's
//! prediction here; the reported witnesses are written to a trace that TLC validates semantically
//! (spec/ZyCoverageTrace.tla).  Also: comatch arm completeness cases from the same spec.
use crate::common::*;
use serde_json::{Value, json};
use zydeco_statics::validate::{CoverageError, CoveragePattern};

const PRELUDE: &str = r#"param (
  (/core; /numeric; /system) :
  @(import("/repo/lib/std/builtin.zy"))
) in
let (/VType; /CType; /Thk; /Ret; /Unit) = core in
let (Scalar = Int64, int64) = numeric/int64 in
let (/process; /OS; /stdio) = system in
let Bool = data | +A : Unit | +B : Unit end in
let Tri = data | +A : Unit | +B : Bool | +C : Bool * Bool end in
let Opt = data | +N : Unit | +S : (f :: Bool) end in
let Empty = data end in
let One = data | +X : Bool end in
let Wide = data | +D0 : Unit | +D1 : Unit | +D2 : Unit | +D3 : Unit | +D4 : Unit | +D5 : Unit | +D6 : Unit | +D7 : Unit | +D8 : Unit | +D9 : Unit | +D10 : Unit end in
let WideIn = data | +X : Wide end in
"#;

fn type_expr(name: &str, nested: bool) -> &'static str {
    match name {
        | "Bool" => "Bool",
        | "Tri" => "Tri",
        | "Opt" => "Opt",
        | "Empty" => "Empty",
        | "One" => "One",
        | "Wide" => "Wide",
        | "WideIn" => "WideIn",
        | "Unit" => "Unit",
        | "Pair" => "Bool * Bool",
        | "Triple" => {
            if nested {
                "Bool * (Bool * Bool)"
            } else {
                "Bool * Bool * Bool"
            }
        }
        | "Rec" => "(f :: Bool) * (g :: Bool)",
        | "PairOpt" => "Opt * Bool",
        | other => panic!("unknown type {other}"),
    }
}

fn s(v: &Value, k: &str) -> String {
    v[k].as_str().unwrap_or_else(|| panic!("field {k} missing in {v}")).to_string()
}

/// Right spine of a binary product as a list.
fn spine<'a>(v: &'a Value, out: &mut Vec<&'a Value>) {
    if v["k"] == "prod" {
        out.push(&v["a"]);
        spine(&v["b"], out);
    } else {
        out.push(v);
    }
}

struct Pr<'r> {
    rng: &'r mut Rng,
    nested: bool,
    vars: usize,
    name_vars: bool,
}

impl Pr<'_> {
    fn pat(&mut self, p: &Value) -> String {
        match s(p, "k").as_str() {
            | "wild" => {
                if self.name_vars && self.rng.chance(1, 2) {
                    self.vars += 1;
                    format!("w{}", self.vars)
                } else {
                    "_".into()
                }
            }
            | "unit" => "()".into(),
            | "named" => format!("{} = {}", s(p, "f"), self.pat(&p["a"])),
            | "ctor" => {
                let a = self.pat(&p["a"]);
                if a.starts_with('(') { format!("+{}{}", s(p, "c"), a) } else { format!("+{}({})", s(p, "c"), a) }
            }
            | "prod" => {
                if self.nested {
                    format!("({}, {})", self.pat(&p["a"]), self.pat(&p["b"]))
                } else {
                    // n-ary spelling of the right spine; a trailing wildcard may stand for a whole tail
                    let mut items = Vec::new();
                    spine(p, &mut items);
                    let parts: Vec<String> = items.iter().map(|i| self.pat(i)).collect();
                    format!("({})", parts.join(", "))
                }
            }
            | other => panic!("pattern kind {other}"),
        }
    }
    fn val(&mut self, v: &Value) -> String {
        match s(v, "k").as_str() {
            | "unit" => "()".into(),
            | "named" => format!("{} = {}", s(v, "f"), self.val(&v["a"])),
            | "ctor" => {
                let a = self.val(&v["a"]);
                if a.starts_with('(') { format!("+{}{}", s(v, "c"), a) } else { format!("+{}({})", s(v, "c"), a) }
            }
            | "prod" => {
                if self.nested {
                    format!("({}, {})", self.val(&v["a"]), self.val(&v["b"]))
                } else {
                    let mut items = Vec::new();
                    spine(v, &mut items);
                    let parts: Vec<String> = items.iter().map(|i| self.val(i)).collect();
                    format!("({})", parts.join(", "))
                }
            }
            | other => panic!("value kind {other}"),
        }
    }
}

fn cov_json(p: &CoveragePattern) -> Value {
    match p {
        | CoveragePattern::Wildcard => json!({"k":"wild"}),
        | CoveragePattern::Unit => json!({"k":"unit"}),
        | CoveragePattern::Constructor(name, arg) => {
            json!({"k":"ctor","c":name.0.trim_start_matches('+'),"a":cov_json(arg)})
        }
        | CoveragePattern::Named(name, arg) => json!({"k":"named","f":name.0,"a":cov_json(arg)}),
        | CoveragePattern::Package(arg) => json!({"k":"pkg","a":cov_json(arg)}),
        | CoveragePattern::Product(items) => {
            let mut it = items.iter().rev();
            let mut acc = cov_json(it.next().expect("non-empty product witness"));
            for i in it {
                acc = json!({"k":"prod","a":cov_json(i),"b":acc});
            }
            acc
        }
    }
}

/// Render one matrix as a program that prints the arm index chosen for every value.
fn render(case: &Value, idx: usize, seed: u64) -> String {
    let mut rng = Rng(seed ^ (idx as u64).wrapping_mul(0x9E3779B97F4A7C15));
    let tyname = s(case, "ty");
    let nested = rng.chance(1, 2);
    let placement = idx % 4;
    let name_vars = rng.chance(2, 3);
    let t = type_expr(&tyname, nested);
    let rows = case["rows"].as_array().unwrap();
    let mut arms = String::new();
    {
        for (i, r) in rows.iter().enumerate() {
            let mut pr = Pr { rng: &mut rng, nested, vars: 0, name_vars };
            arms.push_str(&format!(" | {} => ret {}", pr.pat(r), i + 1));
        }
    }
    let vals = case["vals"].as_array().unwrap();
    let mut body = String::new();
    let mut close = String::new();
    let matcher = |scrut: &str| format!("(match {scrut}{arms} end : Ret Int64)");
    let head = match placement {
        | 0 => format!("let f = {{ fn (v : {t}) => {} }} in\n", matcher("v")),
        | 3 => format!("let f = {{ fn (v : {t}) => do w <- ret v; {} }} in\n", matcher("w")),
        | _ => String::new(),
    };
    for (j, v) in vals.iter().enumerate() {
        let mut pr = Pr { rng: &mut rng, nested, vars: 0, name_vars: false };
        let vs = pr.val(&v["v"]);
        let call = match placement {
            | 0 | 3 => format!("! f {}", if vs.starts_with('(') { vs.clone() } else { format!("({vs})") }),
            | 1 => format!("(let w : {t} = {vs} in {})", matcher("w")),
            | _ => matcher(&format!("({vs} : {t})")),
        };
        body.push_str(&format!("do a{j} <- {call};\n! (stdio/write_int) a{j} {{\n"));
        close.push_str(" }");
    }
    if vals.is_empty() || placement == 1 || placement == 2 {
        // make sure the match is checked even when there is no value to run it on
        let keep = format!("let keep = {{ fn (v : {t}) => {} }} in\n", matcher("v"));
        return format!("{PRELUDE}{keep}{head}(({body}! (process/exit) 0{close}) : OS)\n");
    }
    format!("{PRELUDE}{head}(({body}! (process/exit) 0{close}) : OS)\n")
}

/// zyconf render-coverage CASES OUTDIR N: writes up to N rejected programs whose diagnostic lists SEVERAL missing
/// patterns (C16: which ones are listed, and in which order, must not depend on the process), spread over the
/// (type, number of missing patterns) classes of the enumeration.
pub fn render_coverage(cases_path: &str, outdir: &str, n: usize) {
    let cases = read_ndjson(std::path::Path::new(cases_path));
    let seed = seed_from_env();
    std::fs::create_dir_all(outdir).expect("mkdir");
    let mut classes: std::collections::BTreeMap<(String, u64), Vec<usize>> = Default::default();
    for (idx, c) in cases.iter().enumerate() {
        let missing = c["nmissing"].as_u64().unwrap_or(0);
        if c["exhaustive"] == false && missing >= 2 {
            classes.entry((s(c, "ty"), missing)).or_default().push(idx);
        }
    }
    let mut written = 0;
    let mut round = 0;
    while written < n && classes.values().any(|v| v.len() > round) {
        for v in classes.values() {
            if written < n && v.len() > round {
                // spread inside a class deterministically by the seed
                let idx = v[(round * 7919 + seed as usize) % v.len()];
                std::fs::write(format!("{outdir}/cov{written:03}.zy"), render(&cases[idx], idx, seed)).expect("write");
                written += 1;
            }
        }
        round += 1;
    }
    println!("render-coverage: {written} programs from {} classes", classes.len());
}

/// zyconf replay-coverage CASES SUMMARY TRACE
pub fn replay_coverage(cases_path: &str, out_path: &str, trace_path: &str) {
    let cases = read_ndjson(std::path::Path::new(cases_path));
    let seed = seed_from_env();
    let results: Vec<(Vec<Value>, Value, Option<Value>)> = par_map_with(
        &cases,
        threads(),
        |tid| Analyzer::new(&format!("cov{tid}")),
        |an, idx, case| {
            let src = render(case, idx, seed);
            let exhaustive = case["exhaustive"].as_bool().unwrap();
            let (v, analysis) = an.analyze("case.zy", &src);
            let mut findings = Vec::new();
            let mk = |kind: &str, detail: String| json!({"property":"C04","kind":kind,"detail":detail,"case":case,"source":src});
            let mut reported = Vec::new();
            let mut truncated = false;
            let mut arms_seen = String::new();
            match (&v, exhaustive) {
                | (Verdict::Accepted, true) => {
                    let run = run_bounded(&an.session, analysis.as_ref().unwrap(), b"", &[], 200_000);
                    let want: String = case["vals"].as_array().unwrap().iter().map(|x| x["arm"].as_i64().unwrap().to_string()).collect();
                    arms_seen = run.stdout.clone();
                    match &run.end {
                        | RunEnd::Exit { code: 0 } if run.stdout == want => {}
                        | RunEnd::Panic { class: PanicClass::Stuck, panic } => {
                            findings.push(mk("accepted-match-stuck", format!("{} @ {}", panic.message, panic.file)))
                        }
                        | other => findings.push(mk("wrong-arm", format!("predicted arms {want}, observed {:?} end {other:?}", run.stdout))),
                    }
                }
                | (Verdict::Accepted, false) => findings.push(mk("accepts-non-exhaustive", "model: some value is matched by no row".into())),
                | (Verdict::Rejected { messages }, false) => {
                    let errs = guarded(|| an.session.coverage(an.path("case.zy")));
                    match errs {
                        | Ok(Ok(errs)) => {
                            for e in &errs {
                                if let CoverageError::NonExhaustiveMatch { missing, truncated: t, .. } = e {
                                    reported = missing.iter().map(cov_json).collect();
                                    truncated = *t;
                                }
                            }
                            if reported.is_empty() {
                                findings.push(mk("rejected-without-coverage-witness", messages.join(" | ")));
                            }
                        }
                        | _ => findings.push(mk("coverage-query-failed", messages.join(" | "))),
                    }
                    if !messages.iter().any(|m| m.contains("Non-exhaustive match")) {
                        findings.push(mk("rejected-for-another-reason", messages.join(" | ")));
                    }
                }
                | (Verdict::Rejected { messages }, true) => findings.push(mk("rejects-exhaustive", messages.join(" | "))),
                | (other, _) => findings.push(mk("not-checked", other.short())),
            }
            let trace = json!({"ty": case["ty"], "rows": case["rows"], "accepted": v.accepted(), "reported": reported,
                "truncated": truncated, "idx": idx});
            let sample = (idx % 211 == 0).then(|| json!({"ty": case["ty"], "rows": case["rows"], "predicted_exhaustive": exhaustive,
                "observed": v.short(), "arms_printed": arms_seen, "reported_missing": trace["reported"]}));
            (findings, trace, sample)
        },
        |an| an.cleanup(),
    );
    let mut findings = Vec::new();
    let mut trace = String::new();
    let mut samples = Vec::new();
    let (mut accepted, mut rejected, mut witnesses) = (0, 0, 0);
    for (f, t, sm) in results {
        findings.extend(f);
        if t["accepted"].as_bool().unwrap() { accepted += 1 } else { rejected += 1 }
        witnesses += t["reported"].as_array().unwrap().len();
        trace.push_str(&serde_json::to_string(&t).unwrap());
        trace.push('\n');
        if let Some(sm) = sm {
            if samples.len() < 6 {
                samples.push(sm);
            }
        }
    }
    std::fs::write(trace_path, trace).expect("write trace");
    let summary = json!({"cases": cases.len(), "accepted": accepted, "rejected": rejected, "witnesses": witnesses,
        "findings": findings, "samples": samples});
    std::fs::write(out_path, serde_json::to_string_pretty(&summary).unwrap()).expect("write summary");
    println!("replay-coverage: cases={} accepted={accepted} rejected={rejected} witnesses={witnesses} findings={}", cases.len(), findings.len());
}

// ------------------------------------------------------------------------------------------------
// comatch arm completeness

/// zyconf replay-comatch CASES SUMMARY : cases are [dtors: [names], arms: [names], ok: bool, missing: [..], dups: [..]]
pub fn replay_comatch(cases_path: &str, out_path: &str) {
    let cases = read_ndjson(std::path::Path::new(cases_path));
    let results: Vec<Vec<Value>> = par_map_with(
        &cases,
        threads(),
        |tid| Analyzer::new(&format!("comatch{tid}")),
        |an, idx, case| {
            let dtors: Vec<String> = case["dtors"].as_array().unwrap().iter().map(|d| d.as_str().unwrap().to_string()).collect();
            let arms: Vec<String> = case["arms"].as_array().unwrap().iter().map(|d| d.as_str().unwrap().to_string()).collect();
            let ok = case["ok"].as_bool().unwrap();
            let decl: String = dtors.iter().map(|d| format!(" | .{d} : Ret Int64")).collect();
            let body: String = arms.iter().enumerate().map(|(i, d)| format!(" | .{d} => ret {}", i + 1)).collect();
            // every destructor is then called and the index of the arm that answered is printed
            let mut calls = String::new();
            let mut close = String::new();
            for (j, d) in dtors.iter().enumerate() {
                calls.push_str(&format!("do a{j} <- ! c .{d};\n! (stdio/write_int) a{j} {{\n"));
                close.push_str(" }");
            }
            let wrap = match idx % 3 {
                | 0 => format!("let c : Thk C = {{ comatch{body} end }} in\n"),
                | 1 => format!("let mk = {{ fn (u : Unit) => ret ({{ comatch{body} end }} : Thk C) }} in\ndo c <- ! mk ();\n"),
                | _ => format!("let c = ({{ (comatch{body} end : C) }} : Thk C) in\n"),
            };
            let src = format!("{PRELUDE}let C = codata{decl} end in\n{wrap}(({calls}! (process/exit) 0{close}) : OS)\n");
            let (v, analysis) = an.analyze("case.zy", &src);
            let mk = |kind: &str, detail: String| json!({"property":"C04","kind":kind,"detail":detail,"case":case,"source":src});
            let mut findings = Vec::new();
            match (&v, ok) {
                | (Verdict::Accepted, true) => {
                    let run = run_bounded(&an.session, analysis.as_ref().unwrap(), b"", &[], 100_000);
                    // each destructor must select the arm with its own name
                    let want: String = dtors.iter().map(|d| (arms.iter().position(|a| a == d).unwrap() + 1).to_string()).collect();
                    if !(matches!(run.end, RunEnd::Exit { code: 0 }) && run.stdout == want) {
                        findings.push(mk("wrong-coarm", format!("predicted {want}, observed {:?} {:?}", run.stdout, run.end)));
                    }
                }
                | (Verdict::Accepted, false) => findings.push(mk("accepts-incomplete-comatch", format!("missing {} duplicate {}", case["missing"], case["dups"]))),
                | (Verdict::Rejected { messages }, false) => {
                    let miss = !case["missing"].as_array().unwrap().is_empty();
                    let dup = !case["dups"].as_array().unwrap().is_empty();
                    let all = messages.join(" | ");
                    // the property fixes the verdict only; the diagnostic must still be about the comatch
                    let unknown = arms.iter().any(|a| !dtors.contains(a));
                    let about = all.contains("missing destructor") || all.contains("Duplicate comatch")
                        || all.contains("Overlapping copattern") || all.contains("destructor");
                    if !unknown && (miss || dup) && !about {
                        findings.push(mk("comatch-rejected-for-another-reason", all));
                    }
                }
                | (Verdict::Rejected { messages }, true) => findings.push(mk("rejects-complete-comatch", messages.join(" | "))),
                | (other, _) => findings.push(mk("not-checked", other.short())),
            }
            findings
        },
        |an| an.cleanup(),
    );
    let findings: Vec<Value> = results.into_iter().flatten().collect();
    let summary = json!({"cases": cases.len(), "findings": findings});
    std::fs::write(out_path, serde_json::to_string_pretty(&summary).unwrap()).expect("write summary");
    println!("replay-comatch: cases={} findings={}", cases.len(), findings.len());
}
