//! C08 (language half): block programs from spec/ZyBlocks.tla rendered as `begin ... end` with the
//! contributions in the textual order `pos`; verdict and exit code must equal the prediction (which
//! does not depend on `pos`), and a rejection must be a diagnostic within the step/time limit.
use crate::common::*;
use serde_json::{Value, json};

const PRELUDE: &str = r#"param (
  (/core; /numeric; /system) :
  @(import("/repo/lib/std/builtin.zy"))
) in
let (/VType; /CType; /Thk; /Ret; /Unit) = core in
let (Scalar = Int64, int64) = numeric/int64 in
let (/process; /OS) = system in
"#;

pub fn render_block(case: &Value) -> String {
    let n = case["n"].as_u64().unwrap() as usize;
    let kinds: Vec<String> = case["kinds"].as_array().unwrap().iter().map(|k| k.as_str().unwrap().to_string()).collect();
    let edges: Vec<(usize, usize)> =
        case["edges"].as_array().unwrap().iter().map(|e| (e[0].as_u64().unwrap() as usize, e[1].as_u64().unwrap() as usize)).collect();
    let pos: Vec<usize> = case["pos"].as_array().unwrap().iter().map(|p| p.as_u64().unwrap() as usize).collect();
    let deps = |i: usize| -> Vec<usize> { edges.iter().filter(|e| e.0 == i).map(|e| e.1).collect() };
    let site = case["site"].as_str().unwrap_or("rhs").to_string();
    let mut body = String::from("  begin\n");
    for &i in &pos {
        match kinds[i - 1].as_str() {
            | "param" => {
                let t = deps(i).first().map(|d| format!("T{d}")).unwrap_or_else(|| "Int64".to_string());
                body.push_str(&format!("    param p{i} : {t} that\n"))
            }
            | "ty" => {
                let t = deps(i).first().map(|d| format!("T{d}")).unwrap_or_else(|| "Int64".to_string());
                body.push_str(&format!("    let T{i} = {t} that\n"))
            }
            | "def" => {
                let mut arms = format!(" | +C{i} : Unit");
                for d in deps(i) {
                    arms.push_str(&format!(" | +R{i}x{d} : D{d}"));
                }
                body.push_str(&format!("    def D{i} : VType = data{arms} end that\n"));
            }
            | _ => {
                // let t_i = { (mention defs) ; acc = 7*i ; acc += each val/param dependency }
                let mut s = String::new();
                let mut acc = format!("{}", 7 * i);
                let mut k = 0;
                for d in deps(i) {
                    match kinds[d - 1].as_str() {
                        | "def" => s.push_str(&format!("let u{d} : D{d} = +C{d}() in ")),
                        | "ty" if site == "rhs" => s.push_str(&format!("let u{d} : T{d} = 1 in ")),
                        | "ty" => {}
                        | "val" => {
                            s.push_str(&format!("do r{k} <- ! t{d}; do s{k} <- ! (int64/add) {acc} r{k}; "));
                            acc = format!("s{k}");
                            k += 1;
                        }
                        | _ => {
                            s.push_str(&format!("do s{k} <- ! (int64/add) {acc} p{d}; "));
                            acc = format!("s{k}");
                            k += 1;
                        }
                    }
                }
                // type aliases mentioned in an annotation instead of the right-hand side (every alias is Int64 in the end)
                let tys: Vec<usize> = deps(i).into_iter().filter(|d| kinds[d - 1] == "ty").collect();
                let ann = match tys.as_slice() {
                    | [] => "Thk (Ret Int64)".to_string(),
                    | [a] => format!("Thk (Ret T{a})"),
                    | [a, rest @ ..] => format!("Thk ({}Ret T{a})", rest.iter().map(|_| String::new()).collect::<String>()),
                };
                // more than one alias: the others go into a product the thunk does not use: Thk (Ret T_a) with a phantom let
                let extra: String = if site != "rhs" { tys.iter().skip(1).map(|d| format!("let u{d} : T{d} = 1 in ")).collect() } else { String::new() };
                match site.as_str() {
                    | "ann" if !tys.is_empty() => body.push_str(&format!("    let t{i} : {ann} = {{ {extra}{s}ret {acc} }} that\n")),
                    | "pat" if !tys.is_empty() => body.push_str(&format!("    let (t{i} : {ann}) = {{ {extra}{s}ret {acc} }} that\n")),
                    | _ => body.push_str(&format!("    let t{i} : Thk (Ret Int64) = {{ {s}ret {acc} }} that\n")),
                }
            }
        }
    }
    // body: total = sum (i+1)*val_i + (i+2)*param_i, exit (total mod 256)
    let mut s = String::new();
    let mut acc = "0".to_string();
    let mut k = 0;
    for i in 1..=n {
        match kinds[i - 1].as_str() {
            | "val" => {
                s.push_str(&format!("do v{k} <- ! t{i}; do m{k} <- ! (int64/mul) v{k} {}; do a{k} <- ! (int64/add) {acc} m{k}; ", i + 1));
                acc = format!("a{k}");
                k += 1;
            }
            | "param" => {
                s.push_str(&format!("do m{k} <- ! (int64/mul) p{i} {}; do a{k} <- ! (int64/add) {acc} m{k}; ", i + 2));
                acc = format!("a{k}");
                k += 1;
            }
            | _ => {}
        }
    }
    body.push_str(&format!("    {s}do code <- ! (int64/mod) {acc} 256; ! (process/exit) code\n  end\n"));
    // arguments in the order the model predicts for the parameters (node i receives 3 * i)
    let args: String = case["args"].as_array().map(|a| a.iter().map(|i| format!(" {}", 3 * i.as_u64().unwrap())).collect()).unwrap_or_default();
    let _ = n;
    format!("{PRELUDE}let blk = {{\n{body}}} in\n! blk{args}\n")
}

/// zyconf replay-blocks CASES SUMMARY
pub fn replay_blocks(cases_path: &str, out_path: &str) {
    let cases = read_ndjson(std::path::Path::new(cases_path));
    let results: Vec<(Vec<Value>, String)> = par_map_with(
        &cases,
        threads(),
        |tid| Analyzer::new(&format!("blocks{tid}")),
        |an, _idx, case| {
            let src = render_block(case);
            let accepted = case["accepted"].as_bool().unwrap();
            let code = case["code"].as_i64().unwrap();
            let t0 = std::time::Instant::now();
            let (v, analysis) = an.analyze("case.zy", &src);
            let mut findings = Vec::new();
            let mk = |kind: &str, detail: String| json!({"property":"C08","kind":kind,"detail":detail,"case":case,"source":src});
            if t0.elapsed().as_secs() > 20 {
                findings.push(mk("slow-analysis", format!("{:?}", t0.elapsed())));
            }
            let class;
            match (&v, accepted) {
                | (Verdict::Accepted, true) => {
                    let run = run_bounded(&an.session, analysis.as_ref().unwrap(), b"", &[], 200_000);
                    class = format!("{:?}", run.end);
                    if run.end != (RunEnd::Exit { code: code as i32 }) {
                        findings.push(mk("block-behaviour", format!("predicted exit {code}, observed {:?}", run.end)));
                    }
                }
                | (Verdict::Accepted, false) => {
                    class = "accepted".into();
                    findings.push(mk("accepts-value-cycle", "a value definition lies on a dependency cycle".into()))
                }
                | (Verdict::Panic { panic }, _) => {
                    class = "panic".into();
                    findings.push(mk("block-panic", format!("{} @ {}", panic.message, panic.file)))
                }
                | (other, true) => {
                    class = "rejected".into();
                    findings.push(mk("rejects-acyclic-block", other.short()))
                }
                | (other, false) => class = other.short().chars().take(40).collect(),
            }
            (findings, class)
        },
        |an| an.cleanup(),
    );
    let mut findings = Vec::new();
    let mut classes = std::collections::BTreeMap::new();
    for (f, c) in results {
        findings.extend(f);
        *classes.entry(c).or_insert(0usize) += 1;
    }
    let samples: Vec<Value> = cases
        .iter()
        .step_by((cases.len() / 3).max(1))
        .take(3)
        .map(|c| json!({"case": c, "source_block": render_block(c)[PRELUDE.len()..]}))
        .collect();
    let summary = json!({"cases": cases.len(), "findings": findings, "classes": classes, "samples": samples});
    std::fs::write(out_path, serde_json::to_string_pretty(&summary).unwrap()).expect("write summary");
    println!("replay-blocks: cases={} findings={}", cases.len(), findings.len());
}
