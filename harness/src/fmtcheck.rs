//! C12, C13, C14: the formatter replayed over spec-shaped inputs, comment placements and the repository
//! corpus under many directive/option combinations; every run yields one record (panic?, output parses?,
//! desugared structure preserved?, comments and code tokens preserved?, idempotent?, final newline?) that
//! spec/ZyFormatTrace.tla validates.
use crate::common::*;
use serde_json::{Value, json};
use std::collections::HashMap;
use std::sync::Arc;
use zydeco_surface::bitter::{SourceUnitDesugarer, syntax as b};
use zydeco_surface::textual::{
    Lexer, SourceUnitParser,
    fmt::{LayoutIntentions, Parentheses, PrettyFormatter, PrettyOptions},
    syntax::Parser,
};
use zydeco_utils::pass::CompilerPass;
use zydeco_utils::span::{FileInfo, LocationCtx};

/// Desugared structure of a source, stable under renumbering: the Debug text of the bitter root with every
/// TermId / PatId / DefId replaced by the Debug text of the node it names (definitions by their name).
pub fn structure(src: &str) -> Result<String, String> {
    let r = guarded(|| {
        let info = FileInfo::new(src, Some(Arc::new(std::path::PathBuf::from("mem.zy"))));
        let loc = LocationCtx::File(info);
        let mut parser = Parser::new();
        let unit = SourceUnitParser::new()
            .parse(src, &loc, &mut parser, Lexer::new(src))
            .map_err(|e| format!("parse: {}", format!("{e:?}").chars().take(120).collect::<String>()))?;
        let (spans, arena) = parser.finish();
        let d = SourceUnitDesugarer::new(&spans, &arena, unit).run().map_err(|e| format!("desugar: {e}"))?;
        let a: &b::BitterArena = &d.arena;
        let dump = Dump {
            terms: a.terms.iter().map(|(id, t)| (format!("{id:?}"), format!("{t:?}"))).collect(),
            pats: a.pats.iter().map(|(id, t)| (format!("{id:?}"), format!("{t:?}"))).collect(),
            defs: a.defs.iter().map(|(id, t)| (format!("{id:?}"), format!("{t:?}"))).collect(),
        };
        Ok::<String, String>(dump.expand(&format!("{:?}", d.root), 0))
    });
    match r {
        | Ok(x) => x,
        | Err(p) => Err(format!("PANIC {} @ {}", p.message, p.file)),
    }
}

struct Dump {
    terms: HashMap<String, String>,
    pats: HashMap<String, String>,
    defs: HashMap<String, String>,
}
impl Dump {
    /// Replace every `TermId(a, b)` / `PatId(a, b)` / `DefId(a, b)` in `s` recursively.
    fn expand(&self, s: &str, depth: usize) -> String {
        if depth > 300 {
            return "<deep>".into();
        }
        let mut out = String::with_capacity(s.len());
        let bytes = s.as_bytes();
        let mut i = 0;
        while i < bytes.len() {
            let rest = &s[i..];
            let hit = ["TermId(", "PatId(", "DefId("].iter().find(|p| rest.starts_with(**p));
            if let Some(p) = hit {
                if let Some(end) = rest.find(')') {
                    let key = &rest[..=end];
                    let inner = &key[p.len()..key.len() - 1];
                    if inner.chars().all(|c| c.is_ascii_digit() || c == ',' || c == ' ') {
                        let rep = if p.starts_with("TermId") {
                            self.terms.get(key).map(|t| self.expand_term(t, depth + 1))
                        } else if p.starts_with("PatId") {
                            self.pats.get(key).map(|t| self.expand(t, depth + 1))
                        } else {
                            self.defs.get(key).cloned()
                        };
                        out.push_str(&rep.unwrap_or_else(|| key.to_string()));
                        i += key.len();
                        continue;
                    }
                }
            }
            let ch = rest.chars().next().unwrap();
            out.push(ch);
            i += ch.len_utf8();
        }
        out
    }
    /// The desugarer wraps every syntactically outermost `exists` in an inferred `: VType` annotation;
    /// removing parentheses around a nested `exists` therefore changes the dump but not the meaning.
    /// `Ann { tm: <Sigma ...>, ty: <Internal(VType)> }` is erased to its `tm`.
    fn expand_term(&self, t: &str, depth: usize) -> String {
        if let Some(rest) = t.strip_prefix("Ann(Ann { tm: ") {
            if let Some(pos) = rest.find(", ty: ") {
                let (tm_key, ty_part) = (&rest[..pos], &rest[pos + 6..]);
                let ty_key = ty_part.trim_end_matches(" })");
                let tm_is_sigma = self.terms.get(tm_key).map(|x| x.starts_with("Sigma(")).unwrap_or(false);
                let ty_is_vtype = self.terms.get(ty_key).map(|x| x.contains("Internal(VType)")).unwrap_or(false);
                if tm_is_sigma && ty_is_vtype {
                    return self.expand_term(&self.terms[tm_key], depth + 1);
                }
            }
        }
        self.expand(t, depth)
    }
}

pub fn format_with(src: &str, opt: PrettyOptions) -> Result<String, String> {
    let r = guarded(|| {
        let info = FileInfo::new(src, Some(Arc::new(std::path::PathBuf::from("mem.zy"))));
        let loc = LocationCtx::File(info);
        let mut parser = Parser::new();
        let unit = SourceUnitParser::new()
            .parse(src, &loc, &mut parser, Lexer::new(src))
            .map_err(|e| format!("parse: {}", format!("{e:?}").chars().take(120).collect::<String>()))?;
        Ok::<String, String>(PrettyFormatter::with_options_source(&parser.arena, &parser.spans, opt, src).render_unit(unit))
    });
    match r {
        | Ok(x) => x,
        | Err(p) => Err(format!("PANIC {} @ {}", p.message, p.file)),
    }
}

/// zyconf fmt-dump FILE : debugging aid
pub fn fmt_dump(path: &str) {
    let src = std::fs::read_to_string(path).unwrap();
    println!("{:?}", structure(&src));
    println!("{:?}", format_with(&src, PrettyOptions::default()));
    let _ = (LayoutIntentions::Preserve, Parentheses::Minimal, json!({}), Value::Null);
}
