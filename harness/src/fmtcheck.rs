//! C12, C13, C14: the formatter replayed over spec-shaped inputs, comment placements and the repository
//! corpus under many directive/option combinations; every run yields one record (panic?, output parses?,
//! desugared structure preserved?, comments and code tokens preserved?, idempotent?, final newline?) that
//! spec/ZyFormatTrace.tla validates.
use crate::common::*;
use serde_json::{Value, json};
use std::collections::HashMap;
use std::sync::Arc;
use zydeco_surface::bitter::{SourceUnitDesugarer, syntax as b};
use zydeco_surface::textual::{
    Lexer, SourceUnitParser,
    fmt::{LayoutIntentions, Parentheses, PrettyFormatter, PrettyOptions},
    syntax::Parser,
};
use zydeco_utils::pass::CompilerPass;
use zydeco_utils::span::{FileInfo, LocationCtx};

/// Desugared structure of a source, stable under renumbering: the Debug text of the bitter root with every
/// TermId / PatId / DefId replaced by the Debug text of the node it names (definitions by their name).
pub fn structure(src: &str) -> Result<String, String> {
    let r = guarded(|| {
        let info = FileInfo::new(src, Some(Arc::new(std::path::PathBuf::from("mem.zy"))));
        let loc = LocationCtx::File(info);
        let mut parser = Parser::new();
        let unit = SourceUnitParser::new()
            .parse(src, &loc, &mut parser, Lexer::new(src))
            .map_err(|e| format!("parse: {}", format!("{e:?}").chars().take(120).collect::<String>()))?;
        let (spans, arena) = parser.finish();
        let d = SourceUnitDesugarer::new(&spans, &arena, unit).run().map_err(|e| format!("desugar: {e}"))?;
        let a: &b::BitterArena = &d.arena;
        let dump = Dump {
            terms: a.terms.iter().map(|(id, t)| (format!("{id:?}"), format!("{t:?}"))).collect(),
            pats: a.pats.iter().map(|(id, t)| (format!("{id:?}"), format!("{t:?}"))).collect(),
            defs: a.defs.iter().map(|(id, t)| (format!("{id:?}"), format!("{t:?}"))).collect(),
        };
        Ok::<String, String>(dump.expand(&format!("{:?}", d.root), 0))
    });
    match r {
        | Ok(x) => x,
        | Err(p) => Err(format!("PANIC {} @ {}", p.message, p.file)),
    }
}

struct Dump {
    terms: HashMap<String, String>,
    pats: HashMap<String, String>,
    defs: HashMap<String, String>,
}
impl Dump {
    /// Replace every `TermId(a, b)` / `PatId(a, b)` / `DefId(a, b)` in `s` recursively.
    fn expand(&self, s: &str, depth: usize) -> String {
        if depth > 300 {
            return "<deep>".into();
        }
        let mut out = String::with_capacity(s.len());
        let bytes = s.as_bytes();
        let mut i = 0;
        while i < bytes.len() {
            let rest = &s[i..];
            let hit = ["TermId(", "PatId(", "DefId("].iter().find(|p| rest.starts_with(**p));
            if let Some(p) = hit {
                if let Some(end) = rest.find(')') {
                    let key = &rest[..=end];
                    let inner = &key[p.len()..key.len() - 1];
                    if inner.chars().all(|c| c.is_ascii_digit() || c == ',' || c == ' ') {
                        let rep = if p.starts_with("TermId") {
                            self.terms.get(key).map(|t| self.expand_term(t, depth + 1))
                        } else if p.starts_with("PatId") {
                            self.pats.get(key).map(|t| self.expand(t, depth + 1))
                        } else {
                            self.defs.get(key).cloned()
                        };
                        out.push_str(&rep.unwrap_or_else(|| key.to_string()));
                        i += key.len();
                        continue;
                    }
                }
            }
            let ch = rest.chars().next().unwrap();
            out.push(ch);
            i += ch.len_utf8();
        }
        out
    }
    /// The desugarer wraps every syntactically outermost `exists` (abstract or manifest) in an inferred `: VType` annotation;
    /// removing parentheses around a nested `exists` therefore changes the dump but not the meaning.
    /// `Ann { tm: <Sigma ...>, ty: <Internal(VType)> }` is erased to its `tm`.
    fn expand_term(&self, t: &str, depth: usize) -> String {
        if let Some(rest) = t.strip_prefix("Ann(Ann { tm: ") {
            if let Some(pos) = rest.find(", ty: ") {
                let (tm_key, ty_part) = (&rest[..pos], &rest[pos + 6..]);
                let ty_key = ty_part.trim_end_matches(" })");
                let tm_is_sigma = self.terms.get(tm_key).map(|x| x.starts_with("Sigma(") || x.starts_with("ManifestExists(") || x.starts_with("Exists(")).unwrap_or(false);
                let ty_is_vtype = self.terms.get(ty_key).map(|x| x.contains("Internal(VType)")).unwrap_or(false);
                if tm_is_sigma && ty_is_vtype {
                    return self.expand_term(&self.terms[tm_key], depth + 1);
                }
            }
        }
        self.expand(t, depth)
    }
}

/// Formatting with a watchdog: the layout search is exponential on some inputs (finding F21), and a run
/// that does not come back within the budget is reported as "TIMEOUT" (its thread is abandoned).
pub fn format_with(src: &str, opt: PrettyOptions) -> Result<String, String> {
    // one helper thread per calling thread; a helper that does not answer in time is abandoned and replaced
    type Job = (String, PrettyOptions);
    type Helper = (std::sync::mpsc::Sender<Job>, std::sync::mpsc::Receiver<Result<String, String>>);
    thread_local! {
        static HELPER: std::cell::RefCell<Option<Helper>> = const { std::cell::RefCell::new(None) };
    }
    let budget = std::env::var("ZYFMT_BUDGET_S").ok().and_then(|s| s.parse().ok()).unwrap_or(30u64);
    HELPER.with(|h| {
        let mut h = h.borrow_mut();
        if h.is_none() {
            let (jtx, jrx) = std::sync::mpsc::channel::<Job>();
            let (rtx, rrx) = std::sync::mpsc::channel();
            std::thread::Builder::new()
                .stack_size(256 << 20)
                .spawn(move || {
                    while let Ok((src, opt)) = jrx.recv() {
                        if rtx.send(format_unbounded(&src, opt)).is_err() {
                            break;
                        }
                    }
                })
                .expect("spawn");
            *h = Some((jtx, rrx));
        }
        let (jtx, rrx) = h.as_ref().unwrap();
        jtx.send((src.to_string(), opt)).expect("helper alive");
        match rrx.recv_timeout(std::time::Duration::from_secs(budget)) {
            | Ok(r) => r,
            | Err(_) => {
                *h = None; // the helper keeps searching; its channels are dropped
                Err(format!("TIMEOUT no output after {budget} s"))
            }
        }
    })
}

fn format_unbounded(src: &str, opt: PrettyOptions) -> Result<String, String> {
    let r = guarded(|| {
        let info = FileInfo::new(src, Some(Arc::new(std::path::PathBuf::from("mem.zy"))));
        let loc = LocationCtx::File(info);
        let mut parser = Parser::new();
        let unit = SourceUnitParser::new()
            .parse(src, &loc, &mut parser, Lexer::new(src))
            .map_err(|e| format!("parse: {}", format!("{e:?}").chars().take(120).collect::<String>()))?;
        Ok::<String, String>(PrettyFormatter::with_options_source(&parser.arena, &parser.spans, opt, src).render_unit(unit))
    });
    match r {
        | Ok(x) => x,
        | Err(p) => Err(format!("PANIC {} @ {}", p.message, p.file)),
    }
}


// ------------------------------------------------------------------------------------------------
// independent scanner: code tokens and comments of a source text (deliberately not the repository's lexer)

#[derive(Clone, Debug, PartialEq, Eq)]
pub struct Cmt {
    /// "line" | "text" | "block"
    pub kind: &'static str,
    /// content with the marker and surrounding blanks removed, lines trimmed
    pub text: String,
    /// number of code tokens before the comment
    pub at: usize,
}
#[derive(Clone, Debug, Default)]
pub struct Scan {
    pub tokens: Vec<String>,
    pub comments: Vec<Cmt>,
    /// every token and comment in source order: (is_comment, char start, char end)
    pub items: Vec<(bool, usize, usize)>,
}

fn is_ident_char(c: char) -> bool {
    c.is_ascii_alphanumeric() || matches!(c, '_' | '\'' | '?' | '+' | '*' | '-' | '=' | '~')
}

pub fn scan(src: &str) -> Scan {
    let cs: Vec<char> = src.chars().collect();
    let n = cs.len();
    let mut out = Scan::default();
    let mut i = 0;
    let at = |i: usize, s: &str| -> bool { s.chars().enumerate().all(|(k, c)| i + k < n && cs[i + k] == c) };
    // one lexeme starting at i (not whitespace): returns its end
    let lexeme_end = |i: usize| -> usize {
        let c = cs[i];
        let run = |mut j: usize| {
            while j < n && is_ident_char(cs[j]) {
                j += 1;
            }
            j
        };
        if c.is_ascii_alphabetic() {
            return run(i + 1);
        }
        if c == '_' {
            return run(i + 1);
        }
        if c == '+' && i + 1 < n && cs[i + 1].is_ascii_uppercase() {
            return run(i + 2);
        }
        if c == '.' && i + 1 < n && cs[i + 1].is_ascii_lowercase() {
            return run(i + 2);
        }
        let digit_at = |j: usize| j < n && cs[j].is_ascii_digit();
        if c.is_ascii_digit() || ((c == '+' || c == '-') && digit_at(i + 1)) {
            let mut j = i + 1;
            while digit_at(j) {
                j += 1;
            }
            if j < n && cs[j] == '.' && digit_at(j + 1) {
                j += 1;
                while digit_at(j) {
                    j += 1;
                }
            }
            if j < n && (cs[j] == 'e' || cs[j] == 'E') {
                let mut k = j + 1;
                if k < n && (cs[k] == '+' || cs[k] == '-') {
                    k += 1;
                }
                if digit_at(k) {
                    while digit_at(k) {
                        k += 1;
                    }
                    j = k;
                }
            }
            return j;
        }
        if c == '"' {
            let mut j = i + 1;
            while j < n && cs[j] != '"' {
                if cs[j] == '\\' {
                    j += 1;
                }
                j += 1;
            }
            return (j + 1).min(n);
        }
        if c == '\'' {
            if i + 2 < n && cs[i + 1] != '\\' && cs[i + 2] == '\'' {
                return i + 3;
            }
            if i + 3 < n && cs[i + 1] == '\\' && cs[i + 3] == '\'' {
                return i + 4;
            }
            return i + 1;
        }
        for two in ["::", "=>", "->", "<-", "/-", "-/"] {
            if at(i, two) {
                return i + 2;
            }
        }
        i + 1
    };
    while i < n {
        let c = cs[i];
        if c.is_whitespace() {
            i += 1;
            continue;
        }
        if at(i, "--") {
            let mut j = i;
            while j < n && cs[j] != '\n' {
                j += 1;
            }
            let line: String = cs[i..j].iter().collect();
            let (kind, body) = if let Some(b) = line.strip_prefix("--|") { ("text", b) } else { ("line", &line[2..]) };
            out.comments.push(Cmt { kind, text: body.trim().to_string(), at: out.tokens.len() });
            out.items.push((true, i, j));
            i = j;
            continue;
        }
        if at(i, "/-") {
            // nested; inside, lexemes are read as usual so that strings and line comments hide markers
            let start = i;
            let mut depth = 0usize;
            let mut j = i;
            loop {
                if j >= n {
                    break;
                }
                if cs[j].is_whitespace() {
                    j += 1;
                    continue;
                }
                if at(j, "--") {
                    while j < n && cs[j] != '\n' {
                        j += 1;
                    }
                    continue;
                }
                let e = lexeme_end(j);
                let lx: String = cs[j..e].iter().collect();
                j = e;
                if lx == "/-" {
                    depth += 1;
                } else if lx == "-/" {
                    depth -= 1;
                    if depth == 0 {
                        break;
                    }
                }
            }
            let raw: String = cs[start..j].iter().collect();
            let inner = raw.strip_prefix("/-").unwrap_or(&raw);
            let inner = inner.strip_suffix("-/").unwrap_or(inner);
            let text = inner.lines().map(|l| l.trim()).filter(|l| !l.is_empty()).collect::<Vec<_>>().join("\n");
            out.comments.push(Cmt { kind: "block", text, at: out.tokens.len() });
            out.items.push((true, start, j));
            i = j;
            continue;
        }
        let e = lexeme_end(i);
        out.tokens.push(cs[i..e].iter().collect());
        out.items.push((false, i, e));
        i = e;
    }
    out
}

/// Re-spellings of a source that keep every token and comment: the starting layouts of C14.
pub fn relayout(src: &str, how: &str, rng: &mut Rng) -> String {
    let cs: Vec<char> = src.chars().collect();
    let sc = scan(src);
    let text = |a: usize, b: usize| -> String { cs[a..b].iter().collect() };
    let mut out = String::new();
    let mut prev_end = 0usize;
    for (k, (is_c, a, b)) in sc.items.iter().enumerate() {
        let gap = text(prev_end, *a);
        let item = text(*a, *b);
        let prev_is_line_comment = k > 0 && sc.items[k - 1].0 && text(sc.items[k - 1].1, sc.items[k - 1].2).starts_with("--");
        match how {
            | "hspace" => {
                // horizontal spacing only; the column of a multi-line block comment is left alone
                if *is_c && item.contains('\n') {
                    out.push_str(&gap);
                } else {
                    let mut run = false;
                    for ch in gap.chars() {
                        if ch == ' ' || ch == '\t' {
                            if !run {
                                out.push_str(&" ".repeat(1 + rng.below(3)));
                            }
                            run = true;
                        } else {
                            out.push(ch);
                            run = false;
                        }
                    }
                }
            }
            | "flat" => {
                if k > 0 {
                    out.push_str(if prev_is_line_comment { "\n" } else { " " });
                }
            }
            | "broken" => {
                if k > 0 {
                    out.push('\n');
                }
            }
            | _ => out.push_str(&gap),
        }
        out.push_str(&item);
        prev_end = *b;
    }
    out.push_str(&text(prev_end, cs.len()).replace(|c: char| how != "hspace" && c != '\n', ""));
    if !out.ends_with('\n') {
        out.push('\n');
    }
    out
}

/// One random edit that keeps the source parseable in most cases: a comment in a token gap, a redundant pair
/// around an identifier, a line break inserted or removed.
pub fn mutate_layout(src: &str, rng: &mut Rng) -> Option<(String, &'static str)> {
    let cs: Vec<char> = src.chars().collect();
    let sc = scan(src);
    if sc.items.len() < 3 {
        return None;
    }
    let text = |a: usize, b: usize| -> String { cs[a..b].iter().collect() };
    let k = rng.below(sc.items.len());
    let (is_c, a, b) = sc.items[k];
    let kind = ["block-comment", "line-comment", "paren", "break", "join", "text-comment"][rng.below(6)];
    let mut out = String::new();
    match kind {
        | "block-comment" => {
            out.push_str(&text(0, a));
            out.push_str("/- mutant note -/ ");
            out.push_str(&text(a, cs.len()));
        }
        | "line-comment" | "text-comment" => {
            // at the end of the line that holds item k
            let mut e = b;
            while e < cs.len() && cs[e] != '\n' {
                e += 1;
            }
            // not inside a multi-line item: only when the rest of the line holds whole items
            if sc.items.iter().any(|(_, x, y)| *x < e && *y > e) {
                return None;
            }
            out.push_str(&text(0, e));
            out.push_str(if kind == "line-comment" { " -- mutant note" } else { "\n--| mutant note" });
            out.push_str(&text(e, cs.len()));
        }
        | "paren" => {
            let t = text(a, b);
            if is_c || !t.chars().next().is_some_and(|c| c.is_ascii_lowercase()) || is_keyword(&t) {
                return None;
            }
            out.push_str(&text(0, a));
            out.push('(');
            out.push_str(&t);
            out.push(')');
            out.push_str(&text(b, cs.len()));
        }
        | "break" => {
            if k == 0 {
                return None;
            }
            out.push_str(&text(0, a));
            out.push('\n');
            out.push_str(&text(a, cs.len()));
        }
        | _ => {
            // join: remove the line break(s) before item k when the previous item is not a line comment
            if k == 0 {
                return None;
            }
            let (pc, pa, pb) = sc.items[k - 1];
            if pc && text(pa, pb).starts_with("--") {
                return None;
            }
            let gap = text(pb, a);
            if !gap.contains('\n') {
                return None;
            }
            out.push_str(&text(0, pb));
            out.push(' ');
            out.push_str(&text(a, cs.len()));
        }
    }
    Some((out, kind))
}

fn is_keyword(t: &str) -> bool {
    matches!(t, "end" | "begin" | "data" | "codata" | "as" | "def" | "define" | "let" | "param" | "in" | "that" | "do" | "ret" | "fn" | "pi" | "fix" | "match" | "comatch" | "forall" | "sigma" | "exists")
}

/// For every `@(literal)` / `@[literal]` / `@[doc ..]` annotation of the source: the `--|` text attached to it - the
/// text block that ends on the line directly above the annotation (that text is the VALUE of a literal splice and the
/// documentation of a doc annotation) - or None when nothing is attached.
pub fn attachments(src: &str) -> Vec<Option<String>> {
    let lines: Vec<&str> = src.lines().collect();
    let mut out = Vec::new();
    for (i, l) in lines.iter().enumerate() {
        let t = l.trim_start();
        let mut rest = t;
        // an annotation may follow other tokens on its line; attachment needs it to START its line's annotation position
        while let Some(p) = rest.find('@') {
            let after = &rest[p + 1..];
            let is = ["(literal", "[literal", "(doc", "[doc"].iter().any(|m| after.starts_with(m));
            if is {
                let starts_line = t[..t.len() - rest.len() + p].trim().is_empty();
                let mut text: Vec<String> = Vec::new();
                if starts_line {
                    // the block is every `--|` line directly above; its first line may follow code on the same line
                    // (adjacent text lines merge into one block whatever precedes the first of them)
                    let mut j = i;
                    while j > 0 {
                        let prev = lines[j - 1];
                        let Some(q) = prev.find("--|") else { break };
                        j -= 1;
                        text.insert(0, prev[q + 3..].trim().to_string());
                        if !prev[..q].trim().is_empty() {
                            break;
                        }
                    }
                }
                out.push(if text.is_empty() { None } else { Some(text.join("\n")) });
            }
            rest = after;
        }
    }
    out
}

/// Code tokens modulo the printer's canonical spellings, none of which changes the parsed term:
/// parentheses (accounted for by the structure comparison and the skeleton check), binder telescopes
/// (`fn a b =>` / `fn a => fn b =>`), `define` / `def`, `comatch p => t end` / `fn p => t`, `@[m] _` / `@(m)`.
fn norm_tokens(toks: &[String], drop_parens: bool) -> Vec<String> {
    if drop_parens {
        let kept: Vec<String> = toks.iter().filter(|t| *t != "(" && *t != ")").cloned().collect();
        return norm_tokens_inner(&kept, true);
    }
    norm_tokens_inner(toks, false)
}
fn norm_tokens_inner(toks: &[String], parens_gone: bool) -> Vec<String> {
    // pass 1: comatch-abstraction and hole-payload sugar
    let mut pass1: Vec<String> = Vec::new();
    let mut stack: Vec<bool> = Vec::new(); // for every open `end`-closed construct: is it a comatch-abstraction?
    let mut i = 0;
    while i < toks.len() {
        let t = toks[i].as_str();
        let nx = toks.get(i + 1).map(|s| s.as_str()).unwrap_or("");
        match t {
            | "begin" | "data" | "codata" | "match" => {
                stack.push(false);
                pass1.push(toks[i].clone());
            }
            | "comatch" => {
                let abs = nx != "|" && nx != "end";
                stack.push(abs);
                pass1.push(if abs { "fn".into() } else { toks[i].clone() });
            }
            | "end" => {
                if !stack.pop().unwrap_or(false) {
                    pass1.push(toks[i].clone());
                }
            }
            | "define" => pass1.push("def".into()),
            | "@" if nx == "[" => {
                // find the matching bracket
                let mut depth = 0;
                let mut j = i + 1;
                while j < toks.len() {
                    if toks[j] == "[" {
                        depth += 1;
                    } else if toks[j] == "]" {
                        depth -= 1;
                        if depth == 0 {
                            break;
                        }
                    }
                    j += 1;
                }
                if j + 1 < toks.len() && toks[j + 1] == "_" {
                    pass1.push("@".into());
                    if !parens_gone {
                        pass1.push("(".into());
                    }
                    pass1.extend(toks[i + 2..j].iter().cloned());
                    if !parens_gone {
                        pass1.push(")".into());
                    }
                    i = j + 2;
                    continue;
                }
                pass1.push(toks[i].clone());
            }
            | _ => pass1.push(toks[i].clone()),
        }
        i += 1;
    }
    let toks = pass1;
    let mut out: Vec<String> = Vec::new();
    let mut i = 0;
    while i < toks.len() {
        let t = toks[i].as_str();
        let nx = toks.get(i + 1).map(|s| s.as_str()).unwrap_or("");
        if (t == "=>" && nx == "fn") || (t == "." && matches!(nx, "forall" | "pi" | "sigma" | "exists")) {
            i += 2;
            continue;
        }
        out.push(toks[i].clone());
        i += 1;
    }
    out
}

// ------------------------------------------------------------------------------------------------
// one formatting case

#[derive(Clone, Copy, Debug)]
pub struct Opt {
    pub width: usize,
    pub indent: usize,
    pub layout: LayoutIntentions,
    pub parens: Parentheses,
}
impl Opt {
    pub fn default() -> Self {
        Opt { width: 100, indent: 2, layout: LayoutIntentions::Preserve, parens: Parentheses::Minimal }
    }
    pub fn pretty(&self) -> PrettyOptions {
        PrettyOptions::default()
            .with_line_width(self.width)
            .with_indent(zydeco_surface::textual::fmt::IndentWidth::new(self.indent).unwrap())
            .with_layout_intentions(self.layout)
            .with_parentheses(self.parens)
    }
    pub fn name(&self) -> String {
        format!(
            "w{}-i{}-{}-{}",
            self.width,
            self.indent,
            match self.layout {
                | LayoutIntentions::Preserve => "preserve",
                | LayoutIntentions::Ignore => "ignore",
                | LayoutIntentions::BlankLinesOnly => "blank",
            },
            match self.parens {
                | Parentheses::Minimal => "minimal",
                | Parentheses::Preserve => "keep",
            }
        )
    }
}

pub fn option_set(tier: &str) -> Vec<Opt> {
    let mut v = Vec::new();
    let widths: &[usize] = if tier == "quick" { &[100, 20, 1] } else { &[100, 40, 20, 7, 2, 1] };
    for &width in widths {
        for layout in [LayoutIntentions::Preserve, LayoutIntentions::Ignore, LayoutIntentions::BlankLinesOnly] {
            for parens in [Parentheses::Minimal, Parentheses::Preserve] {
                if tier == "quick" && layout == LayoutIntentions::BlankLinesOnly && width != 20 {
                    continue;
                }
                let indent = if width == 20 { 4 } else if width == 7 { 1 } else { 2 };
                v.push(Opt { width, indent, layout, parens });
            }
        }
    }
    v
}

#[derive(Default, Clone)]
pub struct Tally {
    pub runs: u64,
    pub bad: std::collections::BTreeMap<&'static str, u64>,
}
impl Tally {
    fn hit(&mut self, k: &'static str) {
        *self.bad.entry(k).or_default() += 1;
    }
}

fn clip(s: &str) -> String {
    if s.len() > 1500 { format!("{}…[{} bytes]", s.chars().take(1500).collect::<String>(), s.len()) } else { s.to_string() }
}

/// Formats `src` under `opt` and evaluates every relation of C12 (total, parses, same structure),
/// C13 (comments and tokens kept) and C14 (idempotent, one final newline).  `origin` names the case.
/// Returns the formatted text when there is one.
pub fn eval_case(src: &str, opt: &Opt, origin: &str, tally: &mut Tally, findings: &mut Vec<Value>) -> Option<String> {
    let reference = match structure(src) {
        | Ok(s) => Some(s),
        | Err(e) if e.starts_with("parse:") => return None, // not a parseable source: not in the quantifier
        | Err(_) => None, // parses but does not desugar: structure comparison falls back to the error text
    };
    // a source whose layout search already ran away is not tried again at narrow widths (one abandoned thread each)
    if opt.width < 100 && SLOW.lock().unwrap().contains(origin.split(' ').next().unwrap_or("")) {
        tally.hit("skipped-after-timeout");
        return None;
    }
    tally.runs += 1;
    let mut report = |prop: &str, kind: &str, detail: String, extra: Value| {
        findings.push(json!({"property": prop, "kind": kind, "detail": detail, "origin": origin, "options": opt.name(),
                             "input": clip(src), "extra": extra}));
    };
    let out1 = match format_with(src, opt.pretty()) {
        | Ok(o) => o,
        | Err(e) if e.starts_with("TIMEOUT") => {
            tally.hit("timeout");
            SLOW.lock().unwrap().insert(origin.split(' ').next().unwrap_or("").to_string());
            let depth = nesting_depth(src);
            // narrow = the width in force is at most 50 columns (option or in-source directive)
            let narrow = opt.width <= 50 || {
                let mut found = false;
                let mut rest = src;
                while let Some(i) = rest.find("width(") {
                    let digits: String = rest[i + 6..].chars().take_while(|c| c.is_ascii_digit()).collect();
                    if digits.parse::<usize>().is_ok_and(|w| w <= 50) {
                        found = true;
                    }
                    rest = &rest[i + 6..];
                }
                found
            };
            let cause = if depth >= 9 || (depth >= 5 && narrow) { "deep-nesting" } else { "other" };
            report("C12", "fmt-timeout", format!("cause={cause}; delimiter nesting depth {depth}; {e}"), Value::Null);
            return None;
        }
        | Err(e) => {
            tally.hit("panic");
            let cause = if block_comment_before_line_start_construct(src) {
                "block-comment-before-a-construct-that-starts-a-line"
            } else if scan(src).comments.iter().any(|c| c.kind == "block") {
                "block-comment-carried-to-a-construct-that-starts-a-line" // the next entity start lies further ahead (after closers, a meta payload)
            } else {
                "other"
            };
            report("C12", "fmt-panic", format!("cause={cause}; {e}"), Value::Null);
            return None;
        }
    };
    // C12: output parses and denotes the same term
    match (structure(&out1), &reference) {
        | (Err(e), _) if e.starts_with("parse:") => {
            tally.hit("unparsable");
            report("C12", "output-does-not-parse", e, json!({"output": clip(&out1)}));
            return Some(out1);
        }
        | (Ok(s), Some(r)) if &s != r => {
            tally.hit("structure");
            report("C12", "structure-changed", first_difference(r, &s), json!({"output": clip(&out1)}));
        }
        | (Err(e), Some(_)) => {
            tally.hit("structure");
            report("C12", "structure-changed", format!("output no longer desugars: {e}"), json!({"output": clip(&out1)}));
        }
        | _ => {}
    }
    // C13: comments in order with their content; code tokens accounted for
    let (a, b) = (scan(src), scan(&out1));
    let ca: Vec<(&str, &str)> = a.comments.iter().map(|c| (c.kind, c.text.as_str())).collect();
    let cb: Vec<(&str, &str)> = b.comments.iter().map(|c| (c.kind, c.text.as_str())).collect();
    let flat = |v: &Vec<(&str, &str)>| -> Vec<(String, String)> {
        v.iter().flat_map(|(k, t)| t.split('\n').map(move |l| (k.to_string(), l.to_string())).collect::<Vec<_>>()).collect()
    };
    if flat(&ca) != flat(&cb) {
        tally.hit("comments");
        let (mut sa, mut sb) = (flat(&ca), flat(&cb));
        let kind = if sb.len() < sa.len() {
            "comment-lost"
        } else if sb.len() > sa.len() {
            "comment-duplicated"
        } else {
            sa.sort();
            sb.sort();
            if sa == sb { "comment-reordered" } else { "comment-changed" }
        };
        let cause = if kind == "comment-duplicated" && src.contains("format(verbatim") { "verbatim-region-with-interior-trailing-comment" } else { "other" };
        report("C13", kind, format!("cause={cause}; {} comment lines -> {}; {:?} -> {:?}", sa.len(), sb.len(), ca.iter().take(4).collect::<Vec<_>>(), cb.iter().take(4).collect::<Vec<_>>()), json!({"output": clip(&out1)}));
    }
    // documentation / literal text stays attached to its annotation
    let (at_in, at_out) = (attachments(src), attachments(&out1));
    if at_in.iter().any(|x| x.is_some()) && at_in != at_out {
        tally.hit("comments");
        let merged = at_in.len() == at_out.len()
            && at_in.iter().zip(at_out.iter()).all(|(a, b)| match (a, b) {
                | (Some(a), Some(b)) => a == b || b.ends_with(&format!("\n{a}")),
                | (None, _) => true,
                | _ => false,
            });
        let cause = if merged { "another-text-block-carried-to-the-annotation-merges-with-its-attached-text" } else { "other" };
        report("C13", "attached-text-detached", format!("cause={cause}; {:?} -> {:?}", at_in, at_out), json!({"output": clip(&out1)}));
    }
    let (ta, tb) = (norm_tokens(&a.tokens, true), norm_tokens(&b.tokens, true));
    if ta != tb && !explained_by_puns(&ta, &tb) {
        tally.hit("tokens");
        let i = ta.iter().zip(tb.iter()).position(|(x, y)| x != y).unwrap_or(ta.len().min(tb.len()));
        report(
            "C13",
            "code-tokens-changed",
            format!("at token {i}: {:?} -> {:?}", ta.iter().skip(i.saturating_sub(2)).take(6).collect::<Vec<_>>(), tb.iter().skip(i.saturating_sub(2)).take(6).collect::<Vec<_>>()),
            json!({"output": clip(&out1)}),
        );
    }
    // C14: projection, one final newline
    if !(out1.ends_with('\n') && !out1.ends_with("\n\n") && out1.trim_end_matches('\n').len() + 1 == out1.len()) {
        tally.hit("newline");
        report("C14", "final-newline", format!("output ends with {:?}", out1.chars().rev().take(3).collect::<String>()), Value::Null);
    }
    match format_with(&out1, opt.pretty()) {
        | Ok(out2) if out2 == out1 => {}
        | Ok(out2) => {
            tally.hit("idempotence");
            let third = format_with(&out2, opt.pretty()).ok();
            let settles = third.as_deref() == Some(out2.as_str());
            let (r1, r2) = (scan(&out1).tokens, scan(&out2).tokens);
            let narrow = opt.width < 100 || src.contains("width(");
            let strip = |s: &str| s.lines().map(|l| l.trim_end()).collect::<Vec<_>>().join("\n");
            let sans = |v: &Vec<String>| v.iter().filter(|t| *t != "(" && *t != ")").cloned().collect::<Vec<_>>();
            let cause = if r1 != r2 && sans(&r1) == sans(&r2) {
                "pairs-differ-between-first-and-second-run" // nothing but parentheses changed
            } else if r1 != r2 && norm_tokens(&r1, true) == norm_tokens(&r2, true) {
                "contraction-exposed-by-the-first-run" // telescope / hole payload / pun seen only once the first run removed a pair
            } else if r1 != r2 {
                "tokens-change-on-second-run"
            } else if src.contains("format(verbatim") && out2.len() > out1.len() {
                "verbatim-region-with-interior-trailing-comment"
            } else if mid_line_text_block(src) {
                "text-block-not-at-line-start"
            } else if comment_hops_over_open_paren(&out1, &out2) {
                "comment-hops-over-an-opening-parenthesis"
            } else if strip(&out1) == strip(&out2) {
                "trailing-whitespace-in-first-output"
            } else if multiline_block_comment_mid_line(src) && out1.lines().zip(out2.lines()).any(|(a, b)| a != b && a.trim_start() == b.trim_start()) {
                "multi-line-block-comment-that-starts-mid-line-is-re-indented" // leading blanks of continuation lines differ
            } else if src.contains("codata") && out1.lines().zip(out2.lines()).any(|(a, b)| a != b && b.trim_end().ends_with(':') && a.starts_with(b.trim_end())) {
                "codata-arm-result-type-after-multi-line-parameters" // `(params) : T` -> `(params) :` + T on the next line
            } else if narrow && opt.layout == LayoutIntentions::Preserve && settles {
                "width-forced-break-read-back-as-intention"
            } else if narrow && settles && scan(src).tokens.iter().filter(|t| *t == "(").count() > r1.iter().filter(|t| *t == "(").count() {
                "layout-chosen-around-a-pair-the-same-run-removes" // the alternatives of the first run still contain the grouping node
            } else {
                "layout"
            };
            report(
                "C14",
                "not-idempotent",
                format!("cause={cause}; {}; {}", first_line_difference(&out1, &out2), if settles { "third run is stable" } else { "third run differs again" }),
                json!({"first": clip(&out1), "second": clip(&out2)}),
            );
        }
        | Err(e) => {
            tally.hit("idempotence");
            report("C14", "not-idempotent", format!("second run fails: {e}"), json!({"first": clip(&out1)}));
        }
    }
    Some(out1)
}

/// Findings are kept up to 200 per (property, kind, cause) family over the whole run; the rest is only counted.
static FAMILIES: std::sync::LazyLock<std::sync::Mutex<std::collections::BTreeMap<String, u64>>> = std::sync::LazyLock::new(Default::default);
fn cap_findings(findings: Vec<Value>) -> Vec<Value> {
    let mut fam = FAMILIES.lock().unwrap();
    findings
        .into_iter()
        .filter(|x| {
            let cause = x["detail"].as_str().and_then(|d| d.strip_prefix("cause=")).and_then(|d| d.split(';').next()).unwrap_or("").to_string();
            let key = format!("{}|{}|{}", x["property"].as_str().unwrap_or(""), x["kind"].as_str().unwrap_or(""), cause);
            let n = fam.entry(key).or_insert(0);
            *n += 1;
            *n <= 200
        })
        .collect()
}

static SLOW: std::sync::LazyLock<std::sync::Mutex<std::collections::HashSet<String>>> = std::sync::LazyLock::new(Default::default);

fn nesting_depth(src: &str) -> usize {
    let (mut d, mut m) = (0usize, 0usize);
    for t in scan(src).tokens {
        match t.as_str() {
            | "(" | "{" | "[" => {
                d += 1;
                m = m.max(d);
            }
            | ")" | "}" | "]" => d = d.saturating_sub(1),
            | _ => {}
        }
    }
    m
}

fn comment_hops_over_open_paren(a: &str, b: &str) -> bool {
    let (x, y) = (scan(a), scan(b));
    x.tokens == y.tokens
        && x.comments.len() == y.comments.len()
        && x.comments.iter().zip(y.comments.iter()).any(|(c, d)| c.at != d.at)
        && x.comments.iter().zip(y.comments.iter()).all(|(c, d)| {
            let (lo, hi) = if c.at <= d.at { (c.at, d.at) } else { (d.at, c.at) };
            x.tokens[lo..hi].iter().all(|t| t == "(")
        })
}

/// a `/- … -/` comment followed, on its own last line, by a construct the printer only starts at a line start
fn block_comment_before_line_start_construct(src: &str) -> bool {
    let mut rest = src;
    while let Some(i) = rest.find("-/") {
        let after = &rest[i + 2..];
        let mut lines = after.lines();
        let mut line = lines.next().unwrap_or("").to_string();
        if let Some(next) = lines.find(|l| !l.trim().is_empty()) {
            line.push(' ');
            line.push_str(scan(next).tokens.first().map(|s| s.as_str()).unwrap_or(""));
        }
        if scan(&line).tokens.iter().any(|t| matches!(t.as_str(), "let" | "do" | "define" | "def" | "match" | "param" | "data" | "comatch" | "codata" | "begin")) {
            return true;
        }
        rest = after;
    }
    false
}

/// a `/- .. -/` comment with a line break inside whose opener is not the first thing on its line
fn multiline_block_comment_mid_line(src: &str) -> bool {
    let mut at = 0usize;
    while let Some(i) = src[at..].find("/-") {
        let abs = at + i;
        let line_start = src[..abs].rfind('\n').map_or(0, |p| p + 1);
        let after = &src[abs..];
        let end = after.find("-/").map_or(after.len(), |e| e + 2);
        if after[..end].contains('\n') && !src[line_start..abs].trim().is_empty() {
            return true;
        }
        at = abs + end.max(2);
    }
    false
}

/// a `--|` block that does not start its line (documentation blocks are meant to stand on their own lines)
fn mid_line_text_block(src: &str) -> bool {
    src.lines().any(|l| l.find("--|").is_some_and(|i| !l[..i].trim().is_empty()))
}

fn first_difference(a: &str, b: &str) -> String {
    let i = a.bytes().zip(b.bytes()).position(|(x, y)| x != y).unwrap_or(a.len().min(b.len()));
    let from = i.saturating_sub(60);
    let cut = |s: &str| s.chars().skip(from).take(160).collect::<String>();
    format!("desugared structures differ at byte {i}: …{} ≠ …{}", cut(a), cut(b))
}
fn first_line_difference(a: &str, b: &str) -> String {
    for (i, (x, y)) in a.lines().zip(b.lines()).enumerate() {
        if x != y {
            return format!("line {}: {:?} -> {:?}", i + 1, x, y);
        }
    }
    format!("line counts {} -> {}", a.lines().count(), b.lines().count())
}

/// `f = f` may be contracted to `= f` (and `/f = f` to `/f`): the output then lacks one identifier per pun.
fn explained_by_puns(a: &[String], b: &[String]) -> bool {
    // contract every `x = x` / `x = x :` in both and compare
    let contract = |v: &[String]| -> Vec<String> {
        let mut out: Vec<String> = Vec::new();
        let mut i = 0;
        while i < v.len() {
            if i + 2 < v.len() && v[i + 1] == "=" && v[i] == v[i + 2] && v[i].chars().next().is_some_and(|c| c.is_ascii_alphabetic() || c == '_') {
                out.push("=".into());
                out.push(v[i].clone());
                i += 3;
                continue;
            }
            if i + 3 < v.len() && v[i] == "/" && v[i + 2] == "=" && v[i + 1] == v[i + 3] {
                out.push("/".into());
                out.push(v[i + 1].clone());
                i += 4;
                continue;
            }
            out.push(v[i].clone());
            i += 1;
        }
        out
    };
    contract(a) == contract(b)
}


// ------------------------------------------------------------------------------------------------
// spec -> code: trees of spec/ZyFormat.tla

fn same_term(a: &Result<String, String>, b: &Result<String, String>) -> bool {
    match (a, b) {
        | (Ok(x), Ok(y)) => x == y,
        | (Err(x), Err(y)) => !x.starts_with("parse:") && x == y,
        | _ => false,
    }
}

fn join(toks: &[&str]) -> String {
    let mut s = toks.join(" ");
    s.push('\n');
    s
}

/// zyconf replay-format CASES TRACE SUMMARY TIER
pub fn replay_format(cases: &str, trace: &str, summary: &str, tier: &str) {
    let cases = read_ndjson(std::path::Path::new(cases));
    let opts_full = option_set(tier);
    let opts_quick = option_set("quick");
    let seed = seed_from_env();
    let results = par_map_with(
        &cases,
        threads(),
        |_| (),
        |_, idx, c| {
            let strs = |k: &str| -> Vec<String> { c[k].as_array().unwrap().iter().map(|x| x.as_str().unwrap().to_string()).collect() };
            let nums = |k: &str| -> Vec<usize> { c[k].as_array().unwrap().iter().map(|x| x.as_u64().unwrap() as usize).collect() };
            let (toks, kinds, pars) = (strs("toks"), strs("kinds"), strs("pars"));
            let bare_ok = c["bareOk"].as_bool().unwrap();
            let rewritten = c["rw"].as_bool().unwrap();
            // the deep (depth 3) trees of the thorough tier are many: they get the quick plan, the thorough extras
            // (all 36 option combinations, every gap, line-break layouts) go to the trees of depth <= 2
            let deep = c["d"].as_u64().unwrap_or(0) >= 3;
            if deep && (idx as u64).wrapping_mul(0x9E37_79B9_7F4A_7C15).wrapping_add(seed) % 10 != 0 {
                // 660 000 depth-3 trees: a seeded tenth of them is replayed (every one is still printed and checked by TLC)
                return (Tally::default(), vec![], json!({"ev": "tree", "id": idx, "template": true, "grammar": true, "runs": 1, "skipped": true}));
            }
            let opts = if deep { &opts_quick } else { &opts_full };
            let comment_stride = if tier == "quick" || deep { 3 } else { 1 };
            let pick = |f: &dyn Fn(&str) -> bool| -> (Vec<&str>, Vec<&str>) {
                let ix: Vec<usize> = (0..toks.len()).filter(|i| f(&pars[*i])).collect();
                (ix.iter().map(|i| toks[*i].as_str()).collect(), ix.iter().map(|i| kinds[*i].as_str()).collect())
            };
            let (full_t, _full_k) = pick(&|_| true);
            let (min_t, min_k) = pick(&|p| p != "red");
            let (bare_t, _) = pick(&|p| p == "no");
            let (full, min, bare) = (join(&full_t), join(&min_t), join(&bare_t));
            // every pair written twice: `((t))` - the inner pair is redundant in every position
            let double_t: Vec<&str> = (0..toks.len()).flat_map(|i| if pars[i] == "no" { vec![toks[i].as_str()] } else { vec![toks[i].as_str(), toks[i].as_str()] }).collect();
            let double = join(&double_t);
            let mut tally = Tally::default();
            let mut findings: Vec<Value> = Vec::new();
            let origin = format!("tree#{idx} {}", min.trim_end());
            let sref = structure(&full);
            if matches!(&sref, Err(e) if e.starts_with("parse:") || e.starts_with("PANIC")) {
                findings.push(json!({"property": "C12", "kind": "template-does-not-parse", "detail": format!("{:?}", sref), "origin": origin, "input": full}));
                return (tally, findings, json!({"ev": "tree", "id": idx, "template": false, "grammar": false}));
            }
            // the model's elision table against the real grammar
            let smin = structure(&min);
            let mut grammar_ok = true;
            if !same_term(&smin, &sref) {
                grammar_ok = false;
                findings.push(json!({"property": "C12", "kind": "elision-table-vs-grammar", "origin": origin, "input": min,
                    "detail": format!("the pairs the model calls redundant are not: minimal spelling `{}` does not denote the term of `{}` ({})", min.trim_end(), full.trim_end(),
                                      match &smin { | Err(e) => e.clone(), | Ok(_) => "parses to another term".into() })}));
            }
            let sbare = structure(&bare);
            if same_term(&sbare, &sref) != bare_ok {
                grammar_ok = false;
                findings.push(json!({"property": "C12", "kind": "elision-table-vs-grammar", "origin": origin, "input": bare,
                    "detail": format!("model says parentheses are {} but the bare spelling `{}` {} the term of `{}`", if bare_ok { "all redundant" } else { "needed" },
                                      bare.trim_end(), if bare_ok { "does not denote" } else { "denotes" }, full.trim_end())}));
            }
            // every spelling under every option
            let mut canon_bad = 0u64;
            let mut skeleton_bad = 0u64;
            for opt in opts.iter() {
                let mut outs: Vec<(&str, Option<String>)> = Vec::new();
                outs.push(("full", eval_case(&full, opt, &origin, &mut tally, &mut findings)));
                outs.push(("minimal", eval_case(&min, opt, &origin, &mut tally, &mut findings)));
                if bare_ok {
                    outs.push(("bare", eval_case(&bare, opt, &origin, &mut tally, &mut findings)));
                }
                outs.push(("double", eval_case(&double, opt, &origin, &mut tally, &mut findings)));
                if opt.parens == Parentheses::Minimal {
                    // C14 canonicity: spellings that differ in redundant single-line pairs format to one text
                    let first = outs[0].1.clone();
                    // (a group that is multi-line in the output is kept as an indentation boundary by design)
                    let single_line = outs.iter().all(|(_, o)| o.as_deref().is_some_and(|o| o.trim_end().lines().count() == 1));
                    for (name, o) in &outs[1..] {
                        if !single_line {
                            break;
                        }
                        if o.is_some() && first.is_some() && *o != first {
                            canon_bad += 1;
                            let (r1, r2) = (scan(first.as_deref().unwrap()).tokens, scan(o.as_deref().unwrap()).tokens);
                            let sans = |v: &Vec<String>| v.iter().filter(|t| *t != "(" && *t != ")").cloned().collect::<Vec<_>>();
                            let ctor_group = full_t.windows(3).any(|w| w[0].starts_with('+') && w[1] == "(" && w[2] == "(");
                            let cause = if sans(&r1) == sans(&r2) && ctor_group { "constructor-argument-tuple-behind-a-redundant-pair" } else if sans(&r1) == sans(&r2) { "pairs-differ" } else if norm_tokens(&r1, true) == norm_tokens(&r2, true) { "contraction-hidden-by-a-redundant-pair" } else { "other" };
                            findings.push(json!({"property": "C14", "kind": "not-canonical", "origin": origin, "options": opt.name(), "input": full,
                                "detail": format!("cause={cause}; full and {name} spellings format differently: {:?} vs {:?}", first.as_deref().unwrap_or(""), o.as_deref().unwrap_or(""))}));
                            break;
                        }
                    }
                    // the output carries exactly the pairs the model calls needed (single-line layouts only)
                    if single_line && !rewritten {
                        if let Some(o) = &first {
                            let got = norm_tokens(&scan(o).tokens, false);
                            let want = norm_tokens(&scan(&min).tokens, false);
                            if got != want && !explained_by_puns(&want, &got) {
                                skeleton_bad += 1;
                                let cause = if norm_tokens(&got, true) == norm_tokens(&want, true) { "pairs-differ" } else { "tokens-differ" };
                                findings.push(json!({"property": "C14", "kind": "paren-skeleton", "origin": origin, "options": opt.name(), "input": full,
                                    "detail": format!("cause={cause}; expected `{}` got `{}`", want.join(" "), got.join(" "))}));
                            }
                        }
                    }
                }
            }
            // C14: other starting layouts - one or two line breaks (or a blank line) in the gaps of the full and the
            // minimal spelling; everything on its own line.  (All trees of depth <= 1; deeper ones in the thorough tier.)
            let depth = c["d"].as_u64().unwrap_or(9);
            if depth <= 1 || (tier != "quick" && depth <= 2 && idx % 5 == 0) {
                for (sname, st) in [("full", &full_t), ("minimal", &min_t)] {
                    let n = st.len();
                    let build = |breaks: &[(usize, &str)]| -> String {
                        let mut s = String::new();
                        for (i, t) in st.iter().enumerate() {
                            if i > 0 {
                                s.push_str(breaks.iter().find(|(g, _)| *g == i).map(|(_, b)| *b).unwrap_or(" "));
                            }
                            s.push_str(t);
                        }
                        s.push('\n');
                        s
                    };
                    let mut layouts: Vec<String> = Vec::new();
                    for g in 1..n {
                        layouts.push(build(&[(g, "\n")]));
                        layouts.push(build(&[(g, "\n\n")]));
                        if depth <= 1 {
                            for h in (g + 1)..n {
                                layouts.push(build(&[(g, "\n"), (h, "\n")]));
                            }
                        }
                    }
                    layouts.push(build(&(1..n).map(|g| (g, "\n")).collect::<Vec<_>>()));
                    for (li, src) in layouts.iter().enumerate() {
                        for opt in [Opt::default(), Opt { layout: LayoutIntentions::BlankLinesOnly, ..Opt::default() }, Opt { parens: Parentheses::Preserve, ..Opt::default() }] {
                            eval_case(src, &opt, &format!("{origin} [{sname} spelling, line-break layout #{li}]"), &mut tally, &mut findings);
                        }
                    }
                }
            }
            // C13: a verbatim region is copied unchanged, alone and inside every other directive (and two deep)
            if depth <= 1 || (tier != "quick" && depth <= 2) {
                let payload = format!("( {} )", min_t.join("  ")); // hand spacing the printer would never produce
                for outer in ["", "@[format(indent(4))] ", "@[format(width(30))] ", "@[format(layout(ignore), parentheses(preserve))] ", "@[format(width(60))] @[format(indent(3))] "] {
                    let src = format!("{outer}@[format(verbatim)] {payload}\n");
                    let o = format!("{origin} [verbatim under `{}`]", outer.trim());
                    if let Some(out) = eval_case(&src, &Opt::default(), &o, &mut tally, &mut findings) {
                        if !out.contains(&payload) {
                            tally.hit("verbatim");
                            findings.push(json!({"property": "C13", "kind": "verbatim-region-changed", "origin": o, "options": "default", "input": src,
                                "detail": format!("the payload `{payload}` was re-flowed: {:?}", out), "extra": {"output": out}}));
                        }
                    }
                }
            }
            // C13: one comment in every token gap of the minimal spelling
            let (pred_stay, pred_hop) = (nums("predMin"), nums("predMinHop"));
            // a spec token may be several lexemes (`@[inline]`): positions are compared in spec-token units
            let lexemes: Vec<usize> = min_t.iter().map(|t| scan(t).tokens.len()).collect();
            let min_lex: Vec<String> = scan(&min).tokens;
            let to_spec = |lex_at: usize| -> Option<usize> {
                let mut acc = 0;
                for (i, l) in lexemes.iter().enumerate() {
                    if acc == lex_at {
                        return Some(i);
                    }
                    acc += l;
                }
                if acc == lex_at { Some(lexemes.len()) } else { None }
            };
            let mut placements = 0u64;
            let mut moved_as_modelled = 0u64;
            let mut model_imprecise = 0u64;
            let n = min_t.len();
            for g in 0..=n {
                if (idx + g) % comment_stride != 0 {
                    continue;
                }
                for (ck, ctext) in [("block", "/- note -/"), ("line", "-- note\n"), ("text", "--| note\n"), ("mblock", "/- note\n   second line -/")] {
                    // multi-line block comments: a twelfth of the gaps in the quick tier
                    if ck == "mblock" && tier == "quick" && (idx + g) % 12 != 0 {
                        continue;
                    }
                    let mut parts: Vec<&str> = min_t[..g].to_vec();
                    parts.push(ctext);
                    parts.extend_from_slice(&min_t[g..]);
                    let mut src = String::new();
                    for (k, p) in parts.iter().enumerate() {
                        if k > 0 && !src.ends_with('\n') {
                            src.push(' ');
                        }
                        src.push_str(p);
                    }
                    if !src.ends_with('\n') {
                        src.push('\n');
                    }
                    for opt in [Opt::default(), Opt { parens: Parentheses::Preserve, ..Opt::default() }] {
                        placements += 1;
                        let o = format!("{origin} comment({ck})@gap{g}");
                        let Some(out) = eval_case(&src, &opt, &o, &mut tally, &mut findings) else { continue };
                        // the hop needs the grouping node to be elided: minimal policy and a group that the layout keeps on one line
                        // (which of the two is a layout decision the model leaves open)
                        let sc = scan(&out);
                        if rewritten || sc.tokens != min_lex || sc.comments.len() != 1 {
                            continue; // tokens changed (telescopes merged) or comment lost (already reported)
                        }
                        let Some(at) = to_spec(sc.comments[0].at) else { continue };
                        let (lo, hi) = if at >= g { (g, at) } else { (at, g) };
                        // an opening parenthesis is neutral: the comment stays directly before the same element
                        let pred: Vec<usize> = (0..pred_stay.len()).map(|i| if opt.parens == Parentheses::Minimal && at == pred_hop[i] { pred_hop[i] } else { pred_stay[i] }).collect();
                        let crossed: std::collections::BTreeSet<&str> = (lo..hi).filter(|i| min_t[*i] != "(").map(|i| min_k[i]).collect();
                        if at != pred[g] {
                            model_imprecise += 1;
                            if std::env::var("ZYFMT_DEBUG").is_ok() {
                                eprintln!("IMPRECISE gap {g} pred {} actual {at}: {:?} -> {:?}", pred[g], src, out);
                            }
                        }
                        if crossed.iter().any(|k| !matches!(*k, "sep" | "arm")) {
                            let modelled = at == pred[g];
                            if modelled {
                                moved_as_modelled += 1;
                            }
                            findings.push(json!({"property": "C13", "origin": o, "options": opt.name(), "input": src,
                                "kind": if at < g { "comment-moved-backwards" } else if modelled { "comment-crosses-element" } else { "comment-moved-unmodelled" },
                                "detail": format!("crossed={} tokens [{}]{}", crossed.iter().copied().collect::<Vec<_>>().join("+"), min_t[lo..hi].join(" "),
                                                  if modelled { " (where the anchoring model of spec/ZyFormat.tla puts it)" } else { "" }),
                                "extra": {"output": out}}));
                        }
                    }
                }
            }
            let rec = json!({"ev": "tree", "id": idx, "template": true, "grammar": grammar_ok, "runs": tally.runs,
                "timeout": tally.bad.get("timeout").copied().unwrap_or(0),
                "panic": tally.bad.get("panic").copied().unwrap_or(0), "unparsable": tally.bad.get("unparsable").copied().unwrap_or(0),
                "structure": tally.bad.get("structure").copied().unwrap_or(0), "comments": tally.bad.get("comments").copied().unwrap_or(0),
                "tokens": tally.bad.get("tokens").copied().unwrap_or(0), "newline": tally.bad.get("newline").copied().unwrap_or(0),
                "idempotence": tally.bad.get("idempotence").copied().unwrap_or(0), "canon": canon_bad, "skeleton": skeleton_bad,
                "verbatim": tally.bad.get("verbatim").copied().unwrap_or(0),
                "placements": placements, "movedAsModelled": moved_as_modelled, "modelImprecise": model_imprecise,
                "sideBad": findings.iter().filter(|f| f["kind"].as_str().is_some_and(|k| k.starts_with("comment-crosses") || k.starts_with("comment-moved"))).count()});
            (tally, cap_findings(findings), rec)
        },
        |_| (),
    );
    write_out(results, trace, summary, json!({"trees": cases.len(), "options": opts_full.iter().map(|o| o.name()).collect::<Vec<_>>()}));
}

fn write_out(results: Vec<(Tally, Vec<Value>, Value)>, trace: &str, summary: &str, mut extra: Value) {
    use std::io::Write;
    let mut t = std::io::BufWriter::new(std::fs::File::create(trace).unwrap());
    let mut findings = Vec::new();
    let mut runs = 0u64;
    let mut bad: std::collections::BTreeMap<String, u64> = Default::default();
    let mut sums: std::collections::BTreeMap<String, u64> = Default::default();
    let mut per_key: std::collections::BTreeMap<String, u64> = Default::default();
    for (tally, f, rec) in results {
        writeln!(t, "{}", rec).unwrap();
        runs += tally.runs;
        for (k, v) in tally.bad {
            *bad.entry(k.to_string()).or_default() += v;
        }
        for k in ["placements", "movedAsModelled", "modelImprecise"] {
            if let Some(v) = rec[k].as_u64() {
                *sums.entry(k.to_string()).or_default() += v;
            }
        }
        findings.extend(f);
    }
    per_key = FAMILIES.lock().unwrap().clone();
    extra["findings_by_family"] = json!(per_key);
    extra["runs"] = json!(runs);
    extra["bad"] = json!(bad);
    extra["sums"] = json!(sums);
    extra["findings"] = json!(findings);
    std::fs::write(summary, serde_json::to_string(&extra).unwrap()).unwrap();
    println!("format replay: {} formatting runs, {} findings", runs, extra["findings"].as_array().unwrap().len());
}


// ------------------------------------------------------------------------------------------------
// repository corpus: every source under every option, starting layouts, directives, random edits

/// zyconf corpus-format TRACE SUMMARY TIER MUTANTS
pub fn corpus_format(trace: &str, summary: &str, tier: &str, mutants: usize) {
    let files = crate::corpus::source_files();
    let opts = option_set(tier);
    let seed = seed_from_env();
    let results = par_map_with(
        &files,
        threads(),
        |_| (),
        |_, idx, path| {
            let mut tally = Tally::default();
            let mut findings: Vec<Value> = Vec::new();
            let name = path.strip_prefix("/repo/").unwrap_or(path).display().to_string();
            if std::env::var("ZYFMT_DEBUG").is_ok() {
                eprintln!("START {name}");
            }
            let Ok(src) = std::fs::read_to_string(path) else {
                return (tally, findings, json!({"ev": "file", "id": idx, "parses": false}));
            };
            if matches!(structure(&src), Err(e) if e.starts_with("parse:")) {
                return (tally, findings, json!({"ev": "file", "id": idx, "parses": false}));
            }
            let mut rng = Rng(seed ^ (idx as u64).wrapping_mul(0x9E37_79B9));
            let mut canon_bad = 0u64;
            let mut verbatim_bad = 0u64;
            // (a) as written, every option; (b) other horizontal spacing must give the same text
            let spaced = relayout(&src, "hspace", &mut rng);
            for opt in &opts {
                let o1 = eval_case(&src, opt, &name, &mut tally, &mut findings);
                let o2 = eval_case(&spaced, opt, &format!("{name} [hspace]"), &mut tally, &mut findings);
                if o1.is_some() && o2.is_some() && o1 != o2 && !src.contains("verbatim") {
                    canon_bad += 1;
                    findings.push(json!({"property": "C14", "kind": "not-canonical", "origin": format!("{name} [hspace]"), "options": opt.name(), "input": clip(&spaced),
                        "detail": format!("cause=horizontal-spacing; {}", first_line_difference(o1.as_deref().unwrap(), o2.as_deref().unwrap()))}));
                }
            }
            // (c) other starting layouts (C14 is about all of them, not the authors' own)
            for how in ["flat", "broken"] {
                let v = relayout(&src, how, &mut rng);
                for opt in opts.iter().filter(|o| o.width >= 100 || tier != "quick") {
                    eval_case(&v, opt, &format!("{name} [{how}]"), &mut tally, &mut findings);
                }
            }
            // (d) the formatter's own output at another width as the starting layout
            for (w1, w2) in [(30usize, 100usize), (100, 30), (60, 80)] {
                if tier == "quick" && w1 == 60 {
                    continue;
                }
                let first = Opt { width: w1, ..Opt::default() };
                if SLOW.lock().unwrap().contains(name.as_str()) {
                    continue;
                }
                if let Ok(o) = format_with(&src, first.pretty()) {
                    eval_case(&o, &Opt { width: w2, ..Opt::default() }, &format!("{name} [own output at width {w1}]"), &mut tally, &mut findings);
                }
            }
            // (e) directives in the source
            let directives: &[&str] = if tier == "quick" {
                &["width(30)", "layout(ignore), parentheses(preserve)", "verbatim"]
            } else {
                &["width(30)", "width(1)", "width(60), indent(4)", "layout(ignore)", "layout(blank_lines)", "parentheses(preserve)", "layout(ignore), parentheses(preserve)", "verbatim", "width(45), layout(preserve), parentheses(minimal), indent(3)"]
            };
            for d in directives {
                if d.contains("width") && SLOW.lock().unwrap().contains(name.as_str()) {
                    continue;
                }
                let wrapped = format!("@[format({d})] (\n{}\n)\n", src.trim_end());
                let o = eval_case(&wrapped, &Opt::default(), &format!("{name} [@[format({d})]]"), &mut tally, &mut findings);
                if *d == "verbatim" {
                    if let Some(o) = o {
                        if !o.contains(src.trim_end()) {
                            verbatim_bad += 1;
                            findings.push(json!({"property": "C13", "kind": "verbatim-region-changed", "origin": name, "options": "default", "input": clip(&wrapped),
                                "detail": first_line_difference(&wrapped, &o)}));
                        }
                    }
                }
                // nested: an inner directive on the whole file inside an outer one
                if tier != "quick" {
                    let nested = format!("@[format(width(25))] (\n@[format({d})] (\n{}\n)\n)\n", src.trim_end());
                    eval_case(&nested, &Opt::default(), &format!("{name} [nested @[format({d})]]"), &mut tally, &mut findings);
                }
            }
            // (e2) the whole file as a verbatim region inside another directive
            for outer in ["indent(4)", "width(60), layout(ignore)"] {
                let wrapped = format!("@[format({outer})] (\n@[format(verbatim)] (\n{}\n)\n)\n", src.trim_end());
                if let Some(o) = eval_case(&wrapped, &Opt::default(), &format!("{name} [verbatim inside @[format({outer})]]"), &mut tally, &mut findings) {
                    if !o.contains(src.trim_end()) {
                        verbatim_bad += 1;
                        findings.push(json!({"property": "C13", "kind": "verbatim-region-changed", "origin": name, "options": "default", "input": clip(&wrapped),
                            "detail": format!("inside @[format({outer})]: {}", first_line_difference(&wrapped, &o))}));
                    }
                }
            }
            // (f) random edits
            let mut edits = 0u64;
            let mut tries = 0;
            while (edits as usize) < mutants && tries < mutants * 6 {
                tries += 1;
                let Some((m, kind)) = mutate_layout(&src, &mut rng) else { continue };
                let sm = structure(&m);
                if matches!(&sm, Err(e) if e.starts_with("parse:")) {
                    continue;
                }
                edits += 1;
                let origin = format!("{name} [edit {kind} #{tries}]");
                for opt in [Opt::default(), Opt { width: 40, ..Opt::default() }, Opt { layout: LayoutIntentions::Ignore, parens: Parentheses::Preserve, ..Opt::default() }] {
                    if opt.width < 100 && SLOW.lock().unwrap().contains(name.as_str()) {
                        continue;
                    }
                    let o = eval_case(&m, &opt, &origin, &mut tally, &mut findings);
                    if kind == "paren" && opt.parens == Parentheses::Minimal && opt.width >= 100 {
                        // a redundant single-line pair must not show in the output
                        if let (Some(o), Ok(base)) = (o, format_with(&src, opt.pretty())) {
                            if same_term(&sm, &structure(&src)) && o != base {
                                canon_bad += 1;
                                let (r1, r2) = (scan(&o).tokens, scan(&base).tokens);
                                let cause = if norm_tokens(&r1, true) == norm_tokens(&r2, true) && norm_tokens(&r1, false) != norm_tokens(&r2, false) { "pair-kept" }
                                            else if norm_tokens(&r1, true) == norm_tokens(&r2, true) { "contraction-hidden-by-a-redundant-pair" } else { "other" };
                                findings.push(json!({"property": "C14", "kind": "not-canonical", "origin": origin, "options": opt.name(), "input": clip(&m),
                                    "detail": format!("cause={cause}; {}", first_line_difference(&base, &o))}));
                            }
                        }
                    }
                }
            }
            if std::env::var("ZYFMT_DEBUG").is_ok() {
                eprintln!("DONE {name}");
            }
            let g = |k: &str| tally.bad.get(k).copied().unwrap_or(0);
            let rec = json!({"ev": "file", "id": idx, "parses": true, "runs": tally.runs, "timeout": g("timeout"), "panic": g("panic"), "unparsable": g("unparsable"), "structure": g("structure"),
                "comments": g("comments"), "tokens": g("tokens"), "newline": g("newline"), "idempotence": g("idempotence"), "canon": canon_bad, "verbatim": verbatim_bad, "edits": edits});
            (tally, cap_findings(findings), rec)
        },
        |_| (),
    );
    write_out(results, trace, summary, json!({"files": files.len(), "options": opts.iter().map(|o| o.name()).collect::<Vec<_>>()}));
}

/// zyconf fmt-dump FILE : debugging aid
pub fn fmt_dump(path: &str) {
    let src = std::fs::read_to_string(path).unwrap();
    if std::env::var("ZYFMT_TIME").is_ok() {
        eprintln!("same options: {} {:?}", Opt::default().pretty() == PrettyOptions::default(), Opt::default().pretty());
        let t = std::time::Instant::now();
        let r = format_with(&src, PrettyOptions::default());
        eprintln!("default {:?} ok={}", t.elapsed(), r.is_ok());
        for opt in option_set("thorough") {
            let t = std::time::Instant::now();
            let r = format_with(&src, opt.pretty());
            eprintln!("{} {:?} ok={}", opt.name(), t.elapsed(), r.is_ok());
        }
        let t = std::time::Instant::now();
        let _ = structure(&src);
        eprintln!("structure {:?}", t.elapsed());
        let mut rng = Rng(1);
        for how in ["hspace", "flat", "broken"] {
            let v = relayout(&src, how, &mut rng);
            for opt in [Opt::default(), Opt { layout: LayoutIntentions::Ignore, ..Opt::default() }, Opt { width: 1, ..Opt::default() }] {
                let t = std::time::Instant::now();
                let r = format_with(&v, opt.pretty());
                eprintln!("{how} {} {:?} ok={}", opt.name(), t.elapsed(), r.is_ok());
            }
        }
        for d in ["width(30)", "width(1)", "verbatim", "layout(ignore), parentheses(preserve)"] {
            let wrapped = format!("@[format({d})] (\n{}\n)\n", src.trim_end());
            let t = std::time::Instant::now();
            let r = format_with(&wrapped, Opt::default().pretty());
            eprintln!("directive {d} {:?} ok={}", t.elapsed(), r.is_ok());
        }
        return;
    }
    println!("{:?}", structure(&src));
    println!("{:?}", format_with(&src, PrettyOptions::default()));
    let _ = (LayoutIntentions::Preserve, Parentheses::Minimal, json!({}), Value::Null);
}
