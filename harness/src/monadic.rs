//! C20: closed returning computations enumerated by spec/ZyCore.tla (Root = "retint") are rendered twice in
//! one scaffold — plain, and as an `@[monadic]` block instantiated at the identity monad (Ret, return = ret,
//! bind = run then continue) — and both results must equal the reference semantics' returned value.
use crate::common::*;
use crate::core::{Ann, Naming, Renderer, parse};
use serde_json::{Value, json};

const HEAD: &str = r#"begin
  let monadic_basis = @(import("/repo/lib/std/control/monad.zy")) that
  param (
    (/core; /numeric; /system; builtin) :
    @(import("/repo/lib/std/builtin.zy"))
  ) that
  let (/VType; /CType; /Thk; /Ret; /Unit) = core that
  let (Scalar = Int64, int64) = numeric/int64 that
  let (/OS; /process) = system that
  let (= Monad, = Algebra, ()) = monadic_basis builtin in
  begin
    def ! ret_monad : Monad Ret =
      comatch
      | .return A value => ret value
      | .bind A B computation function =>
        do value <- ! computation;
        ! function value
      end
    that
    let B : VType = data | +T : Unit | +F : Int64 end that
    let O : VType = data | +N : Unit | +J : Int64 * Int64 | +K : B end that
    let B1 : VType = data | +T : Unit end that
    let P2 : VType = data | +P2 : Int64 * Int64 end that
    let P3 : VType = data | +P3 : Int64 * Int64 * Int64 end that
    let P4 : VType = data | +P4 : Int64 * Int64 * Int64 * Int64 end that
    let P5 : VType = data | +P5 : Int64 * Int64 * Int64 * Int64 * Int64 end that
    let P6 : VType = data | +P6 : Int64 * Int64 * Int64 * Int64 * Int64 * Int64 end that
    let P7 : VType = data | +P7 : Int64 * Int64 * Int64 * Int64 * Int64 * Int64 * Int64 end that
"#;

/// spec/ZyProducts.tla, family "mon": a tuple built and taken apart inside the block, one component returned
fn render_tuple_program(c: &Value) -> String {
    let n = c["n"].as_u64().unwrap() as usize;
    let k = c["k"].as_u64().unwrap() as usize;
    let j = c["pick"].as_u64().unwrap();
    let tuple = format!("({})", (1..=n).map(|i| i.to_string()).collect::<Vec<_>>().join(", "));
    let mut names: Vec<String> = (1..=k).map(|i| format!("x{i}")).collect();
    if k < n {
        names.push("rest".into());
    }
    let pat = format!("({})", names.join(", "));
    let ty = vec!["Int64"; n].join(" * ");
    match c["build"].as_str().unwrap() {
        | "doret" => format!("do t <- ret {tuple}; let {pat} = t in ret x{j}"),
        | "let" => format!("let t = {tuple} in let {pat} = t in ret x{j}"),
        | "direct" => format!("let {pat} = {tuple} in ret x{j}"),
        | "ctor" => format!("do c <- ret (+P{n}{tuple} : P{n}); match c | +P{n}{pat} => ret x{j} end"),
        | _ => format!("do f <- ret {{ fn (t : {ty}) => let {pat} = t in ret x{j} }}; ! f {tuple}"),
    }
}

/// zyconf replay-monadic CASES SUMMARY
pub fn replay_monadic(cases_path: &str, out_path: &str) {
    let cases: Vec<Value> = read_ndjson(std::path::Path::new(cases_path)).into_iter().filter(|c| c["fam"] == "mon" || (c["res"]["verdict"] == "accept" && c["res"]["end"] == "ret")).collect();
    let results: Vec<(Vec<Value>, &'static str, Option<Value>)> = par_map_with(
        &cases,
        threads(),
        |tid| Analyzer::new(&format!("mon{tid}")),
        |an, idx, case| {
            let (body, want) = if case["fam"] == "mon" {
                (render_tuple_program(case), case["val"].as_i64().unwrap())
            } else {
                let toks = case["prog"].as_array().unwrap();
                let mut i = 0;
                let root = parse(toks, &mut i);
                let ann = if idx % 2 == 0 { Ann::Full } else { Ann::Lean };
                let mut r = Renderer { ann, naming: Naming::Unique, rng: Rng(idx as u64) };
                (r.term(&root, &[], &[]), case["res"]["val"].as_i64().unwrap())
            };
            let src = format!(
                "{HEAD}    def ! translated = @[monadic] begin\n      ({body} : Ret Int64)\n    end that\n    def ! plain : Ret Int64 =\n      {body}\n    that\n    do v1 <- ! translated Ret {{ ! ret_monad }};\n    do v2 <- ! plain;\n    ! (int64/eq) OS v1 v2 {{ ! (process/exit) v1 }} {{ do d <- ! (int64/add) 100 v1; ! (process/exit) d }}\n  end\nend\n"
            );
            let (v, analysis) = an.analyze("case.zy", &src);
            let mut findings = Vec::new();
            let mk = |kind: &str, detail: String| json!({"property":"C20","kind":kind,"detail":detail,"case":case,"source":src});
            let class;
            match (&v, &analysis) {
                | (Verdict::Accepted, Some(a)) => {
                    let run = run_bounded(&an.session, a, b"", &[], 400_000);
                    match &run.end {
                        | RunEnd::Exit { code } if *code as i64 == want => class = "agree",
                        | RunEnd::Exit { code } if *code as i64 >= 100 => {
                            class = "differ";
                            findings.push(mk("monadic-result-differs-from-plain", format!("plain computes {want}; the block at the identity monad computes {}", *code as i64 - 100)));
                        }
                        | RunEnd::Exit { code } => {
                            class = "differ";
                            findings.push(mk("both-differ-from-reference-semantics", format!("reference semantics returns {want}; program exits with {code}")));
                        }
                        | RunEnd::Panic { class: PanicClass::Stuck, panic } => {
                            class = "stuck";
                            findings.push(mk("translated-block-goes-wrong", format!("{} @ {}", panic.message, panic.file)));
                        }
                        | other => {
                            class = "other";
                            findings.push(mk("unexpected-end", format!("{other:?}")));
                        }
                    }
                }
                | (Verdict::Panic { panic }, _) => {
                    class = "panic";
                    findings.push(mk("monadic-elaboration-panics", format!("{} @ {}", panic.message, panic.file)));
                }
                | _ => {
                    // is the plain half alone accepted?  then the block is rejected although its body is supported
                    class = "rejected";
                    findings.push(mk("supported-block-rejected", v.short()));
                }
            }
            let sample = (idx % 401 == 0).then(|| json!({"body": body, "reference_value": want, "class": class}));
            (findings, class, sample)
        },
        |an| an.cleanup(),
    );
    let mut findings = Vec::new();
    let mut classes: std::collections::BTreeMap<&str, usize> = Default::default();
    let mut samples = Vec::new();
    for (f, c, sm) in results {
        findings.extend(f);
        *classes.entry(c).or_default() += 1;
        if let Some(sm) = sm { if samples.len() < 5 { samples.push(sm) } }
    }
    std::fs::write(out_path, serde_json::to_string_pretty(&json!({"cases": cases.len(), "classes": classes, "findings": findings, "samples": samples})).unwrap()).expect("write");
    println!("replay-monadic: cases={} classes={classes:?} findings={}", cases.len(), findings.len());
}
