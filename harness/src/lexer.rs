//! C11: class strings from spec/ZyLexer.tla are concretised and fed to the real `Lexer` and parser.
//! Compared: the token positions the real lexer yields vs the model's `emitted`; must-reject inputs must be
//! rejected; regular inputs must be accepted with a root span that ends at the last token outside comments.
//! Second family: every repository source S followed by junk.
use crate::common::*;
use crate::front::*;
use serde_json::{Value, json};
use zydeco_syntax::SpanView;

fn concretise(classes: &[String]) -> (String, Vec<(usize, usize)>) {
    let mut src = String::new();
    let mut at = Vec::new();
    for c in classes {
        let text = match c.as_str() {
            | "Code" => "x",
            | "Open" => "/-",
            | "Close" => "-/",
            | "Line" => "-- c -/ /- \"\n",
            | "Str" => "\"-/ /- --\"",
            | "Unknown" => "$",
            | other => panic!("class {other}"),
        };
        let start = src.len();
        src.push_str(text);
        at.push((start, start + text.trim_end().len()));
        src.push(' ');
    }
    (src, at)
}

/// zyconf replay-lexer CASES SUMMARY
pub fn replay_lexer(cases_path: &str, out_path: &str) {
    let cases = read_ndjson(std::path::Path::new(cases_path));
    let results: Vec<(Vec<Value>, &'static str)> = par_map_with(
        &cases,
        threads(),
        |_| (),
        |_, _idx, case| {
            let classes: Vec<String> = case["input"].as_array().unwrap().iter().map(|c| c.as_str().unwrap().to_string()).collect();
            let emitted: Vec<usize> = case["emitted"].as_array().unwrap().iter().map(|c| c.as_u64().unwrap() as usize).collect();
            let mustreject = case["mustreject"].as_bool().unwrap();
            let (src, at) = concretise(&classes);
            let mut findings = Vec::new();
            let mk = |kind: &str, detail: String| json!({"property":"C11","kind":kind,"detail":detail,"case":case,"source":src});
            // (1) token stream
            let toks = match guarded(|| lexer_tokens(&src)) {
                | Ok(t) => t,
                | Err(p) => {
                    findings.push(mk("lexer-panic", format!("{} @ {}", p.message, p.file)));
                    return (findings, "panic");
                }
            };
            // position Len+1 is the zero-width end-of-input token of an unterminated comment
            let want: Vec<(usize, usize)> =
                emitted.iter().map(|&i| if i > at.len() { (src.len(), src.len()) } else { at[i - 1] }).collect();
            if toks != want {
                let cause = if toks.len() < want.len() && want.starts_with(&toks) { "token-stream-ends-early" } else { "token-stream-differs" };
                findings.push(mk(cause, format!("model emits positions {want:?}, lexer yields {toks:?}")));
            }
            // (2) accept / reject
            let parsed = parse_unit(&src);
            let class;
            match (&parsed, mustreject) {
                | (Ok(_), true) => {
                    class = "accepted";
                    findings.push(mk("accepts-irregular-source", "the model requires a syntax error (stray `-/`, unterminated `/-`, unknown character, or no code)".into()))
                }
                | (Err(e), _) if e.starts_with("PANIC") => {
                    class = "panic";
                    findings.push(mk("parser-panic", e.clone()))
                }
                | (Err(e), false) => {
                    class = "rejected";
                    findings.push(mk("rejects-regular-source", e.clone()))
                }
                | (Err(_), true) => class = "rejected",
                | (Ok(p), false) => {
                    class = "accepted";
                    // (3) the parsed term extends to the last token outside comments
                    let span = p.unit.root.span(&p.parser.spans);
                    let (s0, e0) = span.get_cursor1();
                    let last = want.last().map(|x| x.1).unwrap_or(0);
                    let first = want.first().map(|x| x.0).unwrap_or(0);
                    if e0 != last || s0 != first {
                        findings.push(mk("root-span-does-not-cover-code", format!("root span {s0}..{e0}, code tokens {first}..{last}")));
                    }
                }
            }
            (findings, class)
        },
        |_| (),
    );
    let mut findings = Vec::new();
    let mut classes = std::collections::BTreeMap::new();
    for (f, c) in results {
        findings.extend(f);
        *classes.entry(c).or_insert(0usize) += 1;
    }
    let samples: Vec<Value> = cases
        .iter()
        .step_by((cases.len() / 4).max(1))
        .take(4)
        .map(|c| {
            let cl: Vec<String> = c["input"].as_array().unwrap().iter().map(|x| x.as_str().unwrap().to_string()).collect();
            json!({"classes": cl, "text": concretise(&cl).0, "emitted": c["emitted"], "mustreject": c["mustreject"]})
        })
        .collect();
    let summary = json!({"cases": cases.len(), "findings": findings, "classes": classes, "samples": samples});
    std::fs::write(out_path, serde_json::to_string_pretty(&summary).unwrap()).expect("write");
    println!("replay-lexer: cases={} findings={}", cases.len(), findings.len());
}

/// zyconf junk-suffix SUMMARY : S ++ junk must be rejected for lexically irregular junk, accepted for comments.
pub fn junk_suffix(out_path: &str) {
    let files = crate::corpus::source_files();
    let bad = ["-/ x", "$", "`", "\"", "'", "-/", "/- -/ -/ y", "\u{a0} z", "/- unterminated", "/- a -- b -/\n", ") x"];
    let good = ["-- trailing comment", "/- block -/", "\n\n", "/- a /- nested -/ b -/\n-- c\n", "--| text block\n"];
    let results: Vec<(Vec<Value>, usize)> = par_map_with(
        &files,
        threads(),
        |_| (),
        |_, _idx, path| {
            let mut findings = Vec::new();
            let Ok(src) = std::fs::read_to_string(path) else { return (findings, 0) };
            if parse_unit(&src).is_err() {
                return (findings, 0);
            }
            let mut n = 0;
            for j in bad {
                n += 1;
                let text = format!("{src}\n{j}");
                if parse_unit(&text).is_ok() {
                    findings.push(json!({"property":"C11","kind":"accepts-junk-suffix","detail":format!("suffix {j:?} is silently ignored"),
                        "file": path.display().to_string(), "suffix": j}));
                }
            }
            for j in good {
                n += 1;
                let text = format!("{src}\n{j}");
                if let Err(e) = parse_unit(&text) {
                    findings.push(json!({"property":"C11","kind":"rejects-comment-suffix","detail":format!("suffix {j:?}: {e}"),
                        "file": path.display().to_string(), "suffix": j}));
                }
            }
            (findings, n)
        },
        |_| (),
    );
    let mut findings = Vec::new();
    let mut n = 0;
    for (f, k) in results {
        findings.extend(f);
        n += k;
    }
    std::fs::write(out_path, serde_json::to_string_pretty(&json!({"cases": n, "findings": findings})).unwrap()).expect("write");
    println!("junk-suffix: cases={n} findings={}", findings.len());
}
