//! Front-end helpers shared by C10–C14: parsing a text with the real lexer/parser, spans, token streams.
use crate::common::*;
use std::sync::Arc;
use zydeco_surface::textual::{Lexer, SourceUnitParser, syntax::Parser, syntax::SourceUnit};
use zydeco_utils::span::{FileInfo, LocationCtx};

pub struct ParsedUnit {
    pub parser: Parser,
    pub unit: SourceUnit,
}

/// Parse `src` with the real parser.  Err = a syntax error message (panics are turned into Err("PANIC ...")).
pub fn parse_unit(src: &str) -> Result<ParsedUnit, String> {
    let r = guarded(|| {
        let info = FileInfo::new(src, Some(Arc::new(std::path::PathBuf::from("mem.zy"))));
        let loc = LocationCtx::File(info);
        let mut parser = Parser::new();
        match SourceUnitParser::new().parse(src, &loc, &mut parser, Lexer::new(src)) {
            | Ok(unit) => Ok(ParsedUnit { parser, unit }),
            | Err(e) => Err(format!("syntax error: {}", format!("{e:?}").chars().take(160).collect::<String>())),
        }
    });
    match r {
        | Ok(x) => x,
        | Err(p) => Err(format!("PANIC {} @ {}", p.message, p.file)),
    }
}

/// (start, end) byte offsets of the tokens the parser-facing lexer yields.
pub fn lexer_tokens(src: &str) -> Vec<(usize, usize)> {
    Lexer::new(src).map(|(s, _, e)| (s, e)).collect()
}
