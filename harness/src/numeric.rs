//! C05: tables printed by spec/ZyNumeric.tla (bit-vector semantics) replayed on the real runtime, and
//! literal range cases replayed through the real checker.
use crate::common::*;
use crate::roles::*;
use serde_json::{Value, json};
use zydeco_dynamics::syntax::*;

fn ity(name: &str) -> (IntegerType, u32, bool) {
    match name {
        | "int8" => (IntegerType::Int8, 8, true),
        | "int16" => (IntegerType::Int16, 16, true),
        | "int32" => (IntegerType::Int32, 32, true),
        | "int64" => (IntegerType::Int64, 64, true),
        | "uint8" => (IntegerType::UInt8, 8, false),
        | "uint16" => (IntegerType::UInt16, 16, false),
        | "uint32" => (IntegerType::UInt32, 32, false),
        | "uint64" => (IntegerType::UInt64, 64, false),
        | o => panic!("type {o}"),
    }
}
fn iop(name: &str) -> IntegerOperation {
    use IntegerOperation::*;
    match name {
        | "add" => Add,
        | "sub" => Sub,
        | "mul" => Mul,
        | "div" => Div,
        | "mod" => Mod,
        | "eq" => Eq,
        | "lt" => Lt,
        | "gt" => Gt,
        | "to_string" => ToString,
        | o => panic!("op {o}"),
    }
}
/// little-endian bit array -> raw unsigned value
fn raw_of_bits(bits: &Value) -> u64 {
    bits.as_array().unwrap().iter().enumerate().fold(0u64, |acc, (i, b)| acc | (b.as_u64().unwrap() << i))
}
/// the mathematical value of a raw W-bit pattern at a type
fn value_of_raw(raw: u64, w: u32, signed: bool) -> i128 {
    if signed {
        let shift = 64 - w;
        (((raw << shift) as i64) >> shift) as i128
    } else {
        raw as i128
    }
}
fn mk(t: IntegerType, v: i128) -> RcValue {
    lit(Literal::Integer(IntegerLiteral::from_value(v, t)))
}

fn check_arith(tyname: &str, op: &str, a: u64, b: u64, want: Option<u64>) -> Option<String> {
    let (t, w, s) = ity(tyname);
    let (end, _) = run_role(BuiltinValueRole::Integer(t, iop(op)), vec![mk(t, value_of_raw(a, w, s)), mk(t, value_of_raw(b, w, s))], b"", &[]);
    match (end, want) {
        | (RoleEnd::Ret(v), Some(raw)) => {
            let got = as_int(&v);
            let wantv = value_of_raw(raw, w, s);
            (got != Some(wantv)).then(|| format!("{tyname} {op} {} {}: model {wantv}, runtime {got:?}", value_of_raw(a, w, s), value_of_raw(b, w, s)))
        }
        | (RoleEnd::Panic(p), None) if classify_run_panic(&p) == PanicClass::Trap => None,
        | (other, want) => Some(format!("{tyname} {op} {} {}: model {:?}, runtime {other:?}", value_of_raw(a, w, s), value_of_raw(b, w, s), want.map(|r| value_of_raw(r, w, s)))),
    }
}
fn check_branch(tyname: &str, op: &str, a: u64, b: u64, first: bool) -> Option<String> {
    let (t, w, s) = ity(tyname);
    let args = vec![mk(t, value_of_raw(a, w, s)), mk(t, value_of_raw(b, w, s)), thunk_ret(1), thunk_ret(0)];
    let (end, _) = run_role(BuiltinValueRole::Integer(t, iop(op)), args, b"", &[]);
    match end {
        | RoleEnd::Ret(v) if as_int(&v) == Some(if first { 1 } else { 0 }) => None,
        | other => Some(format!("{tyname} {op} {} {}: model selects {} continuation, runtime {other:?}", value_of_raw(a, w, s), value_of_raw(b, w, s), if first { "first" } else { "second" })),
    }
}
fn decimal(neg: bool, digits: &Value) -> String {
    let d: String = digits.as_array().unwrap().iter().map(|x| char::from(b'0' + x.as_u64().unwrap() as u8)).collect();
    format!("{}{}", if neg { "-" } else { "" }, d)
}

const LIT_PRELUDE: &str = r#"param (
  (/core; /representations; /numeric; /system) :
  @(import("/repo/lib/std/builtin.zy"))
) in
let (/VType; /CType; /Thk; /Ret; /Unit) = core in
let (/Scalar = Int8) = representations/i8 in
let (/Scalar = Int16) = representations/i16 in
let (/Scalar = Int32) = representations/i32 in
let (/Scalar = Int64) = representations/i64 in
let (/Scalar = UInt8) = representations/u8 in
let (/Scalar = UInt16) = representations/u16 in
let (/Scalar = UInt32) = representations/u32 in
let (/Scalar = UInt64) = representations/u64 in
let (/Scalar = Float32) = representations/f32 in
let (/Scalar = Float64) = representations/f64 in
let (/process; /OS; /stdio) = system in
let (Scalar = NInt64, int64) = numeric/int64 in
let (Scalar = NInt16, int16) = numeric/int16 in
"#;
fn tname(n: &str) -> (&'static str, &'static str) {
    match n {
        | "int8" => ("Int8", "int8"),
        | "int16" => ("Int16", "int16"),
        | "int32" => ("Int32", "int32"),
        | "int64" => ("Int64", "int64"),
        | "uint8" => ("UInt8", "uint8"),
        | "uint16" => ("UInt16", "uint16"),
        | "uint32" => ("UInt32", "uint32"),
        | "uint64" => ("UInt64", "uint64"),
        | o => panic!("{o}"),
    }
}

/// zyconf replay-numeric CASES SUMMARY
pub fn replay_numeric(cases_path: &str, out_path: &str) {
    let cases = read_ndjson(std::path::Path::new(cases_path));
    let results: Vec<(Vec<Value>, usize)> = par_map_with(
        &cases,
        threads(),
        |tid| Analyzer::new(&format!("num{tid}")),
        |an, _idx, row| {
            let mut findings = Vec::new();
            let mut n = 0usize;
            let mut bad = |kind: &str, detail: String| findings.push(json!({"property":"C05","kind":kind,"detail":detail,"case": if row["k"] == "t8" { json!({"k":"t8","ty":row["ty"],"op":row["op"],"a":row["a"]}) } else { row.clone() }}));
            match row["k"].as_str().unwrap() {
                | "t8" => {
                    let (tyn, op, a) = (row["ty"].as_str().unwrap(), row["op"].as_str().unwrap(), row["a"].as_u64().unwrap());
                    for (b, r) in row["res"].as_array().unwrap().iter().enumerate() {
                        n += 1;
                        let r = r.as_i64().unwrap();
                        let d = if ["eq", "lt", "gt"].contains(&op) {
                            check_branch(tyn, op, a, b as u64, r == 1)
                        } else {
                            check_arith(tyn, op, a, b as u64, (r >= 0).then_some(r as u64))
                        };
                        if let Some(d) = d {
                            bad("integer-operation", d);
                            break;
                        }
                    }
                }
                | "arith" => {
                    n += 1;
                    let res = &row["res"];
                    let want = (res.as_array().unwrap().len() > 1).then(|| raw_of_bits(res));
                    if let Some(d) = check_arith(row["ty"].as_str().unwrap(), row["op"].as_str().unwrap(), raw_of_bits(&row["a"]), raw_of_bits(&row["b"]), want) {
                        bad("integer-operation", d);
                    }
                }
                | "branch" => {
                    n += 1;
                    if let Some(d) = check_branch(row["ty"].as_str().unwrap(), row["op"].as_str().unwrap(), raw_of_bits(&row["a"]), raw_of_bits(&row["b"]), row["first"].as_bool().unwrap()) {
                        bad("integer-comparison", d);
                    }
                }
                | "str" => {
                    n += 1;
                    let (t, w, s) = ity(row["ty"].as_str().unwrap());
                    let v = value_of_raw(raw_of_bits(&row["a"]), w, s);
                    let want = decimal(row["str"]["neg"].as_bool().unwrap(), &row["str"]["digits"]);
                    let (end, _) = run_role(BuiltinValueRole::Integer(t, IntegerOperation::ToString), vec![mk(t, v)], b"", &[]);
                    match end {
                        | RoleEnd::Ret(sv) if as_string(&sv).as_deref() == Some(&want) => {}
                        | other => bad("to-string", format!("{} to_string {v}: model {want:?}, runtime {other:?}", row["ty"])),
                    }
                }
                | "lit" => {
                    n += 1;
                    let (tn, pkg) = tname(row["ty"].as_str().unwrap());
                    let text = decimal(row["neg"].as_bool().unwrap(), &row["digits"]);
                    let accept = row["accept"].as_bool().unwrap();
                    let src = format!("{LIT_PRELUDE}let (Scalar = LitTy, ops) = numeric/{pkg} in\nlet x : {tn} = {text} in\ndo s <- ! (ops/to_string) x;\n! (stdio/write_line) s {{ ! (process/exit) 0 }}\n");
                    let (v, analysis) = an.analyze("case.zy", &src);
                    match (&v, accept) {
                        | (Verdict::Accepted, true) => {
                            let run = run_bounded(&an.session, analysis.as_ref().unwrap(), b"", &[], 100_000);
                            // the run-time value is exactly the literal
                            let digits = text.trim_start_matches('-').trim_start_matches('0');
                            let canon = if digits.is_empty() { "0".to_string() } else { format!("{}{digits}", if text.starts_with('-') { "-" } else { "" }) };
                            if run.stdout.trim_end() != canon {
                                bad("literal-value", format!("{tn} literal {text}: printed {:?}, expected {canon}", run.stdout));
                            }
                        }
                        | (Verdict::Rejected { .. }, false) => {}
                        | (Verdict::Accepted, false) => bad("out-of-range-literal-accepted", format!("{text} at {tn}")),
                        | (other, true) => bad("in-range-literal-rejected", format!("{text} at {tn}: {}", other.short())),
                        | (other, false) => bad("literal-not-rejected-by-checker", format!("{text} at {tn}: {}", other.short())),
                    }
                }
                | "f32lit" => {
                    // an integer-valued decimal literal at Float32, in plain and in exponent spelling
                    let text = decimal(row["neg"].as_bool().unwrap(), &row["digits"]);
                    let accept = row["accept"].as_bool().unwrap();
                    let digits = text.trim_start_matches('-');
                    let zeros = digits.len() - digits.trim_end_matches('0').len();
                    let mut spellings = vec![format!("{text}.0")];
                    if zeros >= 3 && digits.len() > zeros {
                        let m = &digits[..digits.len() - zeros];
                        spellings.push(format!("{}{}.{}e{}", if text.starts_with('-') { "-" } else { "" }, &m[..1], if m.len() > 1 { &m[1..] } else { "0" }, digits.len() - 1));
                    }
                    for sp in spellings {
                        n += 1;
                        let src = format!("{LIT_PRELUDE}let x : Float32 = {sp} in\n! (process/exit) 0\n");
                        let (v, _) = an.analyze("case.zy", &src);
                        match (&v, accept) {
                            | (Verdict::Accepted, true) | (Verdict::Rejected { .. }, false) => {}
                            | (Verdict::Accepted, false) => bad("float32-literal-not-finite-after-narrowing-accepted", format!("{sp} at Float32")),
                            | (other, _) => bad("float32-literal-finite-after-narrowing-rejected", format!("{sp} at Float32: {}", other.short())),
                        }
                    }
                }
                | "farith" => {
                    // IEEE arithmetic on integer-valued operands: the model's integer is the exact expected value
                    n += 1;
                    let w = row["w"].as_u64().unwrap();
                    let (x, y, r) = (row["x"].as_i64().unwrap(), row["y"].as_i64().unwrap(), row["r"].as_i64().unwrap());
                    let mkf = |v: i64| -> Literal {
                        if w == 32 { Literal::Float(FloatLiteral::from_f32_bits((v as f32).to_bits())) } else { Literal::Float(FloatLiteral::from_bits((v as f64).to_bits())) }
                    };
                    let ft = if w == 32 { FloatType::Float32 } else { FloatType::Float64 };
                    let op = match row["op"].as_str().unwrap() { | "add" => FloatOperation::Add, | "sub" => FloatOperation::Sub, | _ => FloatOperation::Mul };
                    let (end, _) = run_role(BuiltinValueRole::Float(ft, op), vec![lit(mkf(x)), lit(mkf(y))], b"", &[]);
                    let want = mkf(r);
                    match end {
                        | RoleEnd::Ret(zydeco_dynamics::syntax::SemValue::Literal(l)) if l == want => {}
                        // integers have one zero: -1 * 0 is -0.0 in IEEE arithmetic, the model says 0
                        | RoleEnd::Ret(zydeco_dynamics::syntax::SemValue::Literal(Literal::Float(f))) if r == 0 && (f.to_bits() << 1 == 0 || f.to_bits() == 0x8000_0000) => {}
                        | other => bad("float-arithmetic", format!("float{w} {} {x} {y}: integer-exact IEEE result {r}, runtime {other:?}", row["op"])),
                    }
                }
                | "flt" => {
                    n += 1;
                    let w = row["w"].as_u64().unwrap();
                    let bits = |name: &str| -> Literal {
                        let v64: f64 = match name {
                            | "pzero" => 0.0,
                            | "nzero" => -0.0,
                            | "psub" => if w == 32 { f32::from_bits(1) as f64 } else { f64::from_bits(1) },
                            | "nsub" => if w == 32 { -(f32::from_bits(1) as f64) } else { -f64::from_bits(1) },
                            | "pone" => 1.0,
                            | "none" => -1.0,
                            | "pmax" => if w == 32 { f32::MAX as f64 } else { f64::MAX },
                            | "nmax" => if w == 32 { f32::MIN as f64 } else { f64::MIN },
                            | "pinf" => f64::INFINITY,
                            | "ninf" => f64::NEG_INFINITY,
                            | _ => f64::NAN,
                        };
                        if w == 32 { Literal::Float(FloatLiteral::from_f32_bits((v64 as f32).to_bits())) } else { Literal::Float(FloatLiteral::from_bits(v64.to_bits())) }
                    };
                    let ft = if w == 32 { FloatType::Float32 } else { FloatType::Float64 };
                    let op = match row["op"].as_str().unwrap() { | "eq" => FloatOperation::Eq, | "lt" => FloatOperation::Lt, | _ => FloatOperation::Gt };
                    let first = row["first"].as_bool().unwrap();
                    let args = vec![lit(bits(row["x"].as_str().unwrap())), lit(bits(row["y"].as_str().unwrap())), thunk_ret(1), thunk_ret(0)];
                    let (end, _) = run_role(BuiltinValueRole::Float(ft, op), args, b"", &[]);
                    match end {
                        | RoleEnd::Ret(v) if as_int(&v) == Some(if first { 1 } else { 0 }) => {}
                        | other => bad("float-comparison", format!("float{w} {} {} {}: model first={first}, runtime {other:?}", row["op"], row["x"], row["y"])),
                    }
                }
                | other => panic!("row kind {other}"),
            }
            (findings, n)
        },
        |an| an.cleanup(),
    );
    let mut findings = Vec::new();
    let mut n = 0;
    for (f, k) in results {
        findings.extend(f);
        n += k;
    }
    let samples: Vec<Value> = cases.iter().filter(|c| c["k"] != "t8").step_by((cases.len() / 5).max(1)).take(5).cloned().collect();
    std::fs::write(out_path, serde_json::to_string_pretty(&json!({"rows": cases.len(), "applications": n, "findings": findings, "samples": samples})).unwrap()).expect("write");
    println!("replay-numeric: rows={} applications={n} findings={}", cases.len(), findings.len());
}

/// Discipline cases that need no table: defaulting and the absence of implicit conversions.
pub fn literal_discipline(out_path: &str) {
    // (body, accepted?, expected stdout)
    let cases: Vec<(&str, bool, &str)> = vec![
        ("let x = 9223372036854775807 in do s <- ! (int64/to_string) x; ! (stdio/write_line) s { ! (process/exit) 0 }", true, "9223372036854775807"),
        ("let x = 9223372036854775808 in ! (process/exit) 0", false, ""),
        ("let x : Int8 = 5 in let y : Int16 = x in ! (process/exit) 0", false, ""),
        ("let x : UInt8 = 5 in let y : Int8 = x in ! (process/exit) 0", false, ""),
        ("let x : Int64 = 1.5 in ! (process/exit) 0", false, ""),
        ("let x : Float64 = 1 in ! (process/exit) 0", false, ""),
        ("let x : Float32 = 1.5 in let y : Float64 = x in ! (process/exit) 0", false, ""),
        ("let x : Float32 = 3.4028235e38 in ! (process/exit) 0", true, ""),
        ("let x : Float32 = 3.5e38 in ! (process/exit) 0", false, ""),
        ("let x : Float32 = 1e39 in ! (process/exit) 0", false, ""),
        ("let x : Float64 = 1.5 in ! (process/exit) 0", true, ""),
        ("let x : Int8 = 5 in do y <- ! (int16/add) x x; ! (process/exit) 0", false, ""),
    ];
    let mut an = Analyzer::new("litdisc");
    let mut findings = Vec::new();
    for (body, accept, out) in &cases {
        let src = format!("{LIT_PRELUDE}{body}\n");
        let (v, analysis) = an.analyze("case.zy", &src);
        match (&v, *accept) {
            | (Verdict::Accepted, true) => {
                let run = run_bounded(&an.session, analysis.as_ref().unwrap(), b"", &[], 100_000);
                if run.stdout.trim_end() != *out || run.end != (RunEnd::Exit { code: 0 }) {
                    findings.push(json!({"property":"C05","kind":"literal-discipline","detail":format!("{body}: printed {:?} end {:?}", run.stdout, run.end)}));
                }
            }
            | (Verdict::Rejected { .. }, false) => {}
            | (other, _) => findings.push(json!({"property":"C05","kind":"literal-discipline","detail":format!("{body}: expected {}, got {}", if *accept { "accept" } else { "a type error" }, other.short())})),
        }
    }
    an.cleanup();
    std::fs::write(out_path, serde_json::to_string_pretty(&json!({"cases": cases.len(), "findings": findings})).unwrap()).expect("write");
    println!("literal-discipline: cases={} findings={}", cases.len(), findings.len());
}
