//! C08 (library half): behaviours of spec/ZyGraph.tla — a digraph, a piecemeal release schedule and
//! what `top()` must offer after every release — replayed on the real zydeco_utils::graph API.
use crate::common::*;
use serde_json::{Value, json};
use std::collections::BTreeSet;
use zydeco_utils::graph::{DepGraph, Kosaraju, SccGraph};

type Groups = BTreeSet<BTreeSet<u32>>;

fn groups_of(v: &Value) -> Groups {
    v.as_array().unwrap().iter().map(|g| g.as_array().unwrap().iter().map(|x| x.as_u64().unwrap() as u32).collect()).collect()
}
fn top_of(g: &SccGraph<u32>) -> Groups {
    g.top().into_iter().map(|grp| grp.into_iter().collect()).collect()
}

/// zyconf replay-graph CASES SUMMARY
pub fn replay_graph(cases_path: &str, out_path: &str) {
    let cases = read_ndjson(std::path::Path::new(cases_path));
    let results: Vec<Vec<Value>> = par_map_with(
        &cases,
        threads(),
        |_| (),
        |_, _idx, case| {
            let n = case["n"].as_u64().unwrap() as u32;
            let edges: Vec<(u32, u32)> = case["edges"]
                .as_array()
                .unwrap()
                .iter()
                .map(|e| (e[0].as_u64().unwrap() as u32, e[1].as_u64().unwrap() as u32))
                .collect();
            let mut findings = Vec::new();
            let mk = |kind: &str, detail: String| json!({"property":"C08","kind":kind,"detail":detail,"case":case});
            let r = guarded(|| {
                let mut out: Vec<(String, String)> = Vec::new();
                // several instances: every HashMap gets its own SipHash keys
                for round in 0..3 {
                    let mut g: DepGraph<u32> = DepGraph::new();
                    for x in 1..=n {
                        g.add(x, edges.iter().filter(|e| e.0 == x).map(|e| e.1));
                    }
                    let mut scc = Kosaraju::new(&g).run();
                    // (1) piecemeal release along the model's schedule
                    let tops = case["tops"].as_array().unwrap();
                    let sched: Vec<u32> = case["sched"].as_array().unwrap().iter().map(|x| x.as_u64().unwrap() as u32).collect();
                    let mut piecemeal = scc.clone();
                    for i in 0..=sched.len() {
                        let want = groups_of(&tops[i]);
                        let have = top_of(&piecemeal);
                        if want != have {
                            out.push(("top-mismatch".into(), format!("round {round}: after releasing {:?}: predicted top {want:?}, observed {have:?}", &sched[..i])));
                            break;
                        }
                        if i < sched.len() {
                            piecemeal.release([sched[i]]);
                        }
                    }
                    // (2) whole-level drain, as BindingContext does
                    let levels = case["levels"].as_array().unwrap();
                    let mut lvl = 0;
                    loop {
                        let have = top_of(&scc);
                        if have.is_empty() {
                            break;
                        }
                        let want: Groups = levels.get(lvl).map(groups_of).unwrap_or_default();
                        if want != have {
                            out.push(("level-mismatch".into(), format!("round {round}: level {lvl}: predicted {want:?}, observed {have:?}")));
                            break;
                        }
                        scc.release(have.iter().flat_map(|g| g.iter().copied()).collect::<Vec<_>>());
                        lvl += 1;
                        if lvl > 64 {
                            out.push(("drain-does-not-terminate".into(), "more than 64 levels".into()));
                            break;
                        }
                    }
                    if lvl != levels.len() && out.is_empty() {
                        out.push(("level-count".into(), format!("predicted {} levels, observed {lvl}", levels.len())));
                    }
                }
                out
            });
            match r {
                | Ok(out) => {
                    for (k, d) in out {
                        findings.push(mk(&k, d));
                    }
                }
                | Err(p) => findings.push(mk("graph-api-panic", format!("{} @ {}", p.message, p.file))),
            }
            findings
        },
        |_| (),
    );
    let findings: Vec<Value> = results.into_iter().flatten().collect();
    let samples: Vec<&Value> = cases.iter().step_by((cases.len() / 4).max(1)).take(4).collect();
    let summary = json!({"cases": cases.len(), "findings": findings, "samples": samples});
    std::fs::write(out_path, serde_json::to_string_pretty(&summary).unwrap()).expect("write summary");
    println!("replay-graph: cases={} findings={}", cases.len(), findings.len());
}
