//! Corpus half of C01 (and input for C16/C18): every source under /repo/lib and /repo/docs that the
//! checker accepts as an executable — and token-level mutants of them that it still accepts — is run
//! under a step bound with varied stdin/argv; the outcome stream is validated by the trace spec
//! `ZyMachineTrace.tla` (an accepted program ends in Exit/Ret/Trap/HostIO/Running, never Stuck).
use crate::common::*;
use serde_json::json;
use std::path::{Path, PathBuf};
use zydeco_session::CompilerSession;

pub fn source_files() -> Vec<PathBuf> {
    let mut out = Vec::new();
    fn walk(dir: &Path, out: &mut Vec<PathBuf>) {
        let Ok(rd) = std::fs::read_dir(dir) else { return };
        let mut entries: Vec<_> = rd.filter_map(|e| e.ok()).map(|e| e.path()).collect();
        entries.sort();
        for p in entries {
            if p.is_dir() {
                walk(&p, out);
            } else if matches!(p.extension().and_then(|e| e.to_str()), Some("zy") | Some("zydeco")) {
                out.push(p);
            }
        }
    }
    walk(Path::new("/repo/lib"), &mut out);
    walk(Path::new("/repo/docs"), &mut out);
    out
}

/// Repository sources plus the scenario programs kept under /verif/scenarios/c01.
pub fn run_corpus_files() -> Vec<PathBuf> {
    let mut out = source_files();
    if let Ok(rd) = std::fs::read_dir("/verif/scenarios/c01") {
        let mut extra: Vec<PathBuf> = rd.filter_map(|e| e.ok()).map(|e| e.path()).filter(|p| p.extension().and_then(|e| e.to_str()) == Some("zy")).collect();
        extra.sort();
        out.extend(extra);
    }
    out
}

/// Split a source into coarse tokens (identifier-ish runs, numbers, single other characters),
/// keeping everything so that concatenation gives the source back.
pub fn coarse_tokens(src: &str) -> Vec<String> {
    let mut toks = Vec::new();
    let mut cur = String::new();
    let is_id = |c: char| c.is_alphanumeric() || c == '_' || c == '\'';
    for c in src.chars() {
        if is_id(c) {
            cur.push(c);
        } else {
            if !cur.is_empty() {
                toks.push(std::mem::take(&mut cur));
            }
            toks.push(c.to_string());
        }
    }
    if !cur.is_empty() {
        toks.push(cur);
    }
    toks
}

const KEYWORDS: [&str; 24] = [
    "let", "in", "do", "ret", "fn", "fix", "match", "comatch", "end", "data", "codata", "begin", "that", "param",
    "def", "exists", "forall", "import", "builtin", "monadic", "as", "doc", "literal", "format",
];

/// One seeded token-level mutant: swap/replace identifiers, constructors, numbers with others of the same file.
pub fn mutate(src: &str, rng: &mut Rng) -> Option<String> {
    let mut toks = coarse_tokens(src);
    let ident_pos: Vec<usize> = toks
        .iter()
        .enumerate()
        .filter(|(_, t)| {
            t.chars().next().map(|c| c.is_alphabetic() || c == '_').unwrap_or(false) && !KEYWORDS.contains(&t.as_str())
        })
        .map(|(i, _)| i)
        .collect();
    let num_pos: Vec<usize> = toks
        .iter()
        .enumerate()
        .filter(|(_, t)| t.chars().all(|c| c.is_ascii_digit()) && !t.is_empty())
        .map(|(i, _)| i)
        .collect();
    match rng.below(4) {
        | 0 | 1 if ident_pos.len() >= 2 => {
            // replace one identifier occurrence by another identifier of the file
            let a = ident_pos[rng.below(ident_pos.len())];
            let b = ident_pos[rng.below(ident_pos.len())];
            if toks[a] == toks[b] {
                return None;
            }
            toks[a] = toks[b].clone();
        }
        | 2 if ident_pos.len() >= 2 => {
            // swap two identifier occurrences
            let a = ident_pos[rng.below(ident_pos.len())];
            let b = ident_pos[rng.below(ident_pos.len())];
            if toks[a] == toks[b] {
                return None;
            }
            toks.swap(a, b);
        }
        | _ if !num_pos.is_empty() => {
            let a = num_pos[rng.below(num_pos.len())];
            toks[a] = ["0", "1", "2", "255", "9223372036854775807"][rng.below(5)].to_string();
        }
        | _ => return None,
    }
    Some(toks.concat())
}

fn stdin_variants(rng: &mut Rng) -> Vec<Vec<u8>> {
    let mut v = vec![Vec::new(), b"3\n4\n".to_vec(), b"hello world\n\n12\n".to_vec()];
    let mut s = String::new();
    for _ in 0..rng.below(6) {
        let words = ["7", "-1", "abc", "", "λx", "0", "99999999999999999999", "+ 1 2", "(", "q"];
        s.push_str(words[rng.below(words.len())]);
        s.push('\n');
    }
    v.push(s.into_bytes());
    v
}

/// zyconf corpus-run OUT MUTANTS_PER_FILE MAX_STEPS
pub fn corpus_run(out_path: &str, mutants: usize, max_steps: usize) {
    let files = run_corpus_files();
    let seed = seed_from_env();
    let results: Vec<Vec<serde_json::Value>> = par_map_with(
        &files,
        threads(),
        |tid| Analyzer::new(&format!("corpus{tid}")),
        |an, idx, path| {
            let mut rng = Rng(seed ^ (idx as u64).wrapping_mul(0xA24BAED4963EE407));
            let mut events = Vec::new();
            let src = match std::fs::read_to_string(path) {
                | Ok(s) => s,
                | Err(_) => return events,
            };
            // the original, analysed at its real path so that relative imports resolve
            let session = CompilerSession::default();
            let r = guarded(|| session.analyze(path));
            let (verdict, analysis) = match r {
                | Ok(res) => (verdict_of(&res), res.ok()),
                | Err(panic) => (Verdict::Panic { panic }, None),
            };
            let run_all = |tag: &str, session: &CompilerSession, a: &zydeco_session::ProgramAnalysis, rng: &mut Rng,
                               events: &mut Vec<serde_json::Value>| {
                for (k, input) in stdin_variants(rng).into_iter().enumerate() {
                    let args: Vec<String> = (0..k % 3).map(|i| format!("arg{i}")).collect();
                    let run = run_bounded(session, a, &input, &args, max_steps);
                    let exe = !matches!(run.end, RunEnd::NotExecutable { .. });
                    events.push(json!({"file": path.display().to_string(), "variant": tag, "stdin": String::from_utf8_lossy(&input),
                        "args": args, "accepted": true, "executable": exe, "end": run.end, "steps": run.steps}));
                    if !exe {
                        break;
                    }
                }
            };
            match (&verdict, &analysis) {
                | (Verdict::Accepted, Some(a)) => run_all("original", &session, a, &mut rng, &mut events),
                | _ => events.push(json!({"file": path.display().to_string(), "variant": "original", "accepted": false,
                        "verdict": verdict})),
            }
            drop(session);
            // mutants, analysed as an overlay on the real path (imports keep resolving)
            let mut made = 0;
            let mut tries = 0;
            // scenario files are the recorded inputs of specific findings: they are run as written, not mutated
            // (a mutant of a known-finding input is the same finding under another spelling)
            let mutants = if path.starts_with("/verif/scenarios") { 0 } else { mutants };
            while made < mutants && tries < mutants * 6 {
                tries += 1;
                let Some(m) = mutate(&src, &mut rng) else { continue };
                made += 1;
                let mut session = CompilerSession::default();
                let r = guarded(|| {
                    session.set_overlay(path, m.clone()).expect("overlay");
                    session.analyze(path)
                });
                match r {
                    | Ok(res) => {
                        let v = verdict_of(&res);
                        if let (Verdict::Accepted, Ok(a)) = (&v, &res) {
                            let before = events.len();
                            run_all("mutant", &session, a, &mut rng, &mut events);
                            for e in &mut events[before..] {
                                e["mutant_source"] = json!(m);
                            }
                        } else {
                            events.push(json!({"file": path.display().to_string(), "variant": "mutant", "accepted": false}));
                        }
                    }
                    | Err(panic) => events.push(json!({"file": path.display().to_string(), "variant": "mutant", "accepted": false,
                        "verdict": Verdict::Panic { panic }, "mutant_source": m})),
                }
            }
            let _ = an;
            events
        },
        |an| an.cleanup(),
    );
    let mut out = String::new();
    let mut n = 0;
    for evs in results {
        for e in evs {
            out.push_str(&serde_json::to_string(&e).unwrap());
            out.push('\n');
            n += 1;
        }
    }
    std::fs::write(out_path, out).expect("write corpus trace");
    println!("corpus-run: files={} events={}", files.len(), n);
}
